#!/usr/bin/env python3
"""Derivation aid (not a check): transcribes the kind-directed cast tables of typst-syntax's ast.rs
and the keyword/punctuation spellings of kind.rs into tables/typst_syntax_<ver>.json.
All casts in ast.rs are pure functions of SyntaxNode::kind(); the checker reads the frozen JSON and
fails closed if /repo/Cargo.lock pins a different typst-syntax version."""
import glob, json, os, re, sys

VER = '0.13.1'
src = glob.glob(os.path.expanduser('~/.cargo/registry/src/*/typst-syntax-%s/src' % VER))[0]
ast = open(os.path.join(src, 'ast.rs')).read()
kind = open(os.path.join(src, 'kind.rs')).read()

node_types = re.findall(r'node!\s*\{\s*(?:///[^\n]*\n\s*|#\[[^\]]*\]\s*)*([A-Z][A-Za-z]*)\s*\}', ast)
enums = {}
for m in re.finditer(r'pub enum (\w+)<\'a> \{(.*?)\n\}', ast, re.S):
    name, body = m.group(1), m.group(2)
    variants = re.findall(r'^\s*(\w+)\((\w+)<\'a>\),', body, re.M)
    if variants:
        enums[name] = variants
casts = {}
for m in re.finditer(r"impl<'a> AstNode<'a> for (\w+)<'a> \{\s*fn from_untyped\(node: &'a SyntaxNode\) -> Option<Self> \{\s*match node.kind\(\) \{(.*?)\n        \}", ast, re.S):
    name, body = m.group(1), m.group(2)
    arms = []
    for a in re.finditer(r'(SyntaxKind::(\w+)|_)\s*=>\s*(node\.cast\(\)\.map\(Self::(\w+)\)|Option::None)', body):
        arms.append((a.group(2) or '_', a.group(4)))
    casts[name] = arms

kinds_of = {t: [t] for t in node_types}
variant_of = {}


def resolve(name):
    if name in kinds_of and name not in casts:
        return kinds_of[name]
    if name in variant_of:
        return list(variant_of[name])
    payload = dict(enums[name])
    table = {}
    explicit = []
    for k, v in casts[name]:
        if k != '_' and v:
            table[k] = [v]
            explicit.append(k)
    for k, v in casts[name]:
        if k == '_' and v:
            inner = payload[v]
            for ik in resolve(inner):
                if ik not in table:
                    if inner in variant_of:
                        table[ik] = [v] + variant_of[inner][ik]
                    else:
                        table[ik] = [v]
    variant_of[name] = table
    kinds_of[name] = list(table)
    return list(table)


for e in casts:
    resolve(e)

# kind.rs: SyntaxKind::name() gives the fixed spelling in backquotes for punctuation / keywords
spelling = {}
for m in re.finditer(r'Self::(\w+) => "([^"]*)"', kind):
    k, s = m.group(1), m.group(2)
    mm = re.search(r'`([^`]+)`', s)
    if mm and k not in spelling:
        spelling[k] = mm.group(1)
# `name()` says "keyword `let`", "`+=`"... sanity: keywords
keywords = re.search(r'pub fn is_keyword\(self\) -> bool \{\s*matches!\(\s*self,(.*?)\)\s*\}', kind, re.S).group(1)
keywords = re.findall(r'Self::(\w+)', keywords)
trivia = re.findall(r'Self::(\w+)', re.search(r'pub fn is_trivia\(self\) -> bool \{\s*matches!\(\s*self,(.*?)\)\s*\}', kind, re.S).group(1))
allkinds = re.findall(r'^\s{4}([A-Z]\w*),$', re.search(r'pub enum SyntaxKind \{(.*?)\n\}', kind, re.S).group(1), re.M)

# UnOp / BinOp from_kind
unop = re.findall(r'SyntaxKind::(\w+) => Self::(\w+)', re.search(r'impl UnOp \{.*?pub fn from_kind\(token: SyntaxKind\) -> Option<Self> \{(.*?)\n    \}', ast, re.S).group(1))
binop = re.findall(r'SyntaxKind::(\w+) => Self::(\w+)', re.search(r'impl BinOp \{.*?pub fn from_kind\(token: SyntaxKind\) -> Option<Self> \{(.*?)\n    \}', ast, re.S).group(1))
binop_str = re.findall(r'Self::(\w+) => "([^"]+)"', re.search(r'impl BinOp \{.*?pub fn as_str\(self\) -> &\'static str \{(.*?)\n    \}', ast, re.S).group(1))
binop_prec = re.search(r'pub fn precedence\(self\) -> usize \{\s*match self \{(.*?)\n        \}', ast[ast.index('impl BinOp {'):], re.S).group(1)
prec = {}
for m in re.finditer(r'((?:Self::\w+\s*\|?\s*)+)=>\s*(\d+)', binop_prec):
    for v in re.findall(r'Self::(\w+)', m.group(1)):
        prec[v] = int(m.group(2))
# Expr::is_literal
lit = re.findall(r'Self::(\w+)', re.search(r'pub fn is_literal\(self\) -> bool \{\s*matches!\(\s*self,(.*?)\)\s*\}', ast, re.S).group(1))

out = {'version': VER, 'all_kinds': allkinds, 'node_types': node_types, 'kinds_of': kinds_of, 'variant_of': variant_of,
       'enum_payloads': {e: dict(v) for e, v in enums.items()}, 'spelling': spelling, 'keywords': keywords, 'trivia': trivia,
       'unop_from_kind': dict(unop), 'binop_from_kind': dict(binop), 'binop_as_str': dict(binop_str), 'binop_precedence': prec,
       'expr_is_literal': lit}
dst = os.path.join(os.path.dirname(os.path.dirname(os.path.abspath(__file__))), 'tables', 'typst_syntax_%s.json' % VER)
json.dump(out, open(dst, 'w'), indent=1, sort_keys=True)
print('node types', len(node_types), 'enums', list(casts), 'spellings', len(spelling), 'kinds', len(allkinds))
print('Expr kinds', len(kinds_of['Expr']), 'Pattern', len(kinds_of['Pattern']), 'Param', len(kinds_of['Param']))
print('keywords', keywords)
print('unop', unop, 'binop', binop)
print('prec', prec)
print('literal', lit)
