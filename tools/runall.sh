#!/bin/bash
# run every claimed check (quick tier) on /repo; prints one line per check, non-zero exit if any check alarms
cd "$(dirname "$0")/.."
rc=0
for id in $(python3 -c "import json; print(' '.join(c['property_id'] for c in json.load(open('MANIFEST.json'))['checks']))"); do
  out=$(./check $id 2>&1); r=$?
  echo "$id rc=$r $(echo "$out" | tail -1)"
  if [ $r -ne 0 ]; then rc=1; echo "$out" | grep -E "^  violation" | head -5; fi
done
exit $rc
