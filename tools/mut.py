#!/usr/bin/env python3
"""Checker self-validation helper: apply a mutation to a scratch copy of /repo (outside /repo and
/verif), run the given checks against it, delete the copy.

usage: tools/mut.py C11,C05 --sub FILE 'old text' 'new text' [--sub ...]  |  --patch file.diff
Prints the VIOLATION / KNOWN-FINDING lines and the exit status of each check."""
import os, shutil, subprocess, sys, tempfile

HERE = os.path.dirname(os.path.dirname(os.path.abspath(__file__)))


def main():
    args = sys.argv[1:]
    props = args[0].split(',')
    subs, patch = [], None
    i = 1
    verbose = False
    while i < len(args):
        if args[i] == '--sub':
            subs.append((args[i + 1], args[i + 2], args[i + 3]))
            i += 4
        elif args[i] == '--patch':
            patch = args[i + 1]
            i += 2
        elif args[i] == '-v':
            verbose = True
            i += 1
        else:
            raise SystemExit('bad arg ' + args[i])
    d = tempfile.mkdtemp(prefix='tymut-', dir='/tmp')
    try:
        subprocess.check_call(['rsync', '-a', '--exclude', 'target', '--exclude', '.git', '--exclude', 'web', '--exclude', 'docs',
                               '/repo/', d + '/'])
        for (f, old, new) in subs:
            p = os.path.join(d, f)
            s = open(p).read()
            if old not in s:
                raise SystemExit('pattern not found in %s: %r' % (f, old))
            s = s.replace(old, new, 1)
            open(p, 'w').write(s)
        if patch:
            subprocess.check_call(['patch', '-p1', '-s', '-d', d, '-i', os.path.abspath(patch)])
        env = dict(os.environ, TYLINT_REPO=d, VERIF_EVIDENCE_DIR=os.path.join(d, '.evidence'), VERIF_REPLAY_DIR=os.path.join(d, '.replay'))
        rc_all = {}
        for pid in props:
            p = subprocess.run([os.path.join(HERE, 'check'), pid], env=env, stdout=subprocess.PIPE, stderr=subprocess.STDOUT, text=True)
            rc_all[pid] = p.returncode
            lines = p.stdout.splitlines()
            if verbose:
                print(p.stdout)
            else:
                for l in lines:
                    if l.startswith(('VIOLATION', 'KNOWN-FINDING', '  violation', 'fact extraction failed', 'error')) or l.startswith('     '):
                        print('   ', l[:300])
            print('%s exit=%d' % (pid, p.returncode))
    finally:
        shutil.rmtree(d, ignore_errors=True)


if __name__ == '__main__':
    main()
