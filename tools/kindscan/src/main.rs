//! Derivation aid (not a check): prints the parent-kind -> child-kind sets observed in error-free
//! Typst files, as JSON, to cross-check the hand-transcribed grammar table.
use std::collections::{BTreeMap, BTreeSet};
use typst_syntax::{parse, SyntaxNode};

fn walk(n: &SyntaxNode, out: &mut BTreeMap<String, BTreeSet<String>>) {
    let e = out.entry(format!("{:?}", n.kind())).or_default();
    for c in n.children() {
        e.insert(format!("{:?}", c.kind()));
    }
    for c in n.children() {
        walk(c, out);
    }
}

fn main() {
    let mut out: BTreeMap<String, BTreeSet<String>> = BTreeMap::new();
    let mut files = 0;
    for arg in std::env::args().skip(1) {
        let Ok(text) = std::fs::read_to_string(&arg) else { continue };
        let root = parse(&text);
        if root.erroneous() {
            continue;
        }
        files += 1;
        walk(&root, &mut out);
    }
    eprintln!("{files} error-free files");
    print!("{{");
    let mut first = true;
    for (k, v) in &out {
        if !first { print!(","); }
        first = false;
        print!("\"{}\":[{}]", k, v.iter().map(|x| format!("\"{x}\"")).collect::<Vec<_>>().join(","));
    }
    println!("}}");
}
