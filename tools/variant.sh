#!/bin/bash
# usage: tools/variant.sh NAME patch.diff   -> scratch copy /tmp/var-NAME with the patch applied (for interactive exploration:
#   TYLINT_REPO=/tmp/var-NAME VERIF_EVIDENCE_DIR=/tmp/var-NAME/.evidence VERIF_REPLAY_DIR=/tmp/var-NAME/.replay ./check C05)
# remove the copy afterwards (rm -rf /tmp/var-NAME).
set -e
d=/tmp/var-$1
rm -rf $d; mkdir -p $d
rsync -a --exclude target --exclude .git --exclude web --exclude docs /repo/ $d/
patch -p1 -s -d $d -i "$(readlink -f $2)"
echo $d
