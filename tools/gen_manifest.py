#!/usr/bin/env python3
"""Regenerates /verif/MANIFEST.json from the table below (keeps the manifest valid at all times)."""
import json, os, sys
HERE = os.path.dirname(os.path.dirname(os.path.abspath(__file__)))
sys.path.insert(0, os.path.join(HERE, 'lib'))

TB = ('rustc name/type resolution and MIR construction; pinned dependency crates behind their documented contracts '
      '(typst_syntax::parse deterministic and total, error-free trees obey the grammar table; pretty renders text verbatim and indents by the sum of nest amounts)')

CLAIMS = {
    'C17': dict(
        technique='effect analysis over the resolved MIR call graph (who-may-call, no shared state, no hash-order iteration)',
        text='Structural proof obligations over the MIR of /repo: the effect closure of typstyle-core\'s public API is free of ambient authority, '
             'shared mutable state and hash-order iteration; per-call state; Send+Sync. For schedules/histories this is the complete argument '
             'available short of verifying the dependencies; a runtime test can only sample interleavings.',
        design_ref='DESIGN.md §2 C17'),
}

NA = {
    'C02': 'about the Typst compiler\'s rendering (pages, pixels, diagnostics) of the formatted text: no clause of its own is visible in the shape of typstyle\'s source; token-conservation clauses are claimed under C01/C09/C10 instead',
    'C03': 'idempotence is a fixed point of parse∘print∘render over all inputs and widths; its mechanisms relate a decision to the rendered text, which no call/guard/dataflow fact implies; any structural proxy would fire on behaviour-preserving edits',
}

PENDING = 'rules for this property are designed (DESIGN.md §2) but not built yet in this round; not claimed until the check exists'


def main():
    props = [json.loads(l) for l in open(os.path.join(HERE, 'properties.jsonl'))]
    checks, na = [], []
    for p in props:
        pid = p['id']
        if pid in CLAIMS:
            c = CLAIMS[pid]
            checks.append({
                'property_id': pid,
                'quick_cmd': './check %s' % pid,
                'thorough_cmd': './check %s --thorough' % pid,
                'evidence_file': 'evidence/%s.json' % pid,
                'replay_cmd_template': './check %s --replay {path}' % pid,
                'engine': 'tylint',
                'technique': c['technique'],
                'level_claimed': {'category': 'other', 'text': c['text'], 'design_ref': c['design_ref']},
                'level_note': c.get('note', TB),
            })
        else:
            na.append({'property_id': pid, 'reason': NA.get(pid, PENDING)})
    m = {
        'version': 1,
        'setup_cmd': './setup.sh',
        'hooks': {
            'guard': 'typstyle_verif',
            'enable': 'not needed: the checks read the unmodified source through a rustc driver (RUSTC_WORKSPACE_WRAPPER); no hook or instrumentation was added to /repo',
            'baseline_off_cmd': 'cd /repo && cargo test --workspace --no-fail-fast --offline',
            'source_commits': [],
            'add_only': True,
        },
        'engines': [
            {'name': 'tylint', 'path': 'tylint/', 'serves_properties': sorted(CLAIMS),
             'kind_free_text': 'rustc_private driver (nightly) injected with RUSTC_WORKSPACE_WRAPPER under cargo check: dumps type-checked MIR with resolved callees, ADT tables, statics, unsafe blocks, auto-trait facts as JSON'},
            {'name': 'rules', 'path': 'lib/', 'serves_properties': sorted(CLAIMS),
             'kind_free_text': 'Python rule engines over the fact base: E1 call graph + effect classes, E2 kind-directed abstract evaluation of child dispatch, E3 dominator/path rules, E4 provenance'},
        ],
        'checks': checks,
        'not_applicable': na,
        'notes': 'Static analysis only: no check executes the formatter, its tests, or a solver. See DESIGN.md.',
    }
    json.dump(m, open(os.path.join(HERE, 'MANIFEST.json'), 'w'), indent=1)
    print('MANIFEST.json: %d checks, %d not_applicable' % (len(checks), len(na)))


if __name__ == '__main__':
    main()
