#!/usr/bin/env python3
"""Regenerates /verif/MANIFEST.json from the table below (keeps the manifest valid at all times)."""
import json, os, sys
HERE = os.path.dirname(os.path.dirname(os.path.abspath(__file__)))
sys.path.insert(0, os.path.join(HERE, 'lib'))

TB = ('rustc name/type resolution and MIR construction; pinned dependency crates behind their documented contracts '
      '(typst_syntax::parse deterministic and total, error-free trees obey the grammar table; pretty renders text verbatim and indents by the sum of nest amounts)')

CLAIMS = {
    'C01': dict(
        technique='kind-directed abstract evaluation of MIR (constant propagation over the finite SyntaxKind lattice) of every dispatcher and child-dispatch loop, per grammar child kind; truth tables for paren removal / optional parens and the mode they establish; who-may-reorder, who-may-filter the children and pairing of the two parts of an argument list; abstract evaluation of complete child sequences at the flow sites against the lexer\'s token-fusion relation; printer-side mode simulation for expressions embedded with #',
        text='Partial: decides total type-directed dispatch, that no significant child kind is dropped at any dispatch site, spelling agreement, the order/disambiguation clauses, and that optional delimiters establish the mode their body is converted in (statement boundaries). Quantifies over (dispatch site x grammar kind) pairs instead of inputs, including pairs no fixture contains. Also decides, at the 21 code-mode sites printed by the flow helper, that tokens the lexer would fuse stay separated for every child sequence the grammar allows, and that an expression embedded with # in math is converted in code mode. Does not decide the round trip. Found and repaired the in / not in chain defect, F15 (parentheses of a literal after #) and F21 (set rule dropped trailing content blocks); one known finding (F20, `1.` + field access).',
        design_ref='DESIGN.md §2 C01'),
    'C04': dict(
        technique='abstract evaluation of child sequences at every comment-emitting site (state carried between iterations): <LineComment, Space+nl>, <LineComment, Space+nl, X> where the terminator is a queued item, <LineComment, END> where only part of the children is iterated; the list printer under the forced layout; shape check of the line-break text predicate; optional-delimiter helpers per mode; abstract evaluation of complete child sequences (a Space between every two children) at the flow sites, the returned document walked against the code lexer\'s token-fusion relation; printer-side mode simulation (after # in math the printer is in code mode)',
        text='Partial: decides that a line comment is always followed by a hard line break before the next token (also when later children un-queue items or the line break after the comment is among stripped edge children), that the line-break predicate is the lexer\'s, and that optional delimiters are paired under one group with the body converted in the matching mode. Token fusion is decided at the flow sites (keywords, operators, patterns, expressions of let / if / for / while / set / show / import / closures / named / keyed / spread / unary / binary), not at the list and chain stylists or at markup and math edges; width-dependent effects are not decided. Found and repaired F8, F11, F12, F13; one known finding (F20).',
        design_ref='DESIGN.md §2 C04'),
    'C06': dict(
        technique='kind-directed abstract evaluation per comment kind at every dispatch loop; whole-path evaluation of converters for typed-accessor bypasses; MIR recognition of scan-guard idioms over node collections with per-kind coverage evaluation; string-transformer inventory of the comment converter; soundness of attribute-based comment guards (completeness of the attribute pass); who-may-filter the children',
        text='Partial: decides that every comment child reaches an emitting branch on every path, that converters which never walk their children (or rebuild the nodes of a collection from accessors) are comment-free or guarded by a test that covers all of them, that comment text is only de-indented, and the line-comment discipline of C04. Found and repaired F4, F8, F11, F12, F13.',
        design_ref='DESIGN.md §2 C06'),
    'C07': dict(
        technique='abstract evaluation of the conversion entries with the attribute query left unknown (both edges explored), who-may-call table for bypasses of the checked entries, leaf evaluation of the verbatim emitter, sequence evaluation of the marking pass from the start of a node',
        text='Partial: every conversion entry that can receive a marked expression, code body or equation body consults the mark and emits the node verbatim on that edge; the marking pass takes a comment for the directive exactly by `contains("@typstyle off")`, marks the next node that is not a Space or `#`, only that one, and does not descend into it.',
        design_ref='DESIGN.md §2 C07'),
    'C18': dict(
        technique='abstract evaluation of every Option<document> function (no conversion before None), duplicate-conversion detection on every evaluated path, size-change analysis of the recursive call graph',
        text='Partial: rules out the exponential try-then-fall-back re-conversion pattern (no conversion on a path whose result is not definitely Some, bool::then/then_some included) and non-descending recursion structurally; the renderer\'s cost and constant factors are not decided.',
        design_ref='DESIGN.md §2 C18'),
    'C08': dict(
        technique='abstract evaluation of the two stages of the markup converter per child kind; dominance/provenance of the break-suppressed context; leaf-converter evaluation; shape check of the line-feed counting predicate',
        text='Partial: decides that no soft break or removal can happen between prose pieces, paragraph breaks keep their line-break count (counted the way the lexer cut the tokens, CR LF once), prose leaves are emitted byte for byte, mixed lines are converted break-suppressed. Found and repaired F13.',
        design_ref='DESIGN.md §2 C08'),
    'C09': dict(
        technique='abstract evaluation of the Math / MathDelimited converters per child kind incl. peeled edge spaces; context provenance; leaf evaluation of the Space converter',
        text='Partial: decides that a math Space maps to exactly space / hard line by its own text, is never dropped or created in the non-exempt constructs, and that breaks are suppressed below Math. Found and repaired F9.',
        design_ref='DESIGN.md §2 C09'),
    'C10': dict(
        technique='leaf-converter abstract evaluation, per-kind evaluation of the raw converter, must-pass-through edges for the verbatim guard, taint of the rendered text, truth table of paren removal directly after #',
        text='Partial: literal leaves reach the document byte for byte, raw text is rebuilt child by child, multi-line inline raw is copied verbatim, and transformers downstream of rendering are inventoried (one known finding: trailing-blank stripping, which C11 demands).',
        design_ref='DESIGN.md §2 C10'),
    'C05': dict(
        technique='guarded-by on MIR normalised by helper expansion and combinator desugaring (dominating erroneous() edge incl. guards carried by constructed values; refusal sites by edge-cut reachability), partial-operation inventory with discharge rules over MIR Assert terminators and panicking callees incl. character-boundary provenance of str slice bounds, loop-shape and size-change (descending recursion) analysis',
        text='Every panic site in typstyle\'s own code reachable from a whole-document entry is an obligation discharged by a dominating kind/bound guard, a size provenance, a byte-offset provenance (str slices), a benign class or a one-line axiom about parser output; refusal and fallback are decided by dominance; loops and recursive cycles are shown to make progress on the finite tree. Found and repaired F1/F2.',
        design_ref='DESIGN.md §2 C05'),
    'C13': dict(
        technique='provenance of the caller range across calls (clamp-before-slice), dominance of the not-erroneous edge, provenance of the returned (range, text) pair, range-only partial-operation inventory; sibling cross-check of cover search and printer: abstract evaluation of both per (kind, mode, preceded-by-#) and a simulation over (kind, converter, printer mode, cover mode) from the root',
        text='No-panic for arbitrary ranges, refusal and range/text consistency are decided structurally on every path, and the selected node is shown to be converted in the syntactic mode the whole-document formatter would use for it (or one that only adds redundant grouping parentheses). The body of a list / enum / term item is nested as the printer nests it. The re-parse equivalence of the splice in general is behavioural and not decided. Found and repaired F3, F10, F16 (hanging indent of list-item bodies).',
        design_ref='DESIGN.md §2 C13'),
    'C19': dict(
        technique='guarded-by conjunction on the single order-changing call, coverage of the comment-free condition over every slice of the import\'s children, who-may-touch the item list, soundness obligations of the duplicate test, flag read-site count, clap default extraction',
        text='Off => source order (no other reordering operation on nodes exists); on => a permutation gated on flag, no comment anywhere among the children of the import, no duplicate bound names; nothing else reads the flag. Found and repaired F14.',
        design_ref='DESIGN.md §2 C19'),
    'C11': dict(
        technique='provenance of every Ok payload + shape check of the post-processing loop over MIR (must-pass-through, single-exit loop); guarded-by rule for the CLI\'s changed / unchanged test',
        text='Complete structural argument under the contracts of str::lines/str::trim_end: every accepted input is returned through a post-processor that '
             'appends trim_end(line)+LF per line and returns "\\n" for empty input; tests can only sample inputs.',
        design_ref='DESIGN.md §2 C11'),
    'C12': dict(
        technique='provenance of every nest amount, who-may-call for column combinators, forward taint of Config.tab_spaces, writer inventory, sequence evaluation of the pass that marks format-disabled (verbatim) nodes and of the flow helper with line comments (no blank after a hard break)',
        text='Complete under the renderer contract: every indentation step is the configured unit and the unit never reaches a comparison, switch or arithmetic, '
             'so the number of steps cannot depend on it. Quantifies over all code paths instead of sampled inputs/units.',
        design_ref='DESIGN.md §2 C12'),
    'C14': dict(
        technique='who-may-write call-path guards (dominating switch edges on check/inplace), truth tables by CFG path enumeration, error-discipline rule',
        text='The read-only guarantee and the exit-status algebra are finite: every path to a write or a text print is dominated by check==false, the status mapping is enumerated exhaustively as truth tables from the MIR, a differing input constructs Changed on every path, and the error-count test cannot be skipped on a path to Ok. File trees and invocation histories need not be sampled.',
        design_ref='DESIGN.md §2 C14'),
    'C15': dict(
        technique='provenance of written content/path, guarded-by rules for change/eligibility, single-exit batch loops, error-counter discipline',
        text='Structural argument: what is written is the library result for the option mapping, to the path that was read, by the one file-mutating callee, only on the changed edge, only for eligible entries (regular file by the walker\'s own file type, .typ, not hidden, root exempt); every I/O Result in a batch loop reaches a counter whose zero test every Ok return lies behind. Found and repaired F5/F6 (see known_findings.json).',
        design_ref='DESIGN.md §2 C15'),
    'C16': dict(
        technique='straight-line field evaluation of the option mapping, who-may-call funnel, format_args! template constant inspection, who-may-write-stdout with confinement of info-level logging, pre-expansion AST of the wasm export, guarded-by rule for the changed / unchanged test, single-exit batch loops',
        text='Option plumbing, funnelling into one render entry, the byte-exact print idiom and the absence of any other stdout writer in stdout-output mode are decided on every path; clap parsing is trusted.',
        design_ref='DESIGN.md §2 C16'),
    'C17': dict(
        technique='effect analysis over the resolved MIR call graph (who-may-call incl. the global-state functions of the dependencies, no shared state, no hash-order iteration); who-may-write-stdout and print idiom of the CLI; single-exit batch loops (inputs of one run do not affect each other)',
        text='Structural proof obligations over the MIR of /repo: the effect closure of typstyle-core\'s public API is free of ambient authority, '
             'shared mutable state and hash-order iteration; per-call state; Send+Sync. For schedules/histories this is the complete argument '
             'available short of verifying the dependencies; a runtime test can only sample interleavings.',
        design_ref='DESIGN.md §2 C17'),
}

NA = {
    'C02': 'about the Typst compiler\'s rendering (pages, pixels, diagnostics) of the formatted text: no clause of its own is visible in the shape of typstyle\'s source; token-conservation clauses are claimed under C01/C09/C10 instead',
    'C03': 'idempotence is a fixed point of parse∘print∘render over all inputs and widths; its mechanisms relate a decision to the rendered text, which no call/guard/dataflow fact implies; any structural proxy would fire on behaviour-preserving edits',
}

PENDING = 'rules for this property are designed (DESIGN.md §2) but not built yet in this round; not claimed until the check exists'


def main():
    props = [json.loads(l) for l in open(os.path.join(HERE, 'properties.jsonl'))]
    checks, na = [], []
    for p in props:
        pid = p['id']
        if pid in CLAIMS:
            c = CLAIMS[pid]
            checks.append({
                'property_id': pid,
                'quick_cmd': './check %s' % pid,
                'thorough_cmd': './check %s --thorough' % pid,
                'evidence_file': 'evidence/%s.json' % pid,
                'replay_cmd_template': './check %s --replay {path}' % pid,
                'engine': 'tylint',
                'technique': c['technique'],
                'level_claimed': {'category': 'other', 'text': c['text'], 'design_ref': c['design_ref']},
                'level_note': c.get('note', TB),
            })
        else:
            na.append({'property_id': pid, 'reason': NA.get(pid, PENDING)})
    m = {
        'version': 1,
        'setup_cmd': './setup.sh',
        'hooks': {
            'guard': 'typstyle_verif',
            'enable': 'not needed: the checks read the unmodified source through a rustc driver (RUSTC_WORKSPACE_WRAPPER); no hook or instrumentation was added to /repo',
            'baseline_off_cmd': 'cd /repo && cargo test --workspace --no-fail-fast --offline',
            'source_commits': [],
            'add_only': True,
        },
        'engines': [
            {'name': 'tylint', 'path': 'tylint/', 'serves_properties': sorted(CLAIMS),
             'kind_free_text': 'rustc_private driver (nightly) injected with RUSTC_WORKSPACE_WRAPPER under cargo check: dumps type-checked MIR with resolved callees, ADT tables, statics, unsafe blocks, auto-trait facts as JSON'},
            {'name': 'rules', 'path': 'lib/', 'serves_properties': sorted(CLAIMS),
             'kind_free_text': 'Python rule engines over the fact base: E1 call graph + effect classes, E2 kind-directed abstract evaluation of child dispatch, E3 dominator/path rules, E4 provenance'},
        ],
        'checks': checks,
        'not_applicable': na,
        'notes': 'Static analysis only: no check executes the formatter, its tests, or a solver. See DESIGN.md.',
    }
    json.dump(m, open(os.path.join(HERE, 'MANIFEST.json'), 'w'), indent=1)
    print('MANIFEST.json: %d checks, %d not_applicable' % (len(checks), len(na)))


if __name__ == '__main__':
    main()
