//! tylint: a rustc_private driver that dumps, for the crate being compiled, a JSON fact base of
//! the type-checked program: every MIR body (optimized_mir at -Zmir-opt-level=0, promoteds,
//! const bodies) with resolved callees, structured types and constants; ADT layouts (fields,
//! variants, discriminants) of every type mentioned; statics; unsafe blocks; auto-trait facts;
//! and a summary of the cfg-gated items in the pre-expansion crate root.
//!
//! Invoked as RUSTC_WORKSPACE_WRAPPER: argv = [tylint, /path/to/rustc, rustc args...].
//! Output: $TYLINT_OUT/<crate_name>.<kind>.json, one write per process, carrying $TYLINT_NONCE.
#![feature(rustc_private)]
#![allow(clippy::all)]

extern crate rustc_abi;
extern crate rustc_ast;
extern crate rustc_ast_pretty;
extern crate rustc_data_structures;
extern crate rustc_driver;
extern crate rustc_hir;
extern crate rustc_index;
extern crate rustc_infer;
extern crate rustc_interface;
extern crate rustc_middle;
extern crate rustc_session;
extern crate rustc_span;
extern crate rustc_trait_selection;
extern crate rustc_type_ir;

mod json;

use std::collections::{BTreeMap, BTreeSet};

use json::J;
use rustc_driver::{Callbacks, Compilation};
use rustc_hir::def::DefKind;
use rustc_hir::def_id::{DefId, LocalDefId, LOCAL_CRATE};
use rustc_interface::interface;
use rustc_middle::mir::{self, *};
use rustc_middle::ty::{self, GenericArgKind, GenericArgsRef, Instance, InstanceKind, Ty, TyCtxt, TypingEnv};
use rustc_span::Span;

struct Tylint {
    ast_items: Vec<J>,
}

impl Callbacks for Tylint {
    fn after_crate_root_parsing(
        &mut self,
        _compiler: &interface::Compiler,
        krate: &mut rustc_ast::Crate,
    ) -> Compilation {
        // Pre-expansion AST of the crate root: cfg-gated items are still present here.
        for item in &krate.items {
            self.ast_items.push(ast_item_summary(item));
        }
        Compilation::Continue
    }

    fn after_analysis<'tcx>(&mut self, _c: &interface::Compiler, tcx: TyCtxt<'tcx>) -> Compilation {
        let out_dir = match std::env::var("TYLINT_OUT") {
            Ok(d) => d,
            Err(_) => return Compilation::Continue,
        };
        let crate_name = tcx.crate_name(LOCAL_CRATE).to_string();
        if crate_name.starts_with("build_script") {
            return Compilation::Continue;
        }
        let mut cx = Cx { tcx, adts: BTreeSet::new(), adt_order: Vec::new() };
        let mut bodies = Vec::new();
        let mut keys: Vec<LocalDefId> = tcx.mir_keys(()).iter().copied().collect();
        keys.sort_by_key(|d| tcx.def_path(d.to_def_id()).to_string_no_crate_verbose());
        for def in keys {
            let did = def.to_def_id();
            let kind = tcx.def_kind(did);
            let body: &Body<'tcx> = match kind {
                DefKind::Fn | DefKind::AssocFn | DefKind::Closure => tcx.optimized_mir(did),
                DefKind::Const { .. }
                | DefKind::AssocConst { .. }
                | DefKind::Static { .. }
                | DefKind::AnonConst
                | DefKind::InlineConst => tcx.mir_for_ctfe(did),
                _ => continue,
            };
            bodies.push(cx.body_json(did, None, body));
            let promoted = tcx.promoted_mir(did);
            for (idx, pbody) in promoted.iter_enumerated() {
                bodies.push(cx.body_json(did, Some(idx.as_usize()), pbody));
            }
        }
        let items = cx.items_json();
        // ADT tables (after all bodies so the set is complete; closure under field types).
        let mut adts = Vec::new();
        let mut i = 0;
        while i < cx.adt_order.len() {
            let d = cx.adt_order[i];
            i += 1;
            adts.push(cx.adt_json(d));
        }
        let root = J::Obj(vec![
            ("nonce", J::s(std::env::var("TYLINT_NONCE").unwrap_or_default())),
            ("crate", J::s(crate_name.clone())),
            ("crate_types", J::Arr(tcx.crate_types().iter().map(|t| J::s(format!("{t:?}"))).collect())),
            ("features", J::Arr(cfg_features(tcx))),
            ("bodies", J::Arr(bodies)),
            ("items", items),
            ("adts", J::Arr(adts)),
            ("ast_root_items", J::Arr(std::mem::take(&mut self.ast_items))),
        ]);
        let mut s = String::new();
        root.write(&mut s);
        let kind = if tcx.crate_types().iter().any(|t| format!("{t:?}") == "Executable") { "bin" } else { "lib" };
        let path = format!("{out_dir}/{crate_name}.{kind}.json");
        std::fs::write(&path, s).expect("tylint: cannot write fact file");
        Compilation::Continue
    }
}

fn cfg_features(tcx: TyCtxt<'_>) -> Vec<J> {
    let mut v = Vec::new();
    for (name, val) in tcx.sess.config.iter() {
        if name.as_str() == "feature" {
            if let Some(val) = val {
                v.push(J::s(val.to_string()));
            }
        }
    }
    v.sort_by_key(|j| if let J::Str(s) = j { s.clone() } else { String::new() });
    v
}

// ---------------------------------------------------------------------------------------------
// Pre-expansion AST summary of the crate root
// ---------------------------------------------------------------------------------------------

fn ast_item_summary(item: &rustc_ast::Item) -> J {
    use rustc_ast::{ExprKind, ItemKind, StmtKind};
    let attrs: Vec<J> = item
        .attrs
        .iter()
        .map(|a| J::s(rustc_ast_pretty::pprust::attribute_to_string(a)))
        .collect();
    let mut fields = vec![("attrs", J::Arr(attrs))];
    match &item.kind {
        ItemKind::Fn(f) => {
            fields.push(("kind", J::s("fn")));
            fields.push(("name", J::s(f.ident.name.to_string())));
            let params: Vec<J> = f
                .sig
                .decl
                .inputs
                .iter()
                .map(|p| {
                    J::Obj(vec![
                        ("pat", J::s(rustc_ast_pretty::pprust::pat_to_string(&p.pat))),
                        ("ty", J::s(rustc_ast_pretty::pprust::ty_to_string(&p.ty))),
                    ])
                })
                .collect();
            fields.push(("params", J::Arr(params)));
            fields.push((
                "ret",
                match &f.sig.decl.output {
                    rustc_ast::FnRetTy::Default(_) => J::s("()"),
                    rustc_ast::FnRetTy::Ty(t) => J::s(rustc_ast_pretty::pprust::ty_to_string(t)),
                },
            ));
            // Body shape: a single tail expression that is a call of a path with path arguments.
            let mut shape = J::Null;
            if let Some(body) = &f.body {
                if body.stmts.len() == 1 {
                    if let StmtKind::Expr(e) = &body.stmts[0].kind {
                        if let ExprKind::Call(callee, args) = &e.kind {
                            let callee_s = rustc_ast_pretty::pprust::expr_to_string(callee);
                            let mut arg_paths = Vec::new();
                            let mut all_paths = true;
                            for a in args.iter() {
                                if let ExprKind::Path(None, p) = &a.kind {
                                    arg_paths.push(J::s(rustc_ast_pretty::pprust::path_to_string(p)));
                                } else {
                                    all_paths = false;
                                }
                            }
                            if all_paths && matches!(callee.kind, ExprKind::Path(None, _)) {
                                shape = J::Obj(vec![("callee", J::s(callee_s)), ("args", J::Arr(arg_paths))]);
                            }
                        }
                    }
                }
                fields.push(("body_src", J::s(rustc_ast_pretty::pprust::item_to_string(item))));
            }
            fields.push(("single_call", shape));
        }
        ItemKind::Use(_) => {
            fields.push(("kind", J::s("use")));
            fields.push(("src", J::s(rustc_ast_pretty::pprust::item_to_string(item))));
        }
        ItemKind::Mod(_, ident, _) => {
            fields.push(("kind", J::s("mod")));
            fields.push(("name", J::s(ident.name.to_string())));
        }
        other => {
            fields.push(("kind", J::s(other.descr())));
            if let Some(id) = other.ident() {
                fields.push(("name", J::s(id.name.to_string())));
            }
        }
    }
    J::Obj(fields)
}

// ---------------------------------------------------------------------------------------------
// MIR serialisation
// ---------------------------------------------------------------------------------------------

struct Cx<'tcx> {
    tcx: TyCtxt<'tcx>,
    adts: BTreeSet<(u32, u32)>,
    adt_order: Vec<DefId>,
}

impl<'tcx> Cx<'tcx> {
    fn def_id_key(&self, d: DefId) -> String {
        format!("{}{}", self.tcx.crate_name(d.krate), self.tcx.def_path(d).to_string_no_crate_verbose())
    }

    fn def_json(&self, d: DefId) -> J {
        J::Obj(vec![
            ("id", J::s(self.def_id_key(d))),
            ("path", J::s(self.tcx.def_path_str(d))),
            ("crate", J::s(self.tcx.crate_name(d.krate).to_string())),
            ("local", J::Bool(d.is_local())),
        ])
    }

    fn span_json(&self, sp: Span) -> J {
        let sm = self.tcx.sess.source_map();
        let outer = sp.source_callsite();
        let loc = sm.lookup_char_pos(outer.lo());
        let file = match &loc.file.name {
            rustc_span::FileName::Real(r) => match r.local_path() {
                Some(p) => p.display().to_string(),
                None => format!("{:?}", r),
            },
            other => format!("{other:?}"),
        };
        let mut v = vec![
            ("file", J::s(file)),
            ("line", J::n(loc.line)),
            ("col", J::n(loc.col.0 + 1)),
        ];
        if sp.from_expansion() {
            let names: Vec<J> = sp
                .macro_backtrace()
                .map(|e| J::s(format!("{}", e.kind.descr())))
                .collect();
            v.push(("exp", J::Arr(names)));
        }
        J::Obj(v)
    }

    fn note_adt(&mut self, d: DefId) {
        if self.adts.insert((d.krate.as_u32(), d.index.as_u32())) {
            self.adt_order.push(d);
        }
    }

    fn args_json(&mut self, args: &[ty::GenericArg<'tcx>], depth: usize) -> J {
        let mut v = Vec::new();
        for a in args.iter().copied() {
            match a.kind() {
                GenericArgKind::Type(t) => v.push(self.ty_json(t, depth + 1)),
                GenericArgKind::Lifetime(_) => v.push(J::Obj(vec![("k", J::s("lt"))])),
                GenericArgKind::Const(c) => v.push(J::Obj(vec![("k", J::s("const")), ("s", J::s(format!("{c}")))])),
            }
        }
        J::Arr(v)
    }

    fn ty_json(&mut self, t: Ty<'tcx>, depth: usize) -> J {
        if depth > 12 {
            return J::Obj(vec![("k", J::s("deep")), ("s", J::s(format!("{t}")))]);
        }
        use rustc_type_ir::TyKind::*;
        let mut o: Vec<(&'static str, J)> = Vec::new();
        match *t.kind() {
            Bool => o.push(("k", J::s("bool"))),
            Char => o.push(("k", J::s("char"))),
            Int(i) => {
                o.push(("k", J::s("int")));
                o.push(("n", J::s(i.name_str())));
            }
            Uint(u) => {
                o.push(("k", J::s("uint")));
                o.push(("n", J::s(u.name_str())));
            }
            Float(f) => {
                o.push(("k", J::s("float")));
                o.push(("n", J::s(f.name_str())));
            }
            Str => o.push(("k", J::s("str"))),
            Never => o.push(("k", J::s("never"))),
            Adt(def, args) => {
                self.note_adt(def.did());
                o.push(("k", J::s("adt")));
                o.push(("id", J::s(self.def_id_key(def.did()))));
                o.push(("path", J::s(self.tcx.def_path_str(def.did()))));
                o.push(("args", self.args_json(args, depth)));
            }
            Ref(_, inner, m) => {
                o.push(("k", J::s("ref")));
                o.push(("mut", J::Bool(m.is_mut())));
                o.push(("t", self.ty_json(inner, depth + 1)));
            }
            RawPtr(inner, m) => {
                o.push(("k", J::s("ptr")));
                o.push(("mut", J::Bool(m.is_mut())));
                o.push(("t", self.ty_json(inner, depth + 1)));
            }
            Slice(inner) => {
                o.push(("k", J::s("slice")));
                o.push(("t", self.ty_json(inner, depth + 1)));
            }
            Array(inner, len) => {
                o.push(("k", J::s("array")));
                o.push(("t", self.ty_json(inner, depth + 1)));
                o.push(("len", J::s(format!("{len}"))));
            }
            Tuple(ts) => {
                o.push(("k", J::s("tuple")));
                let v: Vec<J> = ts.iter().map(|x| self.ty_json(x, depth + 1)).collect();
                o.push(("ts", J::Arr(v)));
            }
            Param(p) => {
                o.push(("k", J::s("param")));
                o.push(("idx", J::n(p.index)));
                o.push(("name", J::s(p.name.to_string())));
            }
            FnDef(d, args) => {
                o.push(("k", J::s("fndef")));
                o.push(("def", self.def_json(d)));
                o.push(("args", self.args_json(args, depth)));
            }
            Closure(d, args) => {
                o.push(("k", J::s("closure")));
                o.push(("def", self.def_json(d)));
                let ca = args.as_closure();
                o.push(("parent_args", self.args_json(ca.parent_args(), depth)));
                let ups: Vec<J> = ca.upvar_tys().iter().map(|x| self.ty_json(x, depth + 1)).collect();
                o.push(("upvars", J::Arr(ups)));
                o.push(("ckind", J::s(format!("{:?}", ca.kind()))));
            }
            FnPtr(..) => {
                o.push(("k", J::s("fnptr")));
            }
            Dynamic(..) => {
                o.push(("k", J::s("dyn")));
            }
            Alias(..) => {
                o.push(("k", J::s("alias")));
            }
            Foreign(d) => {
                o.push(("k", J::s("foreign")));
                o.push(("def", self.def_json(d)));
            }
            _ => {
                o.push(("k", J::s("other")));
            }
        }
        o.push(("s", J::s(format!("{t}"))));
        J::Obj(o)
    }

    fn place_json(&mut self, p: &Place<'tcx>) -> J {
        let mut proj = Vec::new();
        for e in p.projection.iter() {
            proj.push(match e {
                ProjectionElem::Deref => J::Obj(vec![("p", J::s("deref"))]),
                ProjectionElem::Field(f, ty) => J::Obj(vec![
                    ("p", J::s("field")),
                    ("i", J::n(f.as_usize())),
                    ("ty", J::s(format!("{ty}"))),
                ]),
                ProjectionElem::Index(l) => J::Obj(vec![("p", J::s("index")), ("l", J::n(l.as_usize()))]),
                ProjectionElem::ConstantIndex { offset, min_length, from_end } => J::Obj(vec![
                    ("p", J::s("cindex")),
                    ("offset", J::n(offset)),
                    ("min", J::n(min_length)),
                    ("from_end", J::Bool(from_end)),
                ]),
                ProjectionElem::Subslice { from, to, from_end } => J::Obj(vec![
                    ("p", J::s("subslice")),
                    ("from", J::n(from)),
                    ("to", J::n(to)),
                    ("from_end", J::Bool(from_end)),
                ]),
                ProjectionElem::Downcast(name, idx) => J::Obj(vec![
                    ("p", J::s("downcast")),
                    ("v", J::n(idx.as_usize())),
                    ("name", J::opt(name.map(|n| J::s(n.to_string())))),
                ]),
                ProjectionElem::OpaqueCast(_) => J::Obj(vec![("p", J::s("opaque"))]),
                ProjectionElem::UnwrapUnsafeBinder(_) => J::Obj(vec![("p", J::s("unwrapbinder"))]),
            });
        }
        J::Obj(vec![("l", J::n(p.local.as_usize())), ("proj", J::Arr(proj))])
    }

    fn const_json(&mut self, owner: DefId, c: &ConstOperand<'tcx>) -> J {
        let tcx = self.tcx;
        let ty = c.const_.ty();
        let mut o: Vec<(&'static str, J)> = vec![("o", J::s("const")), ("ty", self.ty_json(ty, 0))];
        o.push(("s", J::s(format!("{}", c.const_))));
        let tenv = TypingEnv::post_analysis(tcx, owner);
        // fn items / closures as values
        match *ty.kind() {
            ty::FnDef(d, args) => {
                o.push(("fn", self.callee_json(owner, d, args)));
                return J::Obj(o);
            }
            _ => {}
        }
        match c.const_ {
            mir::Const::Unevaluated(u, _) => {
                o.push(("uneval", self.def_json(u.def)));
                if let Some(p) = u.promoted {
                    o.push(("promoted", J::n(p.as_usize())));
                }
            }
            _ => {}
        }
        // scalar value
        let is_scalar_ty = ty.is_integral() || ty.is_bool() || ty.is_char();
        if is_scalar_ty {
            if let Some(si) = c.const_.try_eval_scalar_int(tcx, tenv) {
                let size = si.size();
                if ty.is_signed() {
                    o.push(("int", J::n(si.to_int(size))));
                } else {
                    o.push(("int", J::Num(si.to_uint(size) as i128)));
                }
            }
        } else if let mir::Const::Val(cv, _) = c.const_ {
            // &str / &[u8] literals
            if let ty::Ref(_, inner, _) = *ty.kind() {
                if inner.is_str() {
                    if let Some(bytes) = cv.try_get_slice_bytes_for_diagnostics(tcx) {
                        o.push(("str", J::s(String::from_utf8_lossy(bytes).to_string())));
                    }
                } else if let ty::Slice(e) = *inner.kind() {
                    if e == tcx.types.u8 {
                        if let Some(bytes) = cv.try_get_slice_bytes_for_diagnostics(tcx) {
                            o.push(("bytes", J::s(String::from_utf8_lossy(bytes).to_string())));
                        }
                    }
                }
            }
            // &[u8; N] literals (format_args! templates are lowered to these)
            if let ty::Ref(_, inner, _) = *ty.kind() {
                if let ty::Array(e, len) = *inner.kind() {
                    if e == tcx.types.u8 {
                        if let (ConstValue::Scalar(rustc_middle::mir::interpret::Scalar::Ptr(ptr, _)), Some(n)) = (cv, len.try_to_target_usize(tcx)) {
                            let (prov, off) = ptr.prov_and_relative_offset();
                            if let rustc_middle::mir::interpret::GlobalAlloc::Memory(mem) = tcx.global_alloc(prov.alloc_id()) {
                                let start = off.bytes() as usize;
                                let end = start + n as usize;
                                if end <= mem.inner().len() {
                                    let bytes = mem.inner().inspect_with_uninit_and_ptr_outside_interpreter(start..end);
                                    o.push(("byte_array", J::Arr(bytes.iter().map(|b| J::n(*b)).collect())));
                                }
                            }
                        }
                    }
                }
            }
            if let ConstValue::ZeroSized = cv {
                o.push(("zst", J::Bool(true)));
            }
        }
        J::Obj(o)
    }

    fn operand_json(&mut self, owner: DefId, op: &Operand<'tcx>) -> J {
        match op {
            Operand::Copy(p) => J::Obj(vec![("o", J::s("copy")), ("p", self.place_json(p))]),
            Operand::Move(p) => J::Obj(vec![("o", J::s("move")), ("p", self.place_json(p))]),
            Operand::Constant(c) => self.const_json(owner, c),
            Operand::RuntimeChecks(_) => J::Obj(vec![("o", J::s("runtime_checks"))]),
        }
    }

    /// A (possibly polymorphic) callee: its declared def, generic args, trait info and - where the
    /// caller's environment allows - the resolved instance.
    fn callee_json(&mut self, owner: DefId, d: DefId, args: GenericArgsRef<'tcx>) -> J {
        let tcx = self.tcx;
        let mut o: Vec<(&'static str, J)> = vec![("def", self.def_json(d)), ("args", self.args_json(args, 0))];
        o.push(("s", J::s(tcx.def_path_str_with_args(d, args))));
        if let Some(tr) = tcx.trait_of_assoc(d) {
            o.push(("trait", self.def_json(tr)));
            if let Some(self_ty) = args.types().next() {
                o.push(("self_ty", self.ty_json(self_ty, 0)));
            }
        }
        if let Some(imp) = tcx.impl_of_assoc(d) {
            let self_ty = tcx.type_of(imp).instantiate_identity().skip_norm_wip();
            o.push(("impl_self", J::s(format!("{self_ty}"))));
            if let ty::Adt(def, _) = *self_ty.kind() {
                o.push(("impl_self_id", J::s(self.def_id_key(def.did()))));
            }
        }
        // resolution under the caller's own environment
        let tenv = TypingEnv::post_analysis(tcx, owner);
        let resolved = (|| {
            let nargs = tcx
                .try_normalize_erasing_regions(tenv, ty::Unnormalized::new_wip(args))
                .ok()?;
            Instance::try_resolve(tcx, tenv, d, nargs).ok().flatten()
        })();
        match resolved {
            Some(inst) => {
                let kind = match inst.def {
                    InstanceKind::Item(_) => "item",
                    InstanceKind::Intrinsic(_) => "intrinsic",
                    InstanceKind::Virtual(..) => "virtual",
                    InstanceKind::ClosureOnceShim { .. } => "closure_once_shim",
                    InstanceKind::FnPtrShim(..) => "fnptr_shim",
                    InstanceKind::DropGlue(..) => "drop_glue",
                    InstanceKind::CloneShim(..) => "clone_shim",
                    InstanceKind::ReifyShim(..) => "reify_shim",
                    InstanceKind::VTableShim(..) => "vtable_shim",
                    _ => "other",
                };
                let mut r = vec![("kind", J::s(kind)), ("def", self.def_json(inst.def_id())), ("args", self.args_json(inst.args, 0))];
                // For calls through the Fn* traits the interesting target is the closure body / fn item.
                let is_fn_trait = tcx.trait_of_assoc(d).is_some_and(|tr| tcx.is_fn_trait(tr));
                if is_fn_trait {
                    if let Some(self_ty) = args.types().next() {
                        let mut st = self_ty;
                        while let ty::Ref(_, inner, _) = *st.kind() {
                            st = inner;
                        }
                        if let ty::Closure(cd, _) = *st.kind() {
                            r.push(("closure", self.def_json(cd)));
                        }
                        if let ty::FnDef(fd, _) = *st.kind() {
                            r.push(("fn_item", self.def_json(fd)));
                        }
                    }
                }
                o.push(("resolved", J::Obj(r)));
            }
            None => o.push(("resolved", J::Null)),
        }
        J::Obj(o)
    }

    fn rvalue_json(&mut self, owner: DefId, rv: &Rvalue<'tcx>) -> J {
        match rv {
            Rvalue::Use(op, _) => J::Obj(vec![("r", J::s("use")), ("op", self.operand_json(owner, op))]),
            Rvalue::Repeat(op, n) => J::Obj(vec![
                ("r", J::s("repeat")),
                ("op", self.operand_json(owner, op)),
                ("n", J::s(format!("{n}"))),
            ]),
            Rvalue::Ref(_, bk, p) => J::Obj(vec![
                ("r", J::s("ref")),
                ("mut", J::Bool(matches!(bk, BorrowKind::Mut { .. }))),
                ("p", self.place_json(p)),
            ]),
            Rvalue::ThreadLocalRef(d) => J::Obj(vec![("r", J::s("tls")), ("def", self.def_json(*d))]),
            Rvalue::RawPtr(_, p) => J::Obj(vec![("r", J::s("rawptr")), ("p", self.place_json(p))]),
            Rvalue::Cast(kind, op, ty) => J::Obj(vec![
                ("r", J::s("cast")),
                ("kind", J::s(format!("{kind:?}"))),
                ("op", self.operand_json(owner, op)),
                ("ty", self.ty_json(*ty, 0)),
            ]),
            Rvalue::BinaryOp(op, ab) => J::Obj(vec![
                ("r", J::s("binop")),
                ("op", J::s(format!("{op:?}"))),
                ("a", self.operand_json(owner, &ab.0)),
                ("b", self.operand_json(owner, &ab.1)),
            ]),
            Rvalue::UnaryOp(op, a) => J::Obj(vec![
                ("r", J::s("unop")),
                ("op", J::s(format!("{op:?}"))),
                ("a", self.operand_json(owner, a)),
            ]),
            Rvalue::Discriminant(p) => J::Obj(vec![("r", J::s("discr")), ("p", self.place_json(p))]),
            Rvalue::Aggregate(kind, ops) => {
                let mut o: Vec<(&'static str, J)> = vec![("r", J::s("agg"))];
                match &**kind {
                    AggregateKind::Array(t) => {
                        o.push(("ak", J::s("array")));
                        o.push(("ty", self.ty_json(*t, 0)));
                    }
                    AggregateKind::Tuple => o.push(("ak", J::s("tuple"))),
                    AggregateKind::Adt(d, v, args, _, active) => {
                        self.note_adt(*d);
                        o.push(("ak", J::s("adt")));
                        o.push(("adt", J::s(self.def_id_key(*d))));
                        o.push(("path", J::s(self.tcx.def_path_str(*d))));
                        o.push(("variant", J::n(v.as_usize())));
                        let adt = self.tcx.adt_def(*d);
                        o.push(("vname", J::s(adt.variant(*v).name.to_string())));
                        o.push(("args", self.args_json(args, 0)));
                        if let Some(a) = active {
                            o.push(("union_field", J::n(a.as_usize())));
                        }
                    }
                    AggregateKind::Closure(d, args) => {
                        o.push(("ak", J::s("closure")));
                        o.push(("def", self.def_json(*d)));
                        let ca = args.as_closure();
                        o.push(("parent_args", self.args_json(ca.parent_args(), 0)));
                    }
                    AggregateKind::Coroutine(d, _) | AggregateKind::CoroutineClosure(d, _) => {
                        o.push(("ak", J::s("coroutine")));
                        o.push(("def", self.def_json(*d)));
                    }
                    AggregateKind::RawPtr(..) => o.push(("ak", J::s("rawptr"))),
                }
                let v: Vec<J> = ops.iter().map(|x| self.operand_json(owner, x)).collect();
                o.push(("ops", J::Arr(v)));
                J::Obj(o)
            }
            Rvalue::CopyForDeref(p) => J::Obj(vec![("r", J::s("use")), ("op", J::Obj(vec![("o", J::s("copy")), ("p", self.place_json(p))]))]),
            Rvalue::WrapUnsafeBinder(op, _) => J::Obj(vec![("r", J::s("wrapbinder")), ("op", self.operand_json(owner, op))]),
        }
    }

    fn body_json(&mut self, did: DefId, promoted: Option<usize>, body: &Body<'tcx>) -> J {
        let tcx = self.tcx;
        let kind = tcx.def_kind(did);
        let mut o: Vec<(&'static str, J)> = Vec::new();
        let key = match promoted {
            Some(i) => format!("{}::promoted[{}]", self.def_id_key(did), i),
            None => self.def_id_key(did),
        };
        o.push(("id", J::s(key)));
        o.push(("owner", J::s(self.def_id_key(did))));
        o.push(("promoted", J::opt(promoted.map(J::n))));
        o.push(("path", J::s(tcx.def_path_str(did))));
        o.push(("def_kind", J::s(format!("{kind:?}"))));
        o.push(("span", self.span_json(body.span)));
        o.push(("arg_count", J::n(body.arg_count)));
        if matches!(kind, DefKind::Fn | DefKind::AssocFn) && promoted.is_none() {
            o.push(("vis", J::s(format!("{:?}", tcx.visibility(did)))));
            o.push(("is_pub", J::Bool(tcx.visibility(did).is_public())));
            if let Some(ldid) = did.as_local() {
                o.push(("effective_pub", J::Bool(tcx.effective_visibilities(()).is_reachable(ldid))));
            }
            let generics = tcx.generics_of(did);
            let mut gps = Vec::new();
            let mut g = Some(generics);
            let mut all = Vec::new();
            while let Some(gg) = g {
                for p in &gg.own_params {
                    all.push((p.index, p.name.to_string(), format!("{:?}", p.kind)));
                }
                g = gg.parent.map(|p| tcx.generics_of(p));
            }
            all.sort();
            for (i, n, k) in all {
                gps.push(J::Obj(vec![("idx", J::n(i)), ("name", J::s(n)), ("kind", J::s(k))]));
            }
            o.push(("generics", J::Arr(gps)));
            if let Some(imp) = tcx.impl_of_assoc(did) {
                let self_ty = tcx.type_of(imp).instantiate_identity().skip_norm_wip();
                o.push(("impl_self", self.ty_json(self_ty, 0)));
                if let Some(tr) = tcx.impl_opt_trait_ref(imp) {
                    let tr = tr.instantiate_identity().skip_norm_wip();
                    o.push(("impl_trait", self.def_json(tr.def_id)));
                }
            }
        }
        if kind == DefKind::Closure {
            o.push(("parent", J::s(self.def_id_key(tcx.typeck_root_def_id(did)))));
            o.push(("direct_parent", J::s(self.def_id_key(tcx.parent(did)))));
        }
        // locals
        let mut locals = Vec::new();
        for (l, decl) in body.local_decls.iter_enumerated() {
            locals.push(J::Obj(vec![
                ("l", J::n(l.as_usize())),
                ("ty", self.ty_json(decl.ty, 0)),
                ("mut", J::Bool(decl.mutability.is_mut())),
            ]));
        }
        o.push(("locals", J::Arr(locals)));
        // debug names
        let mut dbg = Vec::new();
        for v in &body.var_debug_info {
            if let VarDebugInfoContents::Place(p) = &v.value {
                dbg.push(J::Obj(vec![("name", J::s(v.name.to_string())), ("p", self.place_json(p))]));
            }
        }
        o.push(("debug", J::Arr(dbg)));
        // blocks
        let mut blocks = Vec::new();
        for (bb, data) in body.basic_blocks.iter_enumerated() {
            let mut stmts = Vec::new();
            for st in &data.statements {
                let sj = match &st.kind {
                    StatementKind::Assign(b) => {
                        let (p, rv) = &**b;
                        Some(vec![("s", J::s("assign")), ("p", self.place_json(p)), ("rv", self.rvalue_json(did, rv))])
                    }
                    StatementKind::SetDiscriminant { place, variant_index } => Some(vec![
                        ("s", J::s("setdiscr")),
                        ("p", self.place_json(place)),
                        ("variant", J::n(variant_index.as_usize())),
                    ]),
                    StatementKind::Intrinsic(i) => Some(vec![("s", J::s("intrinsic")), ("d", J::s(format!("{i:?}")))]),
                    _ => None,
                };
                if let Some(mut sj) = sj {
                    sj.push(("span", self.span_json(st.source_info.span)));
                    stmts.push(J::Obj(sj));
                }
            }
            let term = data.terminator();
            let mut t: Vec<(&'static str, J)> = Vec::new();
            match &term.kind {
                TerminatorKind::Goto { target } => {
                    t.push(("t", J::s("goto")));
                    t.push(("target", J::n(target.as_usize())));
                }
                TerminatorKind::SwitchInt { discr, targets } => {
                    t.push(("t", J::s("switch")));
                    t.push(("discr", self.operand_json(did, discr)));
                    let dty = discr.ty(&body.local_decls, tcx);
                    t.push(("discr_ty", J::s(format!("{dty}"))));
                    let mut v = Vec::new();
                    for (val, bbt) in targets.iter() {
                        v.push(J::Arr(vec![J::Num(val as i128), J::n(bbt.as_usize())]));
                    }
                    t.push(("targets", J::Arr(v)));
                    t.push(("otherwise", J::n(targets.otherwise().as_usize())));
                }
                TerminatorKind::UnwindResume => t.push(("t", J::s("resume"))),
                TerminatorKind::UnwindTerminate(_) => t.push(("t", J::s("terminate"))),
                TerminatorKind::Return => t.push(("t", J::s("return"))),
                TerminatorKind::Unreachable => t.push(("t", J::s("unreachable"))),
                TerminatorKind::Drop { place, target, unwind, .. } => {
                    t.push(("t", J::s("drop")));
                    t.push(("p", self.place_json(place)));
                    t.push(("target", J::n(target.as_usize())));
                    if let UnwindAction::Cleanup(u) = unwind {
                        t.push(("unwind", J::n(u.as_usize())));
                    }
                }
                TerminatorKind::Call { func, args, destination, target, unwind, call_source, fn_span } => {
                    t.push(("t", J::s("call")));
                    let fty = func.ty(&body.local_decls, tcx);
                    match *fty.kind() {
                        ty::FnDef(d, gargs) => t.push(("callee", self.callee_json(did, d, gargs))),
                        _ => {
                            t.push(("callee", J::Null));
                            t.push(("func", self.operand_json(did, func)));
                            t.push(("func_ty", self.ty_json(fty, 0)));
                        }
                    }
                    let av: Vec<J> = args.iter().map(|a| self.operand_json(did, &a.node)).collect();
                    t.push(("args", J::Arr(av)));
                    t.push(("dest", self.place_json(destination)));
                    t.push(("target", J::opt(target.map(|b| J::n(b.as_usize())))));
                    if let UnwindAction::Cleanup(u) = unwind {
                        t.push(("unwind", J::n(u.as_usize())));
                    }
                    t.push(("source", J::s(format!("{call_source:?}"))));
                    t.push(("fn_span", self.span_json(*fn_span)));
                }
                TerminatorKind::TailCall { .. } => t.push(("t", J::s("tailcall"))),
                TerminatorKind::Assert { cond, expected, msg, target, unwind } => {
                    t.push(("t", J::s("assert")));
                    t.push(("cond", self.operand_json(did, cond)));
                    t.push(("expected", J::Bool(*expected)));
                    let (mk, mops): (&str, Vec<&Operand<'tcx>>) = match &**msg {
                        AssertKind::BoundsCheck { len, index } => ("bounds", vec![len, index]),
                        AssertKind::Overflow(op, a, b) => {
                            t.push(("binop", J::s(format!("{op:?}"))));
                            ("overflow", vec![a, b])
                        }
                        AssertKind::OverflowNeg(a) => ("overflow_neg", vec![a]),
                        AssertKind::DivisionByZero(a) => ("div_zero", vec![a]),
                        AssertKind::RemainderByZero(a) => ("rem_zero", vec![a]),
                        AssertKind::MisalignedPointerDereference { .. } => ("misaligned", vec![]),
                        AssertKind::NullPointerDereference => ("null_deref", vec![]),
                        AssertKind::InvalidEnumConstruction(_) => ("invalid_enum", vec![]),
                        _ => ("other", vec![]),
                    };
                    t.push(("msg", J::s(mk)));
                    let mv: Vec<J> = mops.into_iter().map(|x| self.operand_json(did, x)).collect();
                    t.push(("msg_ops", J::Arr(mv)));
                    t.push(("target", J::n(target.as_usize())));
                    if let UnwindAction::Cleanup(u) = unwind {
                        t.push(("unwind", J::n(u.as_usize())));
                    }
                }
                TerminatorKind::FalseEdge { real_target, .. } => {
                    t.push(("t", J::s("goto")));
                    t.push(("target", J::n(real_target.as_usize())));
                }
                TerminatorKind::FalseUnwind { real_target, .. } => {
                    t.push(("t", J::s("goto")));
                    t.push(("target", J::n(real_target.as_usize())));
                }
                TerminatorKind::Yield { .. } => t.push(("t", J::s("yield"))),
                TerminatorKind::CoroutineDrop => t.push(("t", J::s("coroutine_drop"))),
                TerminatorKind::InlineAsm { .. } => t.push(("t", J::s("asm"))),
            }
            t.push(("span", self.span_json(term.source_info.span)));
            blocks.push(J::Obj(vec![
                ("bb", J::n(bb.as_usize())),
                ("cleanup", J::Bool(data.is_cleanup)),
                ("stmts", J::Arr(stmts)),
                ("term", J::Obj(t)),
            ]));
        }
        o.push(("blocks", J::Arr(blocks)));
        J::Obj(o)
    }

    // -----------------------------------------------------------------------------------------
    // items: statics, unsafe, fns without bodies of interest, auto traits
    // -----------------------------------------------------------------------------------------

    fn items_json(&mut self) -> J {
        let tcx = self.tcx;
        let mut statics = Vec::new();
        let mut adts_local = Vec::new();
        let mut fns = Vec::new();
        let mut impls = Vec::new();
        for id in tcx.hir_free_items() {
            let did = id.owner_id.to_def_id();
            match tcx.def_kind(did) {
                DefKind::Static { mutability, .. } => {
                    let ty = tcx.type_of(did).instantiate_identity().skip_norm_wip();
                    let tenv = TypingEnv::post_analysis(tcx, did);
                    let freeze = ty.is_freeze(tcx, tenv);
                    let attrs = tcx.codegen_fn_attrs(did);
                    let is_tls = attrs.flags.contains(rustc_middle::middle::codegen_fn_attrs::CodegenFnAttrFlags::THREAD_LOCAL);
                    statics.push(J::Obj(vec![
                        ("def", self.def_json(did)),
                        ("ty", self.ty_json(ty, 0)),
                        ("mutable", J::Bool(mutability.is_mut())),
                        ("freeze", J::Bool(freeze)),
                        ("thread_local", J::Bool(is_tls)),
                        ("span", self.span_json(tcx.def_span(did))),
                    ]));
                }
                DefKind::Struct | DefKind::Enum | DefKind::Union => {
                    self.note_adt(did);
                    let ty = tcx.type_of(did).instantiate_identity().skip_norm_wip();
                    let generics = tcx.generics_of(did);
                    let mut send = J::Null;
                    let mut sync = J::Null;
                    if generics.own_params.iter().all(|p| matches!(p.kind, ty::GenericParamDefKind::Lifetime)) {
                        send = J::Bool(self.implements_auto(ty, did, "Send"));
                        sync = J::Bool(self.implements_auto(ty, did, "Sync"));
                    }
                    adts_local.push(J::Obj(vec![
                        ("def", self.def_json(did)),
                        ("vis", J::s(format!("{:?}", tcx.visibility(did)))),
                        ("is_pub", J::Bool(tcx.visibility(did).is_public())),
                        ("send", send),
                        ("sync", sync),
                    ]));
                }
                DefKind::Fn => {
                    fns.push(self.fn_sig_json(did));
                }
                DefKind::Impl { .. } => {
                    let self_ty = tcx.type_of(did).instantiate_identity().skip_norm_wip();
                    let mut o = vec![("def", self.def_json(did)), ("self_ty", self.ty_json(self_ty, 0))];
                    if let Some(tr) = tcx.impl_opt_trait_ref(did) {
                        let tr = tr.instantiate_identity().skip_norm_wip();
                        o.push(("trait", self.def_json(tr.def_id)));
                    }
                    let mut ms = Vec::new();
                    for &m in tcx.associated_item_def_ids(did) {
                        if matches!(tcx.def_kind(m), DefKind::AssocFn) {
                            ms.push(self.fn_sig_json(m));
                        }
                    }
                    o.push(("fns", J::Arr(ms)));
                    impls.push(J::Obj(o));
                }
                _ => {}
            }
        }
        // unsafe blocks / unsafe fns / unsafe impls in the local crate (HIR walk)
        let mut unsafe_sites = Vec::new();
        for def in tcx.hir_body_owners() {
            let body = tcx.hir_body_owned_by(def);
            let mut v = UnsafeFinder { tcx, found: Vec::new() };
            rustc_hir::intravisit::Visitor::visit_body(&mut v, body);
            for sp in v.found {
                unsafe_sites.push(J::Obj(vec![
                    ("owner", J::s(self.def_id_key(def.to_def_id()))),
                    ("span", self.span_json(sp)),
                    ("from_expansion", J::Bool(sp.from_expansion())),
                ]));
            }
        }
        J::Obj(vec![
            ("statics", J::Arr(statics)),
            ("adts_local", J::Arr(adts_local)),
            ("fns", J::Arr(fns)),
            ("impls", J::Arr(impls)),
            ("unsafe_blocks", J::Arr(unsafe_sites)),
        ])
    }

    fn fn_sig_json(&mut self, did: DefId) -> J {
        let tcx = self.tcx;
        let sig = tcx.fn_sig(did).instantiate_identity().skip_norm_wip().skip_binder();
        let inputs: Vec<J> = sig.inputs().iter().map(|t| self.ty_json(*t, 0)).collect();
        let mut o = vec![
            ("def", self.def_json(did)),
            ("vis", J::s(format!("{:?}", tcx.visibility(did)))),
            ("is_pub", J::Bool(tcx.visibility(did).is_public())),
            ("inputs", J::Arr(inputs)),
            ("output", self.ty_json(sig.output(), 0)),
            ("unsafe", J::Bool(sig.safety().is_unsafe())),
        ];
        if let Some(ldid) = did.as_local() {
            o.push(("effective_pub", J::Bool(tcx.effective_visibilities(()).is_reachable(ldid))));
        }
        J::Obj(o)
    }

    fn implements_auto(&self, ty: Ty<'tcx>, ctx_def: DefId, which: &str) -> bool {
        use rustc_infer::infer::TyCtxtInferExt;
        use rustc_trait_selection::infer::InferCtxtExt;
        let tcx = self.tcx;
        let tr = match which {
            "Send" => tcx.get_diagnostic_item(rustc_span::sym::Send),
            _ => tcx.lang_items().sync_trait(),
        };
        let Some(tr) = tr else { return false };
        let infcx = tcx.infer_ctxt().build(ty::TypingMode::non_body_analysis());
        let param_env = tcx.param_env(ctx_def);
        infcx.type_implements_trait(tr, [ty], param_env).must_apply_modulo_regions()
    }

    fn adt_json(&mut self, d: DefId) -> J {
        let tcx = self.tcx;
        let adt = tcx.adt_def(d);
        let mut variants = Vec::new();
        let discrs: BTreeMap<usize, u128> = if adt.is_enum() {
            adt.discriminants(tcx).map(|(i, dv)| (i.as_usize(), dv.val)).collect()
        } else {
            BTreeMap::new()
        };
        for (vi, v) in adt.variants().iter_enumerated() {
            let mut fields = Vec::new();
            for f in &v.fields {
                let fty = tcx.type_of(f.did).instantiate_identity().skip_norm_wip();
                fields.push(J::Obj(vec![
                    ("name", J::s(f.name.to_string())),
                    ("ty", self.ty_json(fty, 0)),
                    ("vis", J::s(format!("{:?}", f.vis))),
                ]));
            }
            variants.push(J::Obj(vec![
                ("idx", J::n(vi.as_usize())),
                ("name", J::s(v.name.to_string())),
                ("discr", J::opt(discrs.get(&vi.as_usize()).map(|x| J::Num(*x as i128)))),
                ("fields", J::Arr(fields)),
            ]));
        }
        J::Obj(vec![
            ("id", J::s(self.def_id_key(d))),
            ("path", J::s(tcx.def_path_str(d))),
            ("crate", J::s(tcx.crate_name(d.krate).to_string())),
            ("local", J::Bool(d.is_local())),
            ("kind", J::s(if adt.is_enum() { "enum" } else if adt.is_union() { "union" } else { "struct" })),
            ("variants", J::Arr(variants)),
        ])
    }
}

struct UnsafeFinder<'tcx> {
    #[allow(dead_code)]
    tcx: TyCtxt<'tcx>,
    found: Vec<Span>,
}

impl<'tcx> rustc_hir::intravisit::Visitor<'tcx> for UnsafeFinder<'tcx> {
    fn visit_block(&mut self, b: &'tcx rustc_hir::Block<'tcx>) {
        if let rustc_hir::BlockCheckMode::UnsafeBlock(_) = b.rules {
            self.found.push(b.span);
        }
        rustc_hir::intravisit::walk_block(self, b);
    }
}

fn main() {
    let mut args: Vec<String> = std::env::args().collect();
    // RUSTC_WORKSPACE_WRAPPER protocol: argv[1] is the real rustc; drop it.
    if args.len() > 1 && (args[1].ends_with("rustc") || args[1].contains("/rustc")) {
        args.remove(1);
    }
    let mut cb = Tylint { ast_items: Vec::new() };
    let code = rustc_driver::catch_with_exit_code(|| rustc_driver::run_compiler(&args, &mut cb));
    std::process::exit(if code == std::process::ExitCode::SUCCESS { 0 } else { 1 });
}
