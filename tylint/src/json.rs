//! Minimal JSON value tree + serializer (the driver has zero Cargo dependencies).

pub enum J {
    Null,
    Bool(bool),
    Num(i128),
    Str(String),
    Arr(Vec<J>),
    Obj(Vec<(&'static str, J)>),
}

impl J {
    pub fn s(x: impl Into<String>) -> J {
        J::Str(x.into())
    }
    pub fn n(x: impl TryInto<i128>) -> J {
        match x.try_into() {
            Ok(v) => J::Num(v),
            Err(_) => J::Null,
        }
    }
    pub fn opt(x: Option<J>) -> J {
        x.unwrap_or(J::Null)
    }
    pub fn write(&self, out: &mut String) {
        match self {
            J::Null => out.push_str("null"),
            J::Bool(b) => out.push_str(if *b { "true" } else { "false" }),
            J::Num(n) => out.push_str(&n.to_string()),
            J::Str(s) => write_str(s, out),
            J::Arr(v) => {
                out.push('[');
                for (i, x) in v.iter().enumerate() {
                    if i > 0 {
                        out.push(',');
                    }
                    x.write(out);
                }
                out.push(']');
            }
            J::Obj(v) => {
                out.push('{');
                for (i, (k, x)) in v.iter().enumerate() {
                    if i > 0 {
                        out.push(',');
                    }
                    write_str(k, out);
                    out.push(':');
                    x.write(out);
                }
                out.push('}');
            }
        }
    }
}

fn write_str(s: &str, out: &mut String) {
    out.push('"');
    for c in s.chars() {
        match c {
            '"' => out.push_str("\\\""),
            '\\' => out.push_str("\\\\"),
            '\n' => out.push_str("\\n"),
            '\r' => out.push_str("\\r"),
            '\t' => out.push_str("\\t"),
            c if (c as u32) < 0x20 => out.push_str(&format!("\\u{:04x}", c as u32)),
            c => out.push(c),
        }
    }
    out.push('"');
}
