//! Positive example for the zero-count rules of C17: every construct below must be reported by
//! the corresponding detector on every run (a detector that cannot see them proves nothing).
use std::cell::RefCell;
use std::collections::HashMap;
use std::sync::Mutex;

pub static mut COUNTER: usize = 0;
pub static SHARED: Mutex<usize> = Mutex::new(0);

thread_local! {
    pub static TLS: RefCell<usize> = RefCell::new(0);
}

pub fn ambient() -> usize {
    std::fs::read_to_string("x").map(|s| s.len()).unwrap_or(0)
}

pub fn hash_order(m: &HashMap<String, usize>) -> Vec<String> {
    m.keys().cloned().collect()
}

pub fn unsafe_block(p: *const u8) -> u8 {
    unsafe { *p }
}

pub fn uses_static() -> usize {
    *SHARED.lock().unwrap()
}
