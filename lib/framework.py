"""Rule results, known findings, evidence files, verdict lines."""
import json, os, time, traceback

VERIF = os.path.dirname(os.path.dirname(os.path.abspath(__file__)))
KNOWN_FINDINGS = os.path.join(VERIF, 'known_findings.json')


class AnchorMissing(Exception):
    """An anchor a rule needs (a function found by role, a type, a field) is not in the tree."""


class Finding:
    def __init__(self, rule, key, message, loc=None, detail=None):
        self.rule = rule
        self.key = '%s|%s' % (rule, key)   # stable, no line numbers
        self.message = message
        self.loc = loc
        self.detail = detail or {}

    def to_json(self):
        return {'rule': self.rule, 'key': self.key, 'message': self.message, 'loc': self.loc, 'detail': self.detail}


class RuleResult:
    def __init__(self, rule, title, floor=0):
        self.rule = rule
        self.title = title
        self.floor = floor
        self.instances = []   # dicts: construct, verdict, why
        self.findings = []
        self.notes = []

    def ok(self, construct, why='', **kw):
        d = {'construct': construct, 'verdict': 'ok', 'why': why}
        d.update(kw)
        self.instances.append(d)

    def bad(self, construct, key, message, loc=None, **detail):
        d = {'construct': construct, 'verdict': 'violation', 'why': message}
        self.instances.append(d)
        self.findings.append(Finding(self.rule, key, message, loc, detail))

    def note(self, s):
        self.notes.append(s)

    def finish(self):
        if len(self.instances) < self.floor:
            self.findings.append(Finding(self.rule, 'floor',
                                         'rule matched %d instances, fewer than the %d confirmed by hand on the pinned tree '
                                         '(a rule that matches nothing passes vacuously): fail closed' % (len(self.instances), self.floor)))
        return self


def load_known():
    if not os.path.exists(KNOWN_FINDINGS):
        return []
    return json.load(open(KNOWN_FINDINGS))


def collect(pid, thunks):
    """run the rules; anchors that are missing and checker errors fail closed as findings"""
    results = []
    for name, fn in thunks:
        try:
            r = fn()
            if isinstance(r, RuleResult):
                r = [r]
            for x in r:
                results.append(x.finish())
        except AnchorMissing as e:
            rr = RuleResult('%s.%s' % (pid, name), 'anchor discovery')
            rr.findings.append(Finding(rr.rule, 'anchor-missing', 'anchor missing: %s (fail closed)' % e))
            results.append(rr)
        except Exception as e:  # checker bug or unexpected MIR shape: fail closed, but say so
            rr = RuleResult('%s.%s' % (pid, name), 'internal')
            rr.findings.append(Finding(rr.rule, 'internal-error',
                                       'checker could not analyse this tree: %s: %s\n%s' % (type(e).__name__, e, traceback.format_exc()[-1500:])))
            results.append(rr)
    return results


def run_property(pid, thunks, tier, meta, post=None):
    """thunks: list of (name, callable() -> RuleResult | [RuleResult]). Returns exit code.
    post: optional callable run after the rules whose dict result is stored in the evidence under coverage.self_validation"""
    t0 = time.time()
    results = collect(pid, thunks)

    known = [k for k in load_known() if k.get('property') == pid and k.get('status') == 'known']
    known_keys = {k['key']: k for k in known}
    violations, matched = [], []
    for r in results:
        for f in r.findings:
            if f.key in known_keys:
                matched.append((f, known_keys[f.key]))
            else:
                violations.append(f)

    n_inst = sum(len(r.instances) for r in results)
    n_ok = sum(1 for r in results for i in r.instances if i['verdict'] == 'ok')
    wall = round(time.time() - t0 + meta.get('extract_wall_s', 0), 2)

    # ---- stdout
    print('== %s (%s tier) ==' % (pid, tier))
    for r in results:
        print('  %-8s %-70s instances=%d floor=%d findings=%d' % (r.rule, r.title[:70], len(r.instances), r.floor, len(r.findings)))
        for n in r.notes:
            print('           note: %s' % n)
    for f, k in matched:
        print('KNOWN-FINDING: property=%s %s [%s]' % (pid, k.get('what', f.message), f.key))
    replay_path = None
    if violations:
        rdir = os.environ.get('VERIF_REPLAY_DIR') or os.path.join(VERIF, '.work', 'replay')
        os.makedirs(rdir, exist_ok=True)
        replay_path = os.path.join(rdir, '%s.json' % pid)
        json.dump({'property': pid, 'tier': tier, 'findings': [f.to_json() for f in violations]}, open(replay_path, 'w'), indent=1)
        for f in violations:
            print('  violation %s' % f.key)
            print('     at %s' % (f.loc or '?'))
            for line in f.message.split('\n'):
                print('     %s' % line)
        print('VIOLATION property=%s replay=%s' % (pid, replay_path))

    selfval = None
    if post is not None:
        selfval = post()

    # ---- evidence
    samples = []
    for r in results:
        for i in r.instances[:4]:
            samples.append({'rule': r.rule, 'construct': i['construct'], 'verdict': i['verdict'], 'why': i.get('why', '')})
    rules_summary = [{'rule': r.rule, 'title': r.title, 'instances': len(r.instances), 'floor': r.floor,
                      'findings': [f.key for f in r.findings], 'notes': r.notes} for r in results]
    ev = {
        'property_id': pid,
        'tier': tier,
        'seed': int(os.environ.get('VERIF_SEED', '0') or 0),
        'level': 'other',
        'coverage': {
            'explanation': meta.get('explanation', ''),
            'obligations': n_inst,
            'discharged': n_ok,
            'evaluations': max(n_inst, 1),
            'distinct_nontrivial': len({json.dumps(i['construct'], sort_keys=True) for r in results for i in r.instances}),
            'rule': 'one obligation per rule instance (a call site, branch, operand or table cell found in the MIR of /repo); '
                    'distinct = distinct constructs; a rule whose instance count drops below its hand-counted floor fails closed',
            'samples': samples[:40],
            'rules': rules_summary,
            'decides': meta.get('decides', ''),
            'does_not_decide': meta.get('does_not_decide', ''),
            'build_configs': meta.get('configs', []),
            'bodies_analysed': meta.get('bodies', 0),
            'fact_extraction': meta.get('extract', {}),
            'checker_cmd': meta.get('cmd', ''),
            'trusted_base': meta.get('trusted_base', []),
            'exhaustive': True,
            'known_findings_matched': [f.key for f, _ in matched],
            'self_validation': selfval,
        },
        'assumptions': meta.get('trusted_base', []),
        'wall_s': wall,
        'violations': len(violations),
    }
    evdir = os.environ.get('VERIF_EVIDENCE_DIR') or os.path.join(VERIF, 'evidence')
    os.makedirs(evdir, exist_ok=True)
    with open(os.path.join(evdir, '%s.json' % pid), 'w') as fh:
        json.dump(ev, fh, indent=1, sort_keys=True)
    print('   obligations=%d discharged=%d violations=%d known=%d wall=%.1fs' % (n_inst, n_ok, len(violations), len(matched), wall))
    return 1 if violations else 0
