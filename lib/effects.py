"""E1 - effect classes of extern callees (frozen tables; unknown => fail closed in the scope of
the rule that asks)."""
import re

# std/core/alloc modules whose functions are pure value computations (may panic: see PARTIAL)
PURE_STD_MODULES = {
    'option', 'result', 'iter', 'slice', 'str', 'string', 'vec', 'cmp', 'clone', 'ops', 'fmt',
    'convert', 'default', 'hash', 'num', 'bool', 'char', 'mem', 'borrow', 'marker', 'array',
    'tuple', 'collections', 'rt', 'hint', 'boxed', 'ascii', 'unicode', 'panicking',
    'panic', 'error', 'primitive', 'f32', 'f64', 'usize', 'isize',
    'u8', 'u16', 'u32', 'u64', 'i8', 'i16', 'i32', 'i64', 'range',
    'cell',   # per-value interior mutability (Cell/RefCell are !Sync): sharing it across calls needs a static (C17.R2) or Rc/Arc (not in this table)
}
# deliberately NOT pure: ptr (addresses), rc (shared ownership), any (type ids), alloc, intrinsics,
# ffi/path (only meaningful with ambient calls) - unknown => fail closed inside typstyle-core
# modules that reach outside the process state given by the arguments
AMBIENT_STD_MODULES = {
    'fs', 'io', 'env', 'time', 'process', 'thread', 'net', 'sync', 'os', 'random', 'backtrace',
    'task', 'future', 'simd', 'arch',
}
# `std::ffi`/`std::path` are value types; `std::cell`/`std::rc` are per-value (no sharing without a static)

PURE_CRATES = {'typst_syntax', 'pretty', 'ecow', 'itertools', 'smallvec', 'rustc_hash', 'serde', 'either', 'unicode_ident'}

HASH_CONTAINER = re.compile(r'\b(HashMap|HashSet|hash_map|hash_set|IndexMap|IndexSet|BTreeMap|BTreeSet)\b')
HASH_ONLY = re.compile(r'\b(HashMap|HashSet|hash_map|hash_set)\b')
HASH_ORDER_METHODS = {'iter', 'iter_mut', 'keys', 'values', 'values_mut', 'into_iter', 'drain', 'retain',
                      'into_keys', 'into_values', 'extract_if', 'next', 'for_each', 'fold'}
RANDOM = re.compile(r'\b(RandomState|DefaultHasher|getrandom|thread_rng|OsRng)\b')

_ROOT = re.compile(r'(?<![:\w])([A-Za-z_][A-Za-z0-9_]*)::([A-Za-z_][A-Za-z0-9_]*)')


def method_name(path):
    return path.rsplit('::', 1)[-1]


def roots(path):
    """(crate, first-module) pairs mentioned at the start of each path component of a
    possibly-qualified path such as `<std::vec::Vec<T> as std::ops::Deref>::deref`."""
    out = []
    for m in _ROOT.finditer(path):
        a, b = m.group(1), m.group(2)
        if a[0].isupper():
            continue        # `Type::method`
        out.append((a, b))
    return out


# functions of the otherwise pure dependency crates that read or write process-global state (seed C17/4B): typst-syntax numbers file ids from a
# global interner (`static INTERNER: LazyLock<RwLock<..>>`, 16-bit ids, entries leaked) - every `FileId::new` / `new_fake` leaves state behind that
# later calls observe (and `new_fake` panics once the process has created 65 535 ids); `Source::detached` uses one fixed id and is not listed
GLOBAL_STATE_PATHS = re.compile(r'\bFileId::(new|new_fake)\b|\btypst_syntax::(file::)?(FileId::(new|new_fake)|INTERNER)\b')


def classify_ambient(path, extra_pure_crates=()):
    """returns ('pure'|'ambient'|'unknown', reason)"""
    if GLOBAL_STATE_PATHS.search(path):
        return 'ambient', 'process-global file-id interner of typst-syntax'
    rs = roots(path)
    if not rs:
        # e.g. `<T as Trait>::m` with everything generic, or `<&str as ...>`
        return 'pure', 'no crate-qualified component'
    verdict = 'pure'
    why = ''
    for a, b in rs:
        if a in ('std', 'core', 'alloc'):
            if b in AMBIENT_STD_MODULES:
                return 'ambient', '%s::%s' % (a, b)
            if b not in PURE_STD_MODULES:
                verdict, why = 'unknown', '%s::%s is not in the frozen std module table' % (a, b)
        elif a in PURE_CRATES or a in extra_pure_crates:
            continue
        else:
            verdict, why = 'unknown', 'crate/module `%s` is not in the frozen crate table' % a
    if RANDOM.search(path):
        return 'ambient', 'randomness'
    return verdict, why


def is_hash_order(path):
    if not HASH_ONLY.search(path):
        return False
    m = method_name(path)
    if m in HASH_ORDER_METHODS:
        return True
    # IntoIterator / Debug / Extend-from for hash containers
    if 'IntoIterator' in path or 'Iterator' in path:
        return True
    return False


# ---------------------------------------------------------------------------------------------
# partial (may panic / abort) extern callees, by last path segments
# ---------------------------------------------------------------------------------------------
PARTIAL_METHODS = {
    'unwrap': 'unwrap', 'expect': 'expect', 'unwrap_err': 'unwrap', 'expect_err': 'expect',
    'remove': 'remove', 'swap_remove': 'remove', 'insert': 'insert', 'split_at': 'split', 'split_at_mut': 'split',
    'split_off': 'split', 'drain': 'drain', 'with_capacity': 'alloc-size', 'reserve': 'alloc-size',
    'reserve_exact': 'alloc-size', 'repeat': 'alloc-size', 'resize': 'alloc-size', 'repeat_n': 'alloc-size',
    'index': 'index', 'index_mut': 'index', 'panic_fmt': 'panic', 'panic': 'panic', 'unreachable_display': 'panic',
    'panic_explicit': 'panic', 'begin_panic': 'panic', 'copy_from_slice': 'len-eq', 'swap': 'index',
    'rotate_left': 'index', 'rotate_right': 'index', 'chunks': 'nonzero', 'windows': 'nonzero', 'step_by': 'nonzero',
    'abort': 'panic', 'exit': 'exit', 'truncate': None, 'pop': None,
}

STRING_TRANSFORM = re.compile(
    r'::(trim|trim_start|trim_end|trim_matches|trim_start_matches|trim_end_matches|strip_prefix|strip_suffix|'
    r'replace|replacen|to_lowercase|to_uppercase|to_ascii_lowercase|to_ascii_uppercase|make_ascii_lowercase|'
    r'make_ascii_uppercase|split|rsplit|split_whitespace|split_once|rsplit_once|splitn|lines|chars|char_indices|bytes|'
    r'escape_debug|escape_default|escape_unicode|truncate|pop|remove|retain|insert|insert_str|drain|replace_range|'
    r'split_terminator|split_inclusive|split_ascii_whitespace|normalize|nfc|nfd)$')

ORDER_CHANGING = {'sort', 'sort_by', 'sort_by_key', 'sort_unstable', 'sort_unstable_by', 'sort_unstable_by_key',
                  'sort_by_cached_key', 'reverse', 'rev', 'swap', 'rotate_left', 'rotate_right', 'dedup', 'dedup_by',
                  'dedup_by_key', 'retain', 'retain_mut', 'sorted', 'sorted_by', 'sorted_by_key', 'select_nth_unstable',
                  'swap_remove', 'shuffle', 'partition', 'rsplit', 'rfold'}

FILE_MUTATING = re.compile(
    r'std::fs::(write|remove_file|remove_dir|remove_dir_all|rename|copy|create_dir|create_dir_all|set_permissions|'
    r'hard_link|soft_link)$|std::fs::File::(create|create_new|set_len|set_permissions|set_modified|set_times|options)$|'
    r'std::fs::OpenOptions::|std::os::unix::fs::|File as std::io::Write|tempfile::')
