"""Loader and pretty-printer for the tylint fact base (MIR bodies as JSON)."""
import json, os


class Body:
    def __init__(self, j, crate):
        self.j = j
        self.crate = crate
        self.id = j['id']
        self.owner = j['owner']
        self.path = j['path']
        self.def_kind = j['def_kind']
        self.promoted = j['promoted']
        self.arg_count = j['arg_count']
        self.locals = j['locals']
        self.blocks = j['blocks']
        self.span = j['span']
        self.parent = j.get('parent')
        self.direct_parent = j.get('direct_parent')
        self.names = {}
        for d in j['debug']:
            p = d['p']
            if not p['proj']:
                self.names.setdefault(p['l'], d['name'])
        self._succ = None
        self._pred = None

    # short name: last path segments without crate
    @property
    def short(self):
        return self.id.split('::', 1)[1] if '::' in self.id else self.id

    def local_ty(self, l):
        return self.locals[l]['ty']

    def term(self, bb):
        return self.blocks[bb]['term']

    def succs(self, bb, unwind=False):
        t = self.blocks[bb]['term']
        k = t['t']
        out = []
        if k == 'goto':
            out = [t['target']]
        elif k == 'switch':
            out = [x[1] for x in t['targets']] + [t['otherwise']]
        elif k in ('drop', 'assert'):
            out = [t['target']]
        elif k == 'call':
            if t['target'] is not None:
                out = [t['target']]
        if unwind and 'unwind' in t:
            out.append(t['unwind'])
        # dedupe preserving order
        seen = []
        for x in out:
            if x not in seen:
                seen.append(x)
        return seen

    def preds(self):
        if self._pred is None:
            self._pred = {i: [] for i in range(len(self.blocks))}
            for i in range(len(self.blocks)):
                for s in self.succs(i):
                    self._pred[s].append(i)
        return self._pred

    def calls(self):
        """yield (bb, term) for every call terminator in non-cleanup blocks"""
        for i, b in enumerate(self.blocks):
            if b['cleanup']:
                continue
            if b['term']['t'] == 'call':
                yield i, b['term']

    def loc(self, span=None):
        sp = span or self.span
        return '%s:%s' % (sp['file'], sp['line'])


def callee_path(t):
    c = t.get('callee')
    if not c:
        return None
    return c['def']['path']


def resolved_path(t):
    """path of the resolved instance when rustc could resolve the call in the caller's own
    environment (e.g. `<std::str::Lines<'a> as std::iter::Iterator>::next`), else the declared path"""
    c = t.get('callee')
    if not c:
        return None
    r = c.get('resolved')
    if r:
        return r['def']['path']
    return c['def']['path']


def callee_str(t):
    """declared callee with its generic arguments, e.g. `<Lines<'_> as Iterator>::next`"""
    c = t.get('callee')
    return c['s'] if c else None


def callee_id(t):
    c = t.get('callee')
    if not c:
        return None
    return c['def']['id']


def resolved_id(t):
    """best resolution: closure body / fn item for Fn* calls, else resolved instance def, else declared def"""
    c = t.get('callee')
    if not c:
        return None
    r = c.get('resolved')
    if r:
        if 'closure' in r:
            return r['closure']['id']
        if 'fn_item' in r:
            return r['fn_item']['id']
        return r['def']['id']
    return c['def']['id']


class Crate:
    def __init__(self, path):
        with open(path) as f:
            self.j = json.load(f)
        self.name = self.j['crate']
        self.nonce = self.j['nonce']
        self.features = self.j['features']
        self.bodies = {}
        for b in self.j['bodies']:
            body = Body(b, self)
            self.bodies[body.id] = body
        self.adts = {a['id']: a for a in self.j['adts']}
        self.items = self.j['items']
        self.ast_root_items = self.j['ast_root_items']

    def find(self, suffix, exact=False):
        """bodies whose id ends with the given suffix (non-promoted)"""
        out = []
        for b in self.bodies.values():
            if b.promoted is not None:
                continue
            if (b.id == suffix) if exact else (b.id.endswith(suffix)):
                out.append(b)
        return out

    def one(self, suffix):
        r = self.find(suffix)
        if len(r) != 1:
            raise KeyError('expected exactly one body for %r, got %r' % (suffix, [b.id for b in r]))
        return r[0]


# ------------------------------------------------------------------------------------------
# pretty printer
# ------------------------------------------------------------------------------------------

def fmt_place(p, body=None):
    s = '_%d' % p['l']
    if body is not None and p['l'] in body.names:
        s += '«%s»' % body.names[p['l']]
    for e in p['proj']:
        k = e['p']
        if k == 'deref':
            s = '(*%s)' % s
        elif k == 'field':
            s = '%s.%d' % (s, e['i'])
        elif k == 'downcast':
            s = '(%s as %s)' % (s, e.get('name') or e['v'])
        elif k == 'index':
            s = '%s[_%d]' % (s, e['l'])
        elif k == 'cindex':
            s = '%s[%s%d]' % (s, '-' if e['from_end'] else '', e['offset'])
        elif k == 'subslice':
            s = '%s[%d..%s%d]' % (s, e['from'], '-' if e['from_end'] else '', e['to'])
        else:
            s = '%s.<%s>' % (s, k)
    return s


def fmt_operand(o, body=None):
    k = o['o']
    if k in ('copy', 'move'):
        return ('move ' if k == 'move' else '') + fmt_place(o['p'], body)
    if k == 'const':
        if 'str' in o:
            return 'const %r' % o['str']
        if 'int' in o:
            return 'const %d_%s' % (o['int'], o['ty']['s'])
        if 'fn' in o:
            return 'fn %s' % o['fn']['s']
        if 'promoted' in o:
            return 'promoted[%d]' % o['promoted']
        return 'const %s' % o['s']
    return k


def fmt_rvalue(rv, body=None):
    r = rv['r']
    if r == 'use':
        return fmt_operand(rv['op'], body)
    if r == 'ref':
        return '&%s%s' % ('mut ' if rv['mut'] else '', fmt_place(rv['p'], body))
    if r == 'rawptr':
        return '&raw %s' % fmt_place(rv['p'], body)
    if r == 'cast':
        return '%s as %s (%s)' % (fmt_operand(rv['op'], body), rv['ty']['s'], rv['kind'])
    if r == 'binop':
        return '%s(%s, %s)' % (rv['op'], fmt_operand(rv['a'], body), fmt_operand(rv['b'], body))
    if r == 'unop':
        return '%s(%s)' % (rv['op'], fmt_operand(rv['a'], body))
    if r == 'discr':
        return 'discriminant(%s)' % fmt_place(rv['p'], body)
    if r == 'agg':
        ops = ', '.join(fmt_operand(x, body) for x in rv['ops'])
        ak = rv['ak']
        if ak == 'adt':
            return '%s::%s{%s}' % (rv['path'], rv['vname'], ops)
        if ak == 'closure':
            return 'closure %s [%s]' % (rv['def']['path'], ops)
        return '%s(%s)' % (ak, ops)
    if r == 'repeat':
        return '[%s; %s]' % (fmt_operand(rv['op'], body), rv['n'])
    if r == 'tls':
        return 'tls %s' % rv['def']['path']
    return r


def fmt_term(t, body=None):
    k = t['t']
    if k == 'goto':
        return 'goto bb%d' % t['target']
    if k == 'switch':
        return 'switchInt(%s: %s) -> [%s, otherwise: bb%d]' % (
            fmt_operand(t['discr'], body), t['discr_ty'],
            ', '.join('%d: bb%d' % (v, b) for v, b in t['targets']), t['otherwise'])
    if k == 'call':
        c = t.get('callee')
        if c:
            name = c['s']
            r = c.get('resolved')
            if r and 'closure' in r:
                name += ' => ' + r['closure']['path']
            elif r and r['def']['id'] != c['def']['id']:
                name += ' => ' + r['def']['path']
            elif not r:
                name += ' [unresolved]'
        else:
            name = 'indirect ' + fmt_operand(t['func'], body)
        return '%s = %s(%s) -> %s' % (fmt_place(t['dest'], body), name,
                                      ', '.join(fmt_operand(a, body) for a in t['args']),
                                      'bb%d' % t['target'] if t['target'] is not None else '!')
    if k == 'drop':
        return 'drop(%s) -> bb%d' % (fmt_place(t['p'], body), t['target'])
    if k == 'assert':
        return 'assert(%s == %s, %s) -> bb%d' % (fmt_operand(t['cond'], body), t['expected'], t['msg'], t['target'])
    return k


def dump_body(body, cleanup=False):
    out = ['fn %s  [%s] args=%d  %s' % (body.id, body.def_kind, body.arg_count, body.loc())]
    for l in body.locals:
        nm = body.names.get(l['l'], '')
        out.append('  let _%d%s: %s' % (l['l'], ('«%s»' % nm) if nm else '', l['ty']['s']))
    for i, b in enumerate(body.blocks):
        if b['cleanup'] and not cleanup:
            continue
        out.append('  bb%d%s:' % (i, ' (cleanup)' if b['cleanup'] else ''))
        for s in b['stmts']:
            if s['s'] == 'assign':
                out.append('    %s = %s   // L%s' % (fmt_place(s['p'], body), fmt_rvalue(s['rv'], body), s['span']['line']))
            elif s['s'] == 'setdiscr':
                out.append('    discriminant(%s) = %d' % (fmt_place(s['p'], body), s['variant']))
            else:
                out.append('    %s' % s['s'])
        out.append('    %s   // L%s' % (fmt_term(b['term'], body), b['term']['span']['line']))
    return '\n'.join(out)


def load_all(facts_dir):
    crates = {}
    for fn in sorted(os.listdir(facts_dir)):
        if fn.endswith('.json') and fn != 'STAMP.json':
            c = Crate(os.path.join(facts_dir, fn))
            crates[c.name] = c
    return crates


if __name__ == '__main__':
    import sys
    crates = load_all(sys.argv[1])
    pat = sys.argv[2]
    for c in crates.values():
        for b in c.bodies.values():
            if pat in b.id:
                print(dump_body(b, cleanup='--cleanup' in sys.argv))
                print()
