"""Type-directed naming of place projections (struct.field names from the ADT tables)."""


def adt_lookup(w, adt_id):
    for c in w.crates.values():
        a = c.adts.get(adt_id)
        if a:
            return a
    return None


def subst(ty, args):
    """substitute type parameters of a field type by the generic arguments of the ADT instance"""
    if ty is None or not args:
        return ty
    k = ty.get('k')
    if k == 'param':
        i = ty['idx']
        if i < len(args) and args[i].get('k') not in ('lt', 'const'):
            return args[i]
        return ty
    out = dict(ty)
    if 't' in ty and isinstance(ty['t'], dict):
        out['t'] = subst(ty['t'], args)
    if 'ts' in ty:
        out['ts'] = [subst(x, args) for x in ty['ts']]
    if 'args' in ty and isinstance(ty['args'], list):
        out['args'] = [subst(x, args) if isinstance(x, dict) else x for x in ty['args']]
    if 'upvars' in ty:
        out['upvars'] = [subst(x, args) for x in ty['upvars']]
    return out


def name_projection(w, ty, proj, variant=None):
    """walk `proj` (tuple of prov-style elems: ('*',), ('f', i), ('v', i)) from type `ty` (json);
    returns (steps, final_ty) where steps is a list of 'Struct.field' strings; unknown => None ty"""
    steps = []
    cur = ty
    cur_variant = None
    for e in proj:
        if cur is None:
            steps.append('?')
            continue
        if e == ('*',):
            if cur['k'] in ('ref', 'ptr'):
                cur = cur['t']
            elif cur['k'] == 'adt' and cur['path'].startswith('std::boxed::Box'):
                cur = cur['args'][0]
            else:
                cur = None
            continue
        if e[0] == 'v':
            cur_variant = e[1]
            continue
        if e[0] == 'f':
            if cur['k'] == 'adt':
                a = adt_lookup(w, cur['id'])
                if a is None:
                    steps.append('%s.#%d' % (cur['path'], e[1]))
                    cur = None
                    continue
                v = a['variants'][cur_variant or 0]
                if e[1] >= len(v['fields']):
                    steps.append('%s.#%d' % (cur['path'], e[1]))
                    cur = None
                    continue
                f = v['fields'][e[1]]
                pre = a['id'] if a['kind'] != 'enum' else '%s::%s' % (a['id'], v['name'])
                steps.append('%s.%s' % (pre, f['name']))
                cur = subst(f['ty'], cur.get('args') or [])
                cur_variant = None
            elif cur['k'] == 'tuple':
                steps.append('tuple.%d' % e[1])
                cur = cur['ts'][e[1]] if e[1] < len(cur['ts']) else None
            elif cur['k'] == 'closure':
                steps.append('upvar.%d' % e[1])
                cur = cur['upvars'][e[1]] if e[1] < len(cur['upvars']) else None
            else:
                steps.append('#%d' % e[1])
                cur = None
            continue
        steps.append(str(e))
        cur = None
    return steps, cur


def place_field_names(w, body, place):
    """names of the struct fields traversed by a MIR place (json)"""
    from prov import place_key
    l, proj = place_key(place)
    return name_projection(w, body.locals[l]['ty'], proj)
