"""Dispatch sites: every (converter, parent kind, loop over syntax nodes, child kind) evaluated with kindflow."""
import re
import grammar
import kindflow as kf
from kindflow import Interp, Machine, Frame, Cell, Node, Agg, Doc, Text, Const, Kind, TOP, PathLimit
from mirfacts import callee_path, resolved_id

FLATTEN = {'CodeBlock': ['Code'], 'ModuleImport': ['ImportItems']}

# (a line comment can occur before the items when the import sits inside parentheses, where line breaks do not end it)
IMPORT_PREFIX = grammar._u(['Import', 'As', 'Colon', 'Star', 'Ident'], grammar.CODE_EXPR, grammar.TRIVIA)
IMPORT_ITEMS_PART = grammar._u(['LeftParen', 'RightParen', 'ImportItems'], grammar.TRIVIA)
IMPORT_ITEMS_FLAT = grammar._u(['LeftParen', 'RightParen', 'ImportItemPath', 'RenamedImportItem', 'Comma'], grammar.TRIVIA)
CHAIN_NODES = grammar._u(grammar.CODE_EXPR, ['MathIdent'])


def loop_kinds_override(converter, loop_fn, depth, recv_is_children, default):
    """child kinds for loops whose item set is not simply `children of the parent node`"""
    c = converter.rsplit('::', 1)[-1]
    l = loop_fn.rsplit('::', 1)[-1]
    if c == 'convert_import':
        if l == 'convert_flow_like_iter':
            return IMPORT_PREFIX           # nodes before the first `(` / ImportItems
        if l == 'convert_import':
            return IMPORT_ITEMS_PART       # nodes from the first `(` / ImportItems on (flattening loop)
        if l == 'process_iterable_impl':
            return IMPORT_ITEMS_FLAT       # the flattened item list
    if c == 'convert_code_block':
        if l == 'convert_code_block':
            return grammar.CHILDREN['CodeBlock']
        if l == 'process_iterable_impl':
            return grammar._u([k for k in grammar.CHILDREN['CodeBlock'] if k != 'Code'], grammar.CHILDREN['Code'])
    if l == 'process' and 'chain' in loop_fn and depth == 0:
        return CHAIN_NODES                 # the resolved chain: expression nodes, innermost last
    if c in ('convert_parenthesized_args', 'convert_parenthesized_args_as_list', 'convert_args'):
        # parenthesised arguments outside math (math calls go through convert_args_in_math)
        return [k for k in default if k not in ('Semicolon', 'Hash') and not k.startswith('Math') and k not in ('Escape', 'Linebreak', 'Text')]
    return default


def child_items(kinds, depth):
    out = []
    tag = 'child' if depth == 0 else 'child%d' % depth
    for k in kinds:
        if k in grammar.LINEBREAKABLE:
            out.append(Node(tag, k, True))
            out.append(Node(tag, k, False))
        elif k in grammar.ALWAYS_LINEBREAK:
            out.append(Node(tag, k, True))
        else:
            out.append(Node(tag, k, None))
    return out


class Outcome:
    """one evaluated iteration: converter fn, parent kind, stack of loops/items, and what the iteration did:
       atoms   - leaf document atoms appended/queued (documents handed to an accumulator)
       pushed  - syntax nodes queued as nodes
       made    - whitespace atoms created (hardline/space/line/...), in order
       seq     - ordered list of ('atom', summary) / ('make', kind) for sequence rules"""
    __slots__ = ('fn', 'parent', 'loops', 'items', 'atoms', 'pushed', 'made', 'seq', 'assumed', 'trace', 'status', 'events', 'result', 'stores', 'converts', 'converts_x')

    def __init__(self, **kw):
        self.events = None
        for k, v in kw.items():
            setattr(self, k, v)

    @property
    def item(self):
        return self.items[-1]

    @property
    def loop(self):
        return self.loops[-1]


class Whole:
    """a complete path through a converter that is not inside an iteration"""
    __slots__ = ('fn', 'parent', 'passed', 'assumed', 'result', 'atoms', 'converts', 'converts_x')

    def __init__(self, **kw):
        for k, v in kw.items():
            setattr(self, k, v)


def freeze(v, depth=0):
    """picklable, Ref-free rendering of an abstract value"""
    if isinstance(v, kf.Ref):
        return '&'
    if isinstance(v, Agg) and depth < 4:
        return Agg(v.adt, v.variant, [freeze(x, depth + 1) for x in v.fields])
    if isinstance(v, Agg):
        return Agg(v.adt, v.variant, [])
    return v


def typed_node_params(b):
    out = []
    for i in range(1, b.arg_count + 1):
        ty = b.locals[i]['ty']
        n = grammar.ast_type_name(ty)
        if n:
            out.append((i, n))
    return out


def untyped_node_params(b):
    return [i for i in range(1, b.arg_count + 1) if b.locals[i]['ty']['s'].startswith('&typst_syntax::SyntaxNode')]


# kinds a node can have where the printer is in math mode (expressions of math syntax and the argument structure of math calls); used to prune
# `cast::<T>()` of nodes the evaluator knows nothing about when a converter is evaluated in math mode
MATH_NODE_KINDS = frozenset(grammar.MATH_EXPR) | {'Args', 'Named', 'Spread', 'Array', 'Equation', 'Space', 'LineComment', 'BlockComment', 'Hash'}


def _is_node_predicate(tb):
    """a free function of the printer that inspects a node and answers with a bool / a number / an Option of such (`table::is_table`,
    `table::is_formatable_table`): a decision, not an emission - left unknown (both answers explored) instead of being unrolled over unknown children"""
    if tb.def_kind != 'Fn' or not tb.short.startswith('pretty::table::'):
        return False
    ret = tb.locals[0]['ty']['s']
    return ret == 'bool' or ret.startswith('std::option::Option<usize') or ret.startswith('std::option::Option<std::vec::Vec<usize') or ret == 'usize'


class SiteEvaluator:
    def __init__(self, w, max_paths=20000):
        self.w = w
        self.g = grammar.load()
        self.max_paths = max_paths
        self._cache = {}
        self.errors = []

    def converters(self):
        """[(body, param index, [parent kinds])] for every local function with a node parameter whose kind set is known"""
        core = self.w.core
        out = []
        untyped = []
        for b in self.w.fn_bodies(core):
            if b.def_kind == 'Closure':
                continue
            if not b.short.startswith('pretty::'):
                continue
            if any(re.match(r'impl (Fn|FnMut|FnOnce|Iterator)', b.locals[i]['ty']['s']) for i in range(1, b.arg_count + 1)):
                continue      # generic layout helpers are evaluated through the converters that instantiate them
            tp = typed_node_params(b)
            if tp:
                i, n = tp[0]
                kinds = sorted(self.g['kinds_of'].get(n, []))
                if n in self.g['node_types']:
                    out.append((b, i, kinds))
                continue
            up = untyped_node_params(b)
            if up and b.locals[0]['ty']['s'].startswith(('pretty::DocBuilder', 'std::option::Option<pretty::DocBuilder')):
                untyped.append((b, up[0]))
        # untyped converters: parent kinds from the typed parameters of their callers
        typed_of = {b.id: ks for b, i, ks in out}
        for _ in range(3):
            for (b, i) in untyped:
                if b.id in typed_of:
                    continue
                ks = set()
                for cb in self.w.fn_bodies(core):
                    for bi, t in cb.calls():
                        if resolved_id(t) == b.id:
                            owner = cb
                            while owner.def_kind == 'Closure' and owner.parent in self.w.bodies:
                                owner = self.w.bodies[owner.parent]
                            if owner.id in typed_of:
                                ks |= set(typed_of[owner.id])
                if ks:
                    typed_of[b.id] = sorted(ks)
                    out.append((b, i, sorted(ks)))
        return out

    def has_node_loop(self, b):
        """does b (or a local function it reaches without passing through another converter) loop over syntax nodes?"""
        edges, _ = self.w.callgraph()
        seen, work = set(), [b.id]
        while work:
            x = work.pop()
            if x in seen or x not in self.w.bodies:
                continue
            seen.add(x)
            xb = self.w.bodies[x]
            for bi, t in xb.calls():
                if re.search(r'Iterator::next$|Iterator>::next$', callee_path(t) or '') and not t['dest']['proj']:
                    if re.match(r'^std::option::Option<&+typst_syntax::SyntaxNode>$', xb.locals[t['dest']['l']]['ty']['s']):
                        return True
                if re.search(r'::(split_first|split_last)$', callee_path(t) or ''):
                    return True
            for y in edges.get(x, ()):
                yb = self.w.bodies.get(y)
                if yb is None or yb.crate is not self.w.core:
                    continue
                if y != b.id and kf.default_converter_pred(yb):
                    continue
                work.append(y)
        return False

    def evaluate_all(self):
        """{(fn_short, parent): [Outcome]}; cached on disk next to the facts (a pure function of them and of this module)"""
        import os, pickle, hashlib
        here = os.path.dirname(os.path.abspath(__file__))
        h = hashlib.sha256()
        for fn in ('sites.py', 'kindflow.py', 'grammar.py', 'cfg.py', 'paths.py', 'prov.py', 'mirfacts.py', 'effects.py', 'inline.py', 'world.py',
                   '../tables/typst_syntax_0.13.1.json'):
            h.update(open(os.path.join(here, fn), 'rb').read())
        cache = os.path.join(self.w.facts_dir, 'sites-%s.pickle' % h.hexdigest()[:16])
        if os.path.exists(cache):
            try:
                with open(cache, 'rb') as fh:
                    data = pickle.load(fh)
                self.errors = data['errors']
                self.wholes = data.get('wholes', {})
                return data['table']
            except Exception:
                pass
        table = {}
        self.wholes = {}
        for b, i, kinds in self.converters():
            loopy = self.has_node_loop(b)
            for K in kinds:
                if loopy:
                    outs, wholes = self.evaluate(b, i, K)
                    table[(b.short, K)] = outs
                    self.wholes[(b.short, K)] = wholes
                else:
                    # no loop over syntax nodes: only the complete paths matter (typed-accessor converters); bounded effort
                    outs, wholes = self.evaluate(b, i, K, max_steps=40000)
                    self.wholes[(b.short, K)] = wholes if outs is not None else None
        try:
            with open(cache, 'wb') as fh:
                pickle.dump({'table': table, 'errors': self.errors, 'wholes': self.wholes}, fh)
        except Exception:
            pass
        return table

    def evaluate(self, b, param, parent_kind, sequence=None, max_steps=800000, ctx_mode=None, param_val=None):
        """run converter b with its node parameter bound to a node of kind parent_kind; returns (outcomes, whole-function results).
        ctx_mode: evaluate with a Context of that mode (the Context methods are then entered, so that mode changes are tracked)"""
        key = (b.id, parent_kind, None if sequence is None else tuple(sequence), ctx_mode, param_val is not None)
        if key in self._cache:
            return self._cache[key]
        ip = Interp(self.w, max_depth=12, max_paths=self.max_paths, max_steps=max_steps)
        if ctx_mode == 'Math':
            ip.unknown_node_kinds = MATH_NODE_KINDS
        flat = []
        for fk in FLATTEN.get(parent_kind, []):
            flat += grammar.CHILDREN.get(fk, [])
        default_kinds = grammar._u(grammar.CHILDREN.get(parent_kind, []), flat)

        def items(interp, m, f, t):
            depth = len(m.iter or [])
            if depth >= 2:
                return None
            if f.body.locals[0]['ty']['s'] == 'bool':
                return None       # predicates scanning the children: no emission, evaluated as ordinary code
            recv = interp.eval_operand(m, f, t['args'][0]) if t['args'] else TOP
            for _ in range(3):
                if isinstance(recv, kf.Ref):
                    recv = interp.load(recv)
            kinds = default_kinds
            if isinstance(recv, Agg) and recv.adt == 'children-of' and recv.fields and isinstance(recv.fields[0], Node) and recv.fields[0].kind:
                k2 = recv.fields[0].kind
                kinds = grammar.CHILDREN.get(k2, default_kinds)
                if recv.fields[0].tag == 'parent':
                    kinds = grammar._u(kinds, flat) if k2 == parent_kind else kinds
            kinds = loop_kinds_override(b.short, f.body.short, depth, isinstance(recv, Agg) and recv.adt == 'children-of', kinds)
            return child_items(kinds, depth)
        ip.loop_items_cb = items
        ip.no_inline = lambda tb: (tb.short.endswith('::print_doc') or tb.short.endswith('collect_markup_repr') or ('context::{impl#' in tb.short and ctx_mode is None)
                                   or 'get_fold_style' in tb.short or tb.short.startswith('attr::') or tb.short.endswith('has_comment_children')
                                   or _is_node_predicate(tb)) and tb.id != b.id
        m = Machine()
        cells = {}
        for i in range(1, b.arg_count + 1):
            cells[i] = Cell('p%d' % i)
            if ctx_mode is not None and b.locals[i]['ty']['s'].endswith('context::Context'):
                cells[i].val = context(ctx_mode, None)
        cells[param].val = param_val if param_val is not None else Node('parent', parent_kind)
        # further node parameters of the converter (`convert_func_call_args(func_call, args)`): parts of the same subtree, tagged apart
        for i in range(1, b.arg_count + 1):
            if i != param and cells[i].val is kf.TOP:
                tn = grammar.ast_type_name(b.locals[i]['ty'])
                ks = grammar.load()['kinds_of'].get(tn) if tn else None
                if ks and len(ks) == 1:
                    cells[i].val = Node('parent2', ks[0])
        m.frames.append(Frame(b, cells))
        outcomes, wholes = [], []
        try:
            res = ip.run(m)
        except PathLimit as e:
            if ip.intercepted == 0:
                # no loop over syntax nodes was reached: not a dispatch site (e.g. typed-accessor converters with TOP-driven loops)
                self._cache[key] = ([], None)
                return [], None
            self.errors.append((b.short, parent_kind, str(e)))
            self._cache[key] = (None, None)
            return None, None
        for r in res:
            if r.iter:
                it = r.iter
                evs = r.events[it[-1]['ev_start']:]
                item = it[-1]['item']
                seq = []
                for e in evs:
                    if e[0] == 'make':
                        seq.append(('make', e[1]))
                    elif e[0] in ('convert', 'unqueue', 'rec'):
                        continue
                    else:
                        for x in e[1:]:
                            for a in atoms_of(x):
                                seq.append(('atom', summarise_atom(a, item)))
                outcomes.append(Outcome(fn=b.short, parent=parent_kind, loops=[(x['fn'], x['bb']) for x in it], items=[x['item'] for x in it],
                                        atoms=event_atoms(evs), pushed=pushed_nodes(evs), made=made(evs), seq=seq,
                                        stores=[(e[1], freeze(e[2])) for e in evs if e[0] == 'store'],
                                        converts=[(e[1], freeze(e[2]), e[3], e[4]) for e in evs if e[0] == 'convert'],
                                        converts_x=[(e[1], freeze(e[2]), e[3], e[4], e[5] if len(e) > 5 else ()) for e in evs if e[0] == 'convert'],
                                        assumed=list(r.assumed[-12:] if ctx_mode is None else r.assumed), trace=[], result=freeze(getattr(r, 'result', None)),
                                        status=r.outcome or ('return' if hasattr(r, 'result') else 'open')))
            else:
                if hasattr(r, 'result'):
                    wholes.append(Whole(fn=b.short, parent=parent_kind, passed=list(getattr(r, 'passed_loops', [])), assumed=list(r.assumed),
                                        result=freeze(r.result), atoms=atoms_of(r.result) if isinstance(r.result, (Doc, Agg)) else [],
                                        converts=[(e[1], freeze(e[2]), e[3], e[4]) for e in r.events if e[0] == 'convert'],
                                        converts_x=[(e[1], freeze(e[2]), e[3], e[4], e[5] if len(e) > 5 else ()) for e in r.events if e[0] == 'convert']))
        self._cache[key] = (outcomes, wholes)
        return outcomes, wholes


# ---------------------------------------------------------------------------------------------
# reading documents
# ---------------------------------------------------------------------------------------------
def atoms_of(v):
    """all leaf doc atoms inside an abstract value (Doc, aggregates holding docs, ...)"""
    out = []
    if isinstance(v, Doc):
        out += v.flat()
    elif isinstance(v, Agg):
        for f in v.fields:
            out += atoms_of(f)
    return out


def event_atoms(events):
    out = []
    for e in events:
        if e[0] in ('make', 'convert', 'unqueue', 'rec'):
            continue
        for x in e[1:]:
            out += atoms_of(x)
    return out


def made(events):
    return [e[1] for e in events if e[0] == 'make']


def mentions(atom, node):
    """does the atom carry the given child node (converted, as own text, as comment)?"""
    if atom[0] == 'conv':
        n = atom[2]
        return isinstance(n, Node) and n.tag == node.tag and n.kind == node.kind
    if atom[0] == 'text':
        x = atom[1]
        return isinstance(x, Text) and x.node.tag == node.tag and x.node.kind == node.kind
    return False


def pushed_nodes(events):
    """nodes queued as nodes (not yet documents), e.g. into a line buffer"""
    out = []
    for e in events:
        if e[0] == 'push':
            for x in e[2:]:
                n = kf.node_of(x) if not isinstance(x, Node) else x
                if isinstance(x, Node):
                    out.append(x)
                elif isinstance(x, Agg) and x.adt == 'children-of':
                    out.append(('children-of', x.fields[0]))
    return out


def summarise_atom(a, item):
    if a[0] == 'conv':
        short = a[1].rsplit('::', 1)[-1]
        n = a[2]
        who = 'child' if isinstance(n, Node) and n.tag == item.tag and n.kind == item.kind else ('parent' if isinstance(n, Node) and n.tag == 'parent' else 'other')
        return '%s(%s)' % (short, who)
    if a[0] == 'text':
        x = a[1]
        if isinstance(x, Text):
            who = 'child' if x.node.tag == item.tag and x.node.kind == item.kind else 'other'
            return 'owntext(%s%s)' % (who, (':' + '>'.join(x.via)) if x.via else '')
        if isinstance(x, Const):
            return 'lit(%r)' % x.v
        return 'text(?)'
    return a[0]


def outcome_summary(o):
    return tuple(summarise_atom(a, o.item) for a in o.atoms)


def run_function(w, b, params, no_inline=None, accessor_model=None, max_steps=400000, max_paths=10000, loop_items=None, converter_pred=None):
    """abstractly evaluate local function b with the given parameter values ({index: value}); returns
    [(result, events, assumed)] for every complete path (None on path explosion)"""
    ip = Interp(w, max_depth=12, max_paths=max_paths, max_steps=max_steps, converter_pred=converter_pred)
    ip.no_inline = no_inline or (lambda tb: False)
    ip.accessor_model = accessor_model
    ip.loop_items_cb = loop_items
    m = Machine()
    cells = {i: Cell('p%d' % i) for i in range(1, b.arg_count + 1)}
    for i, v in params.items():
        cells[i].val = v
    m.frames.append(Frame(b, cells))
    try:
        res = ip.run(m)
    except PathLimit:
        return None
    out = []
    for r in res:
        if hasattr(r, 'result'):
            out.append((r.result, list(r.events), list(r.assumed)))
    return out


def context(mode=None, suppressed=None, after_hash=None):
    """an abstract Context {mode, break_suppressed, after_hash} (fields the tree does not have are never projected)"""
    md = Agg('typstyle_core::pretty::context::Mode', mode, []) if mode else TOP
    return Agg('typstyle_core::pretty::context::Context', None, [md, TOP if suppressed is None else Const(suppressed), TOP if after_hash is None else Const(after_hash)])


def evaluate_sequence(w, b, param, parent_kind, seq, no_inline=None, max_paths=12000, ctx=None, extra=None, hooks=None, with_wholes=False, edge_hint=None, peel=None, respect_kinds=False, from_start=False, accessor_model=None, later_loops_empty=False):
    """evaluate consecutive iterations <seq[0], seq[1], ..> of every loop over syntax nodes in converter b (state carried
    from one iteration to the next, all other state unknown); returns [(loop, [events of step 0], [events of step 1], ..)]"""
    ip = Interp(w, max_depth=12, max_paths=max_paths, max_steps=600000)
    ip.no_inline = no_inline or (lambda tb: (tb.short.endswith('::print_doc') or tb.short.endswith('collect_markup_repr') or 'context::{impl#' in tb.short
                                             or 'get_fold_style' in tb.short or tb.short.startswith('attr::') or tb.short.endswith('has_comment_children')) and tb.id != b.id)
    def items(interp, m, f, t):
        if any(x.get('ended') for x in (m.iter or [])):
            if later_loops_empty:
                return []     # the caller is interested in the loop that consumed the sequence only: later loops see no children
            # the sequence was consumed by an earlier loop: later loops of the converter iterate one representative significant child
            # (so that what they emit after the sequence is visible), or nothing when they are nested too deeply to matter
            if len(m.iter or []) >= 3 or f.body.locals[0]['ty']['s'] == 'bool':
                return None
            dflt = grammar._u(grammar.CHILDREN.get(parent_kind, []), [x for fk in FLATTEN.get(parent_kind, []) for x in grammar.CHILDREN.get(fk, [])])
            ks = [k for k in loop_kinds_override(b.short, f.body.short, 0, True, dflt) if k not in grammar.TRIVIA]
            inner = [k for k in ks if k in grammar.CHILDREN]
            pick = (inner or ks)[:1]
            if not pick:
                return []
            return ('seq', [Node('child', pick[0]), 'END'])
        depth = len(m.iter or [])
        if depth >= 2 or f.body.locals[0]['ty']['s'] == 'bool':
            return None
        if f.body.short.endswith('chain::{impl#0}::process') and depth == 0:
            return [Node('operand', parent_kind)]      # the chain node whose children are then iterated
        dflt = grammar._u(grammar.CHILDREN.get(parent_kind, []), [x for fk in FLATTEN.get(parent_kind, []) for x in grammar.CHILDREN.get(fk, [])])
        kinds = loop_kinds_override(b.short, f.body.short, depth, True, dflt)
        if respect_kinds and kinds is not None and isinstance(seq[0], Node) and seq[0].kind not in kinds:
            return []         # this loop iterates a part of the children in which the first item of the sequence cannot occur
        if from_start:
            return ('seq', list(seq), 'from-start')
        return ('seq', list(seq))
    ip.loop_items_cb = items
    if accessor_model is not None:
        ip.accessor_model = accessor_model
    if edge_hint:
        ip.children_edge_hint = edge_hint
    if peel:
        ip.peel_cb = peel
        ip.dedupe_loops = False
    m = Machine()
    cells = {i: Cell('p%d' % i) for i in range(1, b.arg_count + 1)}
    cells[param].val = Node('parent', parent_kind)
    if ctx is not None:
        for i in range(1, b.arg_count + 1):
            if b.locals[i]['ty']['s'].endswith('context::Context'):
                cells[i].val = ctx
    for i, val in (extra or {}).items():
        cells[i].val = val
    for name, h in (hooks or {}).items():
        ip.hooks[name] = h
    m.frames.append(Frame(b, cells))
    try:
        res = ip.run(m)
    except PathLimit:
        return None
    out = []
    for r in res:
        if r.iter and r.iter[-1].get('ended') and hasattr(r, 'result') and len(r.frames if hasattr(r, 'frames') else []) == 0:
            top = r.iter[-1]
            marks = [top['ev_start']] + top.get('marks', []) + [len(r.events)]
            steps = [r.events[marks[i]:marks[i + 1]] for i in range(len(marks) - 1)]
            out.append((((top['fn'], top['bb'])), steps, list(r.assumed), ('ended', r.result)))
            continue
        if with_wholes and not r.iter and hasattr(r, 'result'):
            out.append((None, [list(r.events)], list(r.assumed), []))
            continue
        if not r.iter or r.outcome != 'iteration-complete':
            continue
        top = r.iter[-1]
        if 'seq' not in top or top.get('step', 0) + 1 < len(seq):
            continue
        marks = [top['ev_start']] + top.get('marks', []) + [len(r.events)]
        steps = [r.events[marks[i]:marks[i + 1]] for i in range(len(marks) - 1)]
        if with_wholes:
            out.append(((top['fn'], top['bb']), steps, list(r.assumed), top.get('seq_items') or [top['item']]))
        else:
            out.append(((top['fn'], top['bb']), steps, list(r.assumed)))
    return out
