"""E2 - kindflow: abstract evaluation of MIR over a finite lattice of syntax kinds.

Values that the formatter's dispatch code only ever *compares* (a child's SyntaxKind, the Option
returned by a kind-directed cast, small enums and bools) are tracked exactly; everything else is
TOP and both successors of a switch on TOP are explored.  Documents are tracked as sequences of
atoms (converted child, own text of a node, literal, comment, space, hard/soft line ...).  This is
constant propagation on a finite lattice over the CFG: no execution of the formatter, no solver.
"""
import copy, os, re
import grammar
from mirfacts import callee_path, resolved_id, resolved_path, callee_str
from tyutil import adt_lookup


# ---------------------------------------------------------------------------------------------
# abstract values
# ---------------------------------------------------------------------------------------------
class Top:
    """unknown value; `src` names the call that produced it (diagnostics and guard recognition only)"""

    def __init__(self, src=None):
        self.src = src

    def __repr__(self):
        return 'T' if not self.src else 'T<%s>' % self.src.rsplit('::', 1)[-1]

    def __eq__(self, o):
        return isinstance(o, Top)

    def __hash__(self):
        return 1


TOP = Top()


class Const:
    """bool / int / str / char constants"""

    def __init__(self, v):
        self.v = v

    def __repr__(self):
        return 'C(%r)' % (self.v,)

    def __eq__(self, o):
        return isinstance(o, Const) and type(o.v) == type(self.v) and o.v == self.v

    def __hash__(self):
        return hash(('C', self.v))


class IntGe:
    """an unknown integer known to be >= n"""

    def __init__(self, n):
        self.n = n

    def __repr__(self):
        return 'Int>=%d' % self.n

    def __eq__(self, o):
        return isinstance(o, IntGe) and o.n == self.n

    def __hash__(self):
        return hash(('G', self.n))


class Kind:
    def __init__(self, name):
        self.name = name

    def __repr__(self):
        return 'K(%s)' % self.name

    def __eq__(self, o):
        return isinstance(o, Kind) and o.name == self.name

    def __hash__(self):
        return hash(('K', self.name))


class Node:
    """a syntax node: tag tells which (the examined child, its parent, some other node)"""

    def __init__(self, tag, kind=None, linebreak=None):
        self.tag = tag
        self.kind = kind
        self.linebreak = linebreak     # for whitespace-like tokens: does the text contain a line break

    def __repr__(self):
        return 'N(%s:%s%s)' % (self.tag, self.kind, '' if self.linebreak is None else ('+nl' if self.linebreak else '-nl'))

    def __eq__(self, o):
        return isinstance(o, Node) and (o.tag, o.kind, o.linebreak) == (self.tag, self.kind, self.linebreak)

    def __hash__(self):
        return hash(('N', self.tag, self.kind, self.linebreak))


class Text:
    """the own text of a node (EcoString / &str views of it), with the transformations applied"""

    def __init__(self, node, via=()):
        self.node = node
        self.via = tuple(via)

    def __repr__(self):
        return 'Text(%r%s)' % (self.node, (' via ' + '>'.join(self.via)) if self.via else '')

    def __eq__(self, o):
        return isinstance(o, Text) and o.node == self.node and o.via == self.via

    def __hash__(self):
        return hash(('Tx', self.node, self.via))


class Agg:
    """struct / enum variant / tuple value"""

    def __init__(self, adt, variant, fields):
        self.adt = adt            # adt id, 'tuple', or 'closure:<id>'
        self.variant = variant    # variant name (structs: None)
        self.fields = list(fields)
        self.subst = None         # closures: instantiation of the creating frame

    def __repr__(self):
        return '%s%s(%s)' % (self.adt.rsplit('::', 1)[-1], ('::' + self.variant) if self.variant else '', ', '.join(repr(f) for f in self.fields))

    def __eq__(self, o):
        return isinstance(o, Agg) and (o.adt, o.variant) == (self.adt, self.variant) and o.fields == self.fields

    def __hash__(self):
        return hash(('A', self.adt, self.variant, tuple(hash(f) for f in self.fields)))


class Ref:
    """pointer to a place: (cell, projection)"""

    def __init__(self, cell, proj=()):
        self.cell = cell
        self.proj = tuple(proj)

    def __repr__(self):
        return '&%s%s' % (self.cell.name, ''.join('.%s' % (p,) for p in self.proj))

    def __eq__(self, o):
        return isinstance(o, Ref) and o.cell is self.cell and o.proj == self.proj

    def __hash__(self):
        return hash(('R', id(self.cell), self.proj))


class Cell:
    """a memory cell (one per live local)"""

    def __init__(self, name, val=None):
        self.name = name
        self.val = TOP if val is None else val


class Doc:
    """a document: tuple of atoms.  Atom = (kind, payload):
       ('conv', fn_short, node)      result of a converter applied to a node
       ('text', Text|Const|TOP)      arena.text(..)
       ('comment', node)             comment converter applied to node
       ('hardline',) ('space',) ('line',) ('line_',) ('softline',) ('nil',)
       ('wrap', name, Doc...)        group/nest/enclose/... around inner docs
       ('alt', Doc, Doc)             flat_alt
       ('top',)                      unknown document"""

    def __init__(self, atoms=()):
        self.atoms = tuple(atoms)

    def __repr__(self):
        return 'Doc%r' % (self.atoms,)

    def __eq__(self, o):
        return isinstance(o, Doc) and o.atoms == self.atoms

    def __hash__(self):
        return hash(('D', self.atoms))

    def flat(self):
        """all leaf atoms, looking through wrappers and alternatives"""
        out = []
        for a in self.atoms:
            if a[0] == 'wrap':
                for d in a[2:]:
                    if isinstance(d, Doc):
                        out += d.flat()
            elif a[0] == 'alt':
                out += a[1].flat() + a[2].flat()
            else:
                out.append(a)
        return out


class FnVal:
    def __init__(self, def_id, path):
        self.def_id = def_id
        self.path = path

    def __repr__(self):
        return 'fn(%s)' % self.path

    def __eq__(self, o):
        return isinstance(o, FnVal) and o.def_id == self.def_id

    def __hash__(self):
        return hash(('F', self.def_id))


def doc_top(src=None):
    return Doc((('top', src),)) if src else Doc((('top',),))


def as_doc(v):
    if isinstance(v, Doc):
        return v
    if isinstance(v, Const) and isinstance(v.v, str):
        return Doc((('text', v),))
    if isinstance(v, Text):
        return Doc((('text', v),))
    if isinstance(v, Agg) and v.adt.endswith('Option') and v.variant == 'None':
        return Doc((('nil',),))
    if isinstance(v, Agg) and v.adt.endswith('Option') and v.variant == 'Some':
        return as_doc(v.fields[0])
    if isinstance(v, Top) and v.src:
        return doc_top(v.src)
    return doc_top()


# ---------------------------------------------------------------------------------------------
# the interpreter
# ---------------------------------------------------------------------------------------------
class Frame:
    def __init__(self, body, cells, bb=0, ret_to=None):
        self.body = body
        self.cells = cells        # local -> Cell
        self.bb = bb
        self.si = 0
        self.ret_to = ret_to      # Ref or None: where the caller wants the result
        self.ret_bb = None        # block in the caller to continue at
        self.subst = {}           # type-param index -> type json (instantiation of a generic body)


class Machine:
    def __init__(self):
        self.frames = []
        self.events = []          # (kind, ...) emissions
        self.trace = []           # (body.short, bb) for diagnostics
        self.visits = {}          # (depth, body id, bb) -> count
        self.assumed = []         # branch assumptions on TOP: (body.short, bb, atom-ish)
        self.dead = False
        self.finished = False
        self.iter = None          # stack of iteration records {'header','item','ev_start','fn'}
        self.outcome = None


class PathLimit(Exception):
    pass


class Interp:
    def __init__(self, world, max_depth=6, max_paths=4000, inline_filter=None, converter_pred=None, hooks=None, max_steps=400000):
        self.w = world
        self.g = grammar.load()
        self.max_depth = max_depth
        self.max_paths = max_paths
        self.inline_filter = inline_filter or (lambda b: True)
        self.converter_pred = converter_pred or (lambda b: default_converter_pred(b) and not extracted_dispatch_helper(world, b))
        self.hooks = hooks or {}
        self.max_steps = max_steps
        self.intercepted = 0
        self.kind_names = None
        self._discr = {}
        self.loop_items_cb = None     # (interp, machine, frame, term) -> [Node] or None (do not intercept)
        self.peel_cb = None
        self.sequence = None          # [item1, item2, ..]: evaluate consecutive iterations of the first intercepted loop
        self.no_inline = lambda b: False   # local functions that are summarised (result TOP / unknown document)
        self.seen_loop_states = set()
        self._loop_headers = {}

    # ------------------------------------------------------------------ enum tables
    def variants(self, adt_id):
        a = adt_lookup(self.w, adt_id)
        return a

    def discr_of(self, adt_id, variant_name):
        key = (adt_id, variant_name)
        if key not in self._discr:
            a = adt_lookup(self.w, adt_id)
            val = None
            if a:
                for v in a['variants']:
                    if v['name'] == variant_name:
                        val = v['discr'] if v['discr'] is not None else v['idx']
            self._discr[key] = val
        return self._discr[key]

    def variant_by_index(self, adt_id, idx):
        a = adt_lookup(self.w, adt_id)
        if a and idx < len(a['variants']):
            return a['variants'][idx]['name']
        return None

    def kind_discr(self, name):
        return self.discr_of('typst_syntax::kind::SyntaxKind', name)

    # ------------------------------------------------------------------ running
    def run(self, machine, stop_at=None):
        """explore all paths from the machine's current position; returns list of finished machines.
        stop_at(frame_depth, body, bb) -> True ends a path *before* executing that block."""
        done = []
        work = [machine]
        steps = 0
        peak = 0
        stats = os.environ.get('KF_STATS')
        root = machine.frames[0].body.short if machine.frames else '?'
        while work:
            m = work.pop()
            while True:
                steps += 1
                if steps > self.max_steps:
                    if stats:
                        open(stats, 'a').write('%s\tSTEPLIMIT\t%d/%d\t%d/%d\n' % (root, peak, self.max_paths, steps, self.max_steps))
                    raise PathLimit('step limit')
                if m.dead or m.finished or not m.frames:
                    break
                f = m.frames[-1]
                depth = len(m.frames)
                if stop_at and f.si == 0 and stop_at(depth, f.body, f.bb) and m.trace:
                    m.stopped = (depth, f.body.id, f.bb)
                    break
                forks = self.step(m)
                if forks:
                    work.extend(forks)
                if len(done) + len(work) > peak:
                    peak = len(done) + len(work)
                if len(done) + len(work) > self.max_paths:
                    if stats:
                        open(stats, 'a').write('%s\tPATHLIMIT\t%d/%d\t%d/%d\n' % (root, peak, self.max_paths, steps, self.max_steps))
                    raise PathLimit('more than %d paths' % self.max_paths)
            if not m.dead:
                done.append(m)
        if stats:
            open(stats, 'a').write('%s\tok\t%d/%d\t%d/%d\n' % (root, peak, self.max_paths, steps, self.max_steps))
        return done

    def step(self, m):
        """execute the rest of the current block of the top frame; returns forked machines (if any)"""
        f = m.frames[-1]
        b = f.body
        blk = b.blocks[f.bb]
        if f.si == 0:
            key = (len(m.frames), b.id, f.bb)
            m.visits[key] = m.visits.get(key, 0) + 1
            if m.visits[key] > 3:
                m.dead = True       # loop cut: this path revisits a block too often (inner loops over TOP state)
                m.cut = True
                return None
            m.trace.append((b.short, f.bb))
        while f.si < len(blk['stmts']):
            s = blk['stmts'][f.si]
            f.si += 1
            if s['s'] == 'assign':
                val = self.eval_rvalue(m, f, s['rv'])
                self.write_place(m, f, s['p'], val)
            elif s['s'] == 'setdiscr':
                cur = self.read_place(m, f, s['p'])
                ty = self.place_type(f, s['p'])
                if ty is not None and ty.get('k') == 'adt':
                    name = self.variant_by_index(ty['id'], s['variant'])
                    self.write_place(m, f, s['p'], Agg(ty['id'], name, []))
        t = blk['term']
        return self.terminator(m, f, t)

    def goto(self, f, bb):
        f.bb = bb
        f.si = 0

    def terminator(self, m, f, t):
        k = t['t']
        if k == 'goto':
            self.goto(f, t['target'])
            return None
        if k in ('drop',):
            self.goto(f, t['target'])
            return None
        if k == 'assert':
            self.goto(f, t['target'])
            return None
        if k == 'unreachable':
            m.dead = True
            return None
        if k == 'return':
            ret = f.cells[0].val if 0 in f.cells else TOP
            m.frames.pop()
            if m.frames:
                caller = m.frames[-1]
                if f.ret_to is not None:
                    self.store(f.ret_to, ret)
                self.goto(caller, f.ret_bb)
            else:
                m.result = ret
            return None
        if k == 'switch':
            v = self.eval_operand(m, f, t['discr'])
            dv = self.discr_value(v)
            targets = t['targets']
            if dv is not None:
                for val, tgt in targets:
                    if val == dv:
                        self.goto(f, tgt)
                        return None
                self.goto(f, t['otherwise'])
                return None
            # TOP: fork over all distinct targets
            seen = []
            for val, tgt in targets:
                if tgt not in seen:
                    seen.append(tgt)
            if t['otherwise'] not in seen:
                ow = f.body.blocks[t['otherwise']]
                if not (ow['term']['t'] == 'unreachable' and not ow['stmts']):
                    seen.append(t['otherwise'])
            forks = []
            src = getattr(v, 'src', None)

            def label(tgt):
                vals = [val for val, tg in targets if tg == tgt]
                if t['discr_ty'] == 'bool':
                    return False if vals == [0] else (True if not vals or vals == [1] else None)
                return tuple(vals) if vals else 'otherwise'
            for tgt in seen[1:]:
                m2 = fork(m)
                f2 = m2.frames[-1]
                m2.assumed.append((f.body.short, f.bb, tgt, src, label(tgt)))
                self.goto(f2, tgt)
                forks.append(m2)
            m.assumed.append((f.body.short, f.bb, seen[0], src, label(seen[0])))
            self.goto(f, seen[0])
            return forks
        if k == 'call':
            return self.call(m, f, t)
        # anything else: end of path
        m.dead = True
        return None

    def discr_value(self, v):
        if isinstance(v, Const):
            if isinstance(v.v, bool):
                return 1 if v.v else 0
            if isinstance(v.v, int):
                return v.v
        if isinstance(v, Kind):
            return self.kind_discr(v.name)
        return None

    # ------------------------------------------------------------------ places
    def cell(self, f, l):
        if l not in f.cells:
            f.cells[l] = Cell('%s_%d' % (f.body.short.rsplit('::', 1)[-1], l))
        return f.cells[l]

    def place_type(self, f, p):
        from tyutil import name_projection
        from prov import place_key
        l, pr = place_key(p)
        _, ty = name_projection(self.w, f.body.locals[l]['ty'], pr)
        return ty

    def resolve_place(self, m, f, p):
        """-> Ref (cell, proj) after following derefs; None if it goes through TOP"""
        cellv = self.cell(f, p['l'])
        ref = Ref(cellv, ())
        for e in p['proj']:
            k = e['p']
            if k == 'deref':
                v = self.load(ref)
                if isinstance(v, Ref):
                    ref = v
                elif isinstance(v, (Node, Text, Const, Kind, Agg, IntGe)):
                    # references to immutable views are represented by the value itself
                    ref = Ref(Cell('view', v), ())
                else:
                    return None
            elif k == 'field':
                ref = Ref(ref.cell, ref.proj + (('f', e['i']),))
            elif k == 'downcast':
                ref = Ref(ref.cell, ref.proj + (('v', e.get('name') or e['v']),))
            else:
                return None
        return ref

    def load(self, ref):
        v = ref.cell.val
        vname = None
        for e in ref.proj:
            if e[0] == 'v':
                vname = e[1]
            if e[0] == 'f' and isinstance(v, Top):
                if vname is not None and vname not in ('Some', 'Ok', 'Continue'):
                    return Top('%s.%d' % (vname, e[1]))
                if v.src:
                    return Top('%s.%d' % (v.src, e[1]))
            if e[0] == 'v':
                if isinstance(v, Agg) and (v.variant == e[1] or v.variant is None):
                    continue
                if isinstance(v, Agg):
                    return TOP      # reading a variant that is not active on this path (infeasible; be safe)
                if v is TOP or isinstance(v, Top):
                    continue
                return TOP
            if e[0] == 'f':
                if isinstance(v, Agg):
                    v = v.fields[e[1]] if e[1] < len(v.fields) else TOP
                elif isinstance(v, Node) and e[1] == 0:
                    v = v       # typed AST wrapper `X(&SyntaxNode)`: field 0 is the node itself
                else:
                    return TOP
        return v

    def store(self, ref, val):
        if not ref.proj:
            ref.cell.val = val
            return
        cur = ref.cell.val
        ref.cell.val = self._store_into(cur, ref.proj, val)

    def _store_into(self, cur, proj, val):
        if not proj:
            return val
        e = proj[0]
        if e[0] == 'v':
            return self._store_into(cur, proj[1:], val)
        if e[0] == 'f':
            if isinstance(cur, Agg):
                new = Agg(cur.adt, cur.variant, list(cur.fields))
                while len(new.fields) <= e[1]:
                    new.fields.append(TOP)
                new.fields[e[1]] = self._store_into(new.fields[e[1]], proj[1:], val)
                return new
            # writing a field of an unknown aggregate: keep TOP but remember nothing
            fields = [TOP] * (e[1] + 1)
            fields[e[1]] = self._store_into(TOP, proj[1:], val)
            return Agg('?', None, fields)
        return TOP

    def read_place(self, m, f, p):
        ref = self.resolve_place(m, f, p)
        if ref is None:
            return TOP
        return self.load(ref)

    def write_place(self, m, f, p, val):
        ref = self.resolve_place(m, f, p)
        if p['proj'] and (isinstance(val, (Const, Kind)) or (isinstance(val, Agg) and val.variant is not None and not val.adt.startswith(('closure:', 'core::option')))):
            # recorded even when the target is behind a reference the evaluator does not follow (`map.entry(k).or_default().flag = true`): the field
            # name comes from the type of the place
            names = self.field_names(f, p)
            if names:
                m.events.append(('store', names[-1], val))
        if ref is None:
            return
        self.store(ref, val)

    def field_names(self, f, p):
        from tyutil import name_projection
        from prov import place_key
        l, pr = place_key(p)
        key = (f.body.id, l, pr)
        if not hasattr(self, '_fn_cache'):
            self._fn_cache = {}
        if key not in self._fn_cache:
            steps, _ = name_projection(self.w, f.body.locals[l]['ty'], pr)
            self._fn_cache[key] = [x for x in steps if '.' in x]
        return self._fn_cache[key]

    # ------------------------------------------------------------------ operands / rvalues
    def eval_operand(self, m, f, op):
        k = op['o']
        if k in ('copy', 'move'):
            return self.read_place(m, f, op['p'])
        if k == 'const':
            if 'str' in op:
                return Const(op['str'])
            if 'int' in op:
                tys = op['ty']['s']
                if tys == 'bool':
                    return Const(bool(op['int']))
                if tys == 'char':
                    return Const(chr(op['int']))
                return Const(op['int'])
            if 'fn' in op:
                return FnVal(op['fn']['def']['id'], op['fn']['def']['path'])
            if 'promoted' in op:
                pb = self.w.bodies.get('%s::promoted[%d]' % (op.get('promoted_owner') or f.body.owner, op['promoted']))
                if pb is not None:
                    return self.eval_const_body(pb)
                return TOP
            if op.get('zst') and op['ty'].get('k') == 'adt':
                return Agg(op['ty']['id'], None, [])
            if op['ty']['s'] == '()':
                return Agg('tuple', None, [])
            return TOP
        return TOP

    def eval_const_body(self, pb):
        """promoted constants: tiny straight-line bodies"""
        m = Machine()
        fr = Frame(pb, {})
        m.frames.append(fr)
        try:
            res = self.run(m)
        except PathLimit:
            return TOP
        if len(res) == 1 and hasattr(res[0], 'result'):
            return res[0].result
        return TOP

    def eval_rvalue(self, m, f, rv):
        r = rv['r']
        if r == 'use':
            return self.eval_operand(m, f, rv['op'])
        if r in ('ref', 'rawptr'):
            p = rv['p']
            # reborrow &(*x) == x's pointer value
            if p['proj'] and p['proj'][-1]['p'] == 'deref':
                inner = {'l': p['l'], 'proj': p['proj'][:-1]}
                v = self.read_place(m, f, inner)
                if isinstance(v, (Ref, Node, Text, Const)):
                    return v
                if isinstance(v, Agg) or isinstance(v, Doc):
                    return v
                return v
            ref = self.resolve_place(m, f, p)
            if ref is None:
                return TOP
            v = self.load(ref)
            # references to nodes / texts / strs are represented by the value itself (they are immutable views)
            if isinstance(v, (Node, Text)) or (isinstance(v, Const) and isinstance(v.v, str)):
                return v
            return ref
        if r == 'cast':
            v = self.eval_operand(m, f, rv['op'])
            if isinstance(v, Const) and isinstance(v.v, (int, bool)) and 'IntToInt' in rv['kind']:
                return Const(int(v.v))
            if 'Pointer' in rv['kind'] or 'Unsize' in rv['kind'] or 'Transmute' in rv['kind']:
                return v
            return v if isinstance(v, (Node, Text, Ref)) else TOP
        if r == 'discr':
            v = self.read_place(m, f, rv['p'])
            if isinstance(v, Ref):
                v = self.load(v)
            if isinstance(v, Kind):
                return v
            if isinstance(v, Agg) and v.variant is not None and v.adt not in ('?', 'tuple'):
                d = self.discr_of(v.adt, v.variant)
                if d is not None:
                    return Const(d)
            if isinstance(v, Const) and isinstance(v.v, bool):
                return Const(1 if v.v else 0)
            return TOP
        if r == 'binop':
            a = self.eval_operand(m, f, rv['a'])
            b_ = self.eval_operand(m, f, rv['b'])
            return self.binop(rv['op'], a, b_)
        if r == 'unop':
            a = self.eval_operand(m, f, rv['a'])
            if rv['op'] == 'Not' and isinstance(a, Const) and isinstance(a.v, bool):
                return Const(not a.v)
            return TOP
        if r == 'agg':
            ops = [self.eval_operand(m, f, o) for o in rv['ops']]
            ak = rv['ak']
            if ak == 'adt':
                if rv['adt'] == 'typst_syntax::kind::SyntaxKind':
                    return Kind(rv['vname'])
                a = adt_lookup(self.w, rv['adt'])
                vname = rv['vname'] if (a and a['kind'] == 'enum') else None
                return Agg(rv['adt'], vname, ops)
            if ak == 'tuple':
                return Agg('tuple', None, ops)
            if ak == 'closure':
                a = Agg('closure:' + rv['def']['id'], None, ops)
                a.subst = f.subst
                return a
            return TOP
        return TOP

    def binop(self, op, a, b):
        if isinstance(a, Const) and isinstance(b, Const) and not isinstance(a.v, str) and not isinstance(b.v, str):
            try:
                x, y = a.v, b.v
                if op == 'Eq':
                    return Const(x == y)
                if op == 'Ne':
                    return Const(x != y)
                if op == 'Lt':
                    return Const(x < y)
                if op == 'Le':
                    return Const(x <= y)
                if op == 'Gt':
                    return Const(x > y)
                if op == 'Ge':
                    return Const(x >= y)
                if op in ('BitAnd',) and isinstance(x, bool):
                    return Const(x and y)
                if op in ('BitOr',) and isinstance(x, bool):
                    return Const(x or y)
                if op in ('Add', 'AddUnchecked'):
                    return Const(int(x) + int(y))
                if op in ('Sub', 'SubUnchecked'):
                    return Const(int(x) - int(y))
                if op == 'AddWithOverflow':
                    return Agg('tuple', None, [Const(int(x) + int(y)), Const(False)])
                if op == 'SubWithOverflow':
                    return Agg('tuple', None, [Const(int(x) - int(y)), Const(int(x) < int(y))])
            except Exception:
                return TOP
        if isinstance(a, Kind) and isinstance(b, Kind):
            if op == 'Eq':
                return Const(a == b)
            if op == 'Ne':
                return Const(a != b)
        if isinstance(a, IntGe) and isinstance(b, Const) and isinstance(b.v, int) and not isinstance(b.v, bool):
            k = b.v
            if op == 'Gt' and k < a.n:
                return Const(True)
            if op == 'Ge' and k <= a.n:
                return Const(True)
            if op == 'Lt' and k <= a.n:
                return Const(False)
            if op == 'Le' and k < a.n:
                return Const(False)
            if op == 'Eq' and k < a.n:
                return Const(False)
            if op == 'Ne' and k < a.n:
                return Const(True)
            if op in ('Sub', 'SubUnchecked') and k <= a.n:
                return IntGe(a.n - k)
            if op == 'SubWithOverflow' and k <= a.n:
                return Agg('tuple', None, [IntGe(a.n - k), Const(False)])
        if op.endswith('WithOverflow'):
            return Agg('tuple', None, [TOP, Const(False)])
        # short-circuit facts with one TOP side
        if op == 'BitAnd' and (a == Const(False) or b == Const(False)):
            return Const(False)
        if op == 'BitOr' and (a == Const(True) or b == Const(True)):
            return Const(True)
        return TOP

    # ------------------------------------------------------------------ calls
    def call(self, m, f, t):
        args = [self.eval_operand(m, f, a) for a in t['args']]
        dest = self.resolve_place(m, f, t['dest'])
        nxt = t['target']
        c = t.get('callee')
        path = c['def']['path'] if c else None
        rpath = resolved_path(t) if c else None
        # 0. loops over syntax nodes: evaluate one iteration per possible child kind
        if c is not None and self.loop_items_cb is not None and re.search(r'Iterator::next$|Iterator>::next$|::next_back$', path or '') \
                and not t['dest']['proj']:
            dty = f.body.locals[t['dest']['l']]['ty']['s']
            if re.match(r"^std::option::Option<(&+typst_syntax::SyntaxNode|typst_syntax::LinkedNode<'_>)>$", dty) and nxt is not None and self.is_loop_header(f.body, f.bb):
                key = (len(m.frames), f.body.id, f.bb)
                stack = m.iter or []
                if any(x['header'] == key for x in stack):
                    top = stack[-1]
                    seq = top.get('seq')
                    if seq is not None and top['header'] == key and top.get('step', 0) + 1 < len(seq):
                        # sequence mode: feed the next item without widening (state of the previous iteration is kept)
                        step = top.get('step', 0) + 1
                        if seq[step] == 'END':
                            # the sequence ends here: the iterator is exhausted and the path continues after the loop
                            top['step'] = step
                            top['marks'] = top.get('marks', []) + [len(m.events)]
                            top['ended'] = True
                            m.visits = {}
                            if dest is not None:
                                self.store(dest, Agg('core::option::Option', 'None', []))
                            self.goto(f, nxt)
                            return None
                        alts = seq[step] if isinstance(seq[step], list) else [seq[step]]
                        extra = []
                        m.visits = {}      # a new iteration of the sequence: the per-path revisit bound starts afresh
                        for alt in alts[1:]:        # a list at a sequence position = alternatives: one machine per alternative
                            m2 = fork(m)
                            f2 = m2.frames[-1]
                            top2 = m2.iter[-1]
                            top2['step'] = step
                            top2['marks'] = top2.get('marks', []) + [len(m2.events)]
                            top2['seq_items'] = top2.get('seq_items', [top2['item']]) + [alt]
                            d2 = self.resolve_place(m2, f2, t['dest'])
                            if d2 is not None:
                                self.store(d2, Agg('core::option::Option', 'Some', [alt]))
                            self.goto(f2, nxt)
                            extra.append(m2)
                        top['step'] = step
                        top['marks'] = top.get('marks', []) + [len(m.events)]
                        top['seq_items'] = top.get('seq_items', [top['item']]) + [alts[0]]
                        if dest is not None:
                            self.store(dest, Agg('core::option::Option', 'Some', [alts[0]]))
                        self.goto(f, nxt)
                        return extra or None
                    # an iteration came back to (one of) its headers: this path is complete
                    m.finished = True
                    m.outcome = 'iteration-complete'
                    return None
                items = self.loop_items_cb(self, m, f, t)
                seq_here = None
                from_start = False
                if isinstance(items, tuple) and items and items[0] == 'seq':
                    seq_here = list(items[1])
                    from_start = len(items) > 2 and items[2] == 'from-start'
                    items = [seq_here[0]]
                if items is not None:
                    # (the signature covers every frame on the stack: paths that differ in a caller's locals continue differently after the loop)
                    sig = (f.body.id, f.bb, tuple(x['item'] for x in stack), tuple(self.frame_sig(fr) for fr in m.frames))
                    if sig in self.seen_loop_states and getattr(self, 'dedupe_loops', True):
                        m.finished = True
                        m.outcome = 'duplicate-loop-state'
                        return None
                    self.seen_loop_states.add(sig)
                    self.intercepted += 1
                    forks = []
                    variant = self.loop_variant_locals(f.body, f.bb)
                    for node in items:
                        m2 = fork(m)
                        f2 = m2.frames[-1]
                        if not from_start:      # (a sequence that begins with the first child keeps the state established before the loop)
                            self.widen(f2, variant, skip={t['dest']['l']})
                        d2 = self.resolve_place(m2, f2, t['dest'])
                        self.store(d2, Agg('core::option::Option', 'Some', [node]))
                        rec = {'header': key, 'item': node, 'ev_start': len(m2.events), 'fn': f.body.short, 'bb': f.bb}
                        if seq_here is not None:
                            rec['seq'] = seq_here
                        m2.iter = (m2.iter or []) + [rec]
                        self.goto(f2, nxt)
                        forks.append(m2)
                    if seq_here is not None:
                        m.finished = True
                        m.outcome = 'sequence-root'
                        return forks
                    # this machine: loop exhausted
                    m.passed_loops = getattr(m, 'passed_loops', []) + [(f.body.short, f.bb, self.loop_source(m, f, t))]
                    if dest is not None:
                        self.store(dest, Agg('core::option::Option', 'None', []))
                    self.goto(f, nxt)
                    return forks
        # 1. hooks (rule-specific sinks / models)
        for name, h in self.hooks.items():
            res = h(self, m, f, t, args)
            if res is not None:
                if res is not NOTHING:
                    if dest is not None:
                        self.store(dest, res)
                if nxt is None:
                    m.dead = True
                    return None
                self.goto(f, nxt)
                return None
        # 2. target body?
        target = None
        closure_val = None
        if c is not None:
            rid = resolved_id(t)
            if rid in self.w.bodies:
                target = self.w.bodies[rid]
            elif c['def']['id'] in self.w.bodies:
                target = self.w.bodies[c['def']['id']]
            # calls through Fn* traits on abstract closure values
            if target is None and re.search(r'ops::(Fn|FnMut|FnOnce)::call(_mut|_once)?$', path or ''):
                fv = args[0]
                if isinstance(fv, Ref):
                    fv = self.load(fv)
                if isinstance(fv, Agg) and fv.adt.startswith('closure:'):
                    target = self.w.bodies.get(fv.adt[len('closure:'):])
                    closure_val = fv
                elif isinstance(fv, FnVal):
                    target = self.w.bodies.get(fv.def_id)
                    if target is None:
                        # extern fn item called through Fn: model as a direct call with the tuple spread
                        tup = args[1] if len(args) > 1 else Agg('tuple', None, [])
                        res = self.model_extern(m, f, fv.path, fv.path, list(tup.fields) if isinstance(tup, Agg) else [], t)
                        if dest is not None:
                            self.store(dest, TOP if res is None else res)
                        self.goto(f, nxt) if nxt is not None else setattr(m, 'dead', True)
                        return None
        if target is not None and re.search(r'::(has_linebreak|count_linebreaks)$', target.short):
            # text predicates of the repo's own StrExt: decided by the child variant under evaluation
            res = self.model_extern(m, f, target.short, target.short, args, t)
            if dest is not None:
                self.store(dest, TOP if res is None else res)
            self.goto(f, nxt)
            return None
        if target is not None and target.crate is not None:
            is_fn_trait = re.search(r'ops::(Fn|FnMut|FnOnce)::call(_mut|_once)?$', path or '') is not None
            # converters are summarised, not entered
            if self.converter_pred(target) and not is_fn_trait_closure(target):
                res = self.summarise_converter(m, target, args)
                if dest is not None:
                    self.store(dest, res)
                self.goto(f, nxt)
                return None
            # a function that is already being evaluated on this path is not entered again (a recursive helper walking the subtree would be unrolled
            # until the step limit): its result is unknown, like that of any function the evaluator does not enter
            recursive = target.def_kind != 'Closure' and sum(1 for fr in m.frames if fr.body.id == target.id) >= 1
            if len(m.frames) < self.max_depth and self.inline_filter(target) and not self.no_inline(target) and not recursive:
                return self.enter(m, f, t, target, args, dest, nxt, is_fn_trait)
            # not inlined: result unknown, &mut arguments havocked
            self.havoc(args)
            if dest is not None:
                dr = self.default_result(target)
                self.store(dest, Top(target.short) if isinstance(dr, Top) else dr)
            self.goto(f, nxt) if nxt is not None else setattr(m, 'dead', True)
            return None
        # 3. extern model
        res = self.model_extern(m, f, path or '<indirect>', rpath or '', args, t)
        if isinstance(res, list):
            # forked results: list of (machine, value)
            forks = []
            first = True
            for (mm, val) in res:
                ff = mm.frames[-1]
                d2 = self.resolve_place(mm, ff, t['dest'])
                if d2 is not None:
                    self.store(d2, val)
                if nxt is None:
                    mm.dead = True
                else:
                    self.goto(ff, nxt)
                if mm is not m:
                    forks.append(mm)
            return forks
        if dest is not None:
            self.store(dest, TOP if res is None else res)
        if nxt is None:
            m.dead = True
            return None
        self.goto(f, nxt)
        return None

    def loop_source(self, m, f, t):
        recv = self.eval_operand(m, f, t['args'][0]) if t['args'] else TOP
        for _ in range(3):
            if isinstance(recv, Ref):
                recv = self.load(recv)
        if isinstance(recv, Agg) and recv.adt == 'children-of' and recv.fields and isinstance(recv.fields[0], Node):
            return recv.fields[0].tag
        return None

    def is_loop_header(self, body, bb):
        import cfg
        if body.id not in self._loop_headers:
            self._loop_headers[body.id] = set(cfg.natural_loops(body))
        return bb in self._loop_headers[body.id]

    def loop_variant_locals(self, body, header):
        """locals (of this body) that an iteration of the loop headed at `header` may modify: assigned in the loop (whole or
        through a projection) or mutably borrowed in it"""
        import cfg
        key = (body.id, header)
        if not hasattr(self, '_variant'):
            self._variant = {}
        if key not in self._variant:
            blocks = cfg.natural_loops(body).get(header, set())
            out = set()
            for bi in blocks:
                blk = body.blocks[bi]
                if blk['cleanup']:
                    continue
                for st in blk['stmts']:
                    if st['s'] == 'assign':
                        out.add(st['p']['l'])
                        rv = st['rv']
                        if rv['r'] in ('ref', 'rawptr') and rv.get('mut', True):
                            out.add(rv['p']['l'])
                tt = blk['term']
                if tt['t'] == 'call' and bi != header:
                    out.add(tt['dest']['l'])
            self._variant[key] = out
        return self._variant[key]

    def widen(self, f, locals_, skip=()):
        """soft havoc: scalar / plain-enum state becomes TOP, documents become unknown documents; structure (closures,
        references, nodes) is kept so that dispatch still resolves"""
        seen = set()

        def soft(v, depth):
            if isinstance(v, (Const, Kind, IntGe)):
                return TOP
            if isinstance(v, Doc):
                return doc_top()
            if isinstance(v, Agg):
                if v.adt.startswith('closure:'):
                    for x in v.fields:
                        if isinstance(x, Ref) and id(x.cell) not in seen and depth < 3:
                            seen.add(id(x.cell))
                            tv = x.cell.val
                            if isinstance(tv, (Const, Kind)) or (isinstance(tv, Agg) and not tv.adt.startswith(('closure:', 'typst_syntax::ast::', 'children-of')) and tv.variant is not None and not tv.fields):
                                x.cell.val = TOP
                    return v
                if v.adt.startswith('typst_syntax::ast::') or v.adt == 'children-of':
                    return v
                if v.adt == 'vec':
                    return Agg('vec', None, [TOP])
                if v.variant is not None and not v.fields:
                    return TOP          # payload-less enum state (LookAhead, FoldStyle, ...)
                if v.variant is not None and v.adt.endswith('Option'):
                    return TOP
                a = Agg(v.adt, v.variant, [soft(x, depth + 1) for x in v.fields])
                a.subst = v.subst
                return a
            if isinstance(v, Ref):
                if id(v.cell) not in seen and depth < 3:
                    seen.add(id(v.cell))
                    v.cell.val = soft(v.cell.val, depth + 1)
                return v
            return v
        for l in locals_:
            if l in skip or l not in f.cells:
                continue
            c = f.cells[l]
            if id(c) in seen:
                continue
            seen.add(id(c))
            c.val = soft(c.val, 0)

    def frame_sig(self, f):
        def sig(v, d=0):
            if isinstance(v, Ref):
                if d > 2:
                    return '&..'
                return '&' + sig(self.load(v), d + 1)
            if isinstance(v, Agg):
                return '%s:%s(%s)' % (v.adt, v.variant, ','.join(sig(x, d + 1) for x in v.fields))
            if isinstance(v, Doc):
                return 'Doc'
            return repr(v)
        return tuple((l, sig(c.val)) for l, c in sorted(f.cells.items()) if 1 <= l <= f.body.arg_count or isinstance(c.val, (Agg, Const, Kind)))

    def default_result(self, target):
        s = target.locals[0]['ty']['s']
        if s.startswith('pretty::DocBuilder'):
            return doc_top()
        return TOP

    def default_of_type(self, ty, depth=0):
        """the value of <T as Default>::default() for the types whose default is structural (bool, integers, Option, vectors, local structs of those)"""
        if ty is None or depth > 3:
            return TOP
        k = ty.get('k')
        if k == 'bool':
            return Const(False)
        if k in ('uint', 'int'):
            return Const(0)
        if k == 'adt':
            if ty['id'] in ('core::option::Option', 'std::option::Option') or ty.get('path', '').endswith('option::Option'):
                return Agg('core::option::Option', 'None', [])
            if re.search(r'(^|::)(Vec|SmallVec|VecDeque)$', ty.get('path', '')):
                return Agg('vec', None, [Agg('vec-empty', None, [])])
            a = adt_lookup(self.w, ty['id'])
            if a and a.get('local'):
                # a Default impl of the workspace (derived or hand-written): evaluate its body; it takes no argument
                cands = [b for b in self.w.bodies.values() if b.arg_count == 0 and b.short.endswith('::default') and b.def_kind == 'AssocFn'
                         and b.locals[0]['ty'].get('k') == 'adt' and b.locals[0]['ty'].get('id') == ty['id']]
                if len(cands) == 1:
                    sub = Machine()
                    sub.frames.append(Frame(cands[0], {}))
                    try:
                        res = [r for r in self.run(sub) if hasattr(r, 'result')]
                    except PathLimit:
                        return TOP
                    if len(res) == 1:
                        return res[0].result
        return TOP

    def havoc(self, args):
        for a in args:
            if isinstance(a, Ref):
                self.store(a, TOP)

    def enter(self, m, f, t, target, args, dest, nxt, is_fn_trait):
        cells = {}
        if is_fn_trait:
            # (closure, (a, b, ..)) -> closure body params (_1 = closure env or &env, _2.. = tuple fields)
            env = args[0]
            tup = args[1] if len(args) > 1 else Agg('tuple', None, [])
            fields = list(tup.fields) if isinstance(tup, Agg) else []
            if target.def_kind == 'Closure':
                cells[1] = Cell('env', env)
                for i, v in enumerate(fields):
                    cells[2 + i] = Cell('a%d' % i, v)
            else:
                for i, v in enumerate(fields):
                    cells[1 + i] = Cell('a%d' % i, v)
        else:
            for i, v in enumerate(args):
                cells[1 + i] = Cell('a%d' % i, v)
        nf = Frame(target, cells, 0, dest)
        nf.ret_bb = nxt
        # instantiation of the callee's type parameters
        if is_fn_trait:
            env = args[0]
            if isinstance(env, Ref):
                env = self.load(env)
            nf.subst = getattr(env, 'subst', None) or {}
        else:
            sub = {}
            for i, ga in enumerate((t.get('callee') or {}).get('args', [])):
                if ga.get('k') in ('lt', 'const'):
                    continue
                if ga.get('k') == 'param':
                    if f.subst.get(ga['idx']) is not None:
                        sub[i] = f.subst[ga['idx']]
                else:
                    sub[i] = ga
            nf.subst = sub
        m.frames.append(nf)
        return None

    def summarise_converter(self, m, target, args):
        node = None
        mode = None
        supp = None
        extra = ()
        for a in args:
            if isinstance(a, Ref):
                a = self.load(a)
            n = node_of(a)
            if n is not None:
                node = n
            if isinstance(a, Agg) and a.adt.endswith('context::Context') and len(a.fields) >= 2:
                md = a.fields[0]
                mode = md.variant if isinstance(md, Agg) and md.variant else None
                supp = a.fields[1].v if isinstance(a.fields[1], Const) else None
                # further boolean fields of the context (e.g. after_hash), by position
                extra = tuple(f.v if isinstance(f, Const) else None for f in a.fields[2:])
        m.events.append(('convert', target.short, node if node is not None else TOP, mode, supp) + ((extra,) if extra else ()))
        return Doc((('conv', target.short, node if node is not None else TOP, mode, supp),))

    # ------------------------------------------------------------------ extern models
    def model_extern(self, m, f, path, rpath, args, t):
        g = self.g
        a0 = args[0] if args else None
        last = path.rsplit('::', 1)[-1]
        c = t.get('callee') if t else None
        cs = (c or {}).get('s', '') if c else ''

        def deref(v):
            if isinstance(v, Ref):
                return self.load(v)
            return v
        a0d = deref(a0)

        # --- typst_syntax::SyntaxNode
        if path == 'typst_syntax::SyntaxNode::kind':
            n = node_of(a0d)
            return Kind(n.kind) if n is not None and n.kind else TOP
        if path in ('typst_syntax::SyntaxNode::text',):
            n = node_of(a0d)
            return Text(n) if n is not None else TOP
        if path == 'typst_syntax::SyntaxNode::into_text':
            n = node_of(a0d)
            return Text(n, ('into_text',)) if n is not None else TOP
        if path in ('typst_syntax::SyntaxNode::cast', 'typst_syntax::SyntaxNode::is') or re.search(r'AstNode.*::from_untyped$', path):
            n = node_of(a0d)
            tname = None
            for ga in (c or {}).get('args', []):
                if ga.get('k') == 'adt':
                    tname = grammar.ast_type_name(ga)
                if ga.get('k') == 'param' and f.subst.get(ga['idx']) is not None:
                    tname = grammar.ast_type_name(f.subst[ga['idx']])
            if re.search(r'from_untyped$', path) and tname is None:
                st = (c or {}).get('self_ty') or {}
                tname = grammar.ast_type_name(st) if st else None
                if st.get('k') == 'param' and f.subst.get(st['idx']) is not None:
                    tname = grammar.ast_type_name(f.subst[st['idx']])
            is_is = path.endswith('::is')
            if (n is None or n.kind is None) and tname in g['kinds_of'] and getattr(self, 'unknown_node_kinds', None) is not None \
                    and not (set(g['kinds_of'][tname]) & self.unknown_node_kinds):
                # evaluation in a known syntactic mode: a node the evaluator knows nothing about (a descendant reached through an unmodelled helper)
                # is still a node of that mode - in math it is no `Ident`, `Int`, .. (those occur only directly after `#`, which the printer converts in
                # code mode; that correlation is what C13.R5 checks)
                return Const(False) if is_is else Agg('core::option::Option', 'None', [])
            if n is None or n.kind is None or tname is None or tname not in g['kinds_of']:
                if is_is:
                    return TOP
                # unknown: both outcomes
                return self.fork_values(m, [Agg('core::option::Option', 'Some', [self.typed(tname, n)]), Agg('core::option::Option', 'None', [])])
            ok = n.kind in g['kinds_of'][tname]
            if is_is:
                return Const(ok)
            if ok:
                return Agg('core::option::Option', 'Some', [self.typed(tname, n)])
            return Agg('core::option::Option', 'None', [])
        if re.search(r'AstNode.*::to_untyped$', path):
            n = node_of(a0d)
            return n if n is not None else TOP
        if path == 'typst_syntax::SyntaxNode::children':
            n = node_of(a0d)
            return Agg('children-of', None, [n if n is not None else TOP])
        if path == 'typst_syntax::SyntaxNode::clone' or re.search(r'SyntaxNode as std::clone::Clone>::clone$', cs):
            return a0d if isinstance(a0d, Node) else TOP
        if path == 'typst_syntax::SyntaxKind::is_keyword':
            return Const(a0d.name in g['keywords']) if isinstance(a0d, Kind) else TOP
        if path == 'typst_syntax::SyntaxKind::is_trivia':
            return Const(a0d.name in g['trivia']) if isinstance(a0d, Kind) else TOP
        if path == 'typst_syntax::ast::UnOp::from_kind':
            if isinstance(a0d, Kind):
                v = g['unop_from_kind'].get(a0d.name)
                return Agg('core::option::Option', 'Some', [Agg('typst_syntax::ast::UnOp', v, [])]) if v else Agg('core::option::Option', 'None', [])
            return TOP
        if path == 'typst_syntax::ast::BinOp::from_kind':
            if isinstance(a0d, Kind):
                v = g['binop_from_kind'].get(a0d.name)
                return Agg('core::option::Option', 'Some', [Agg('typst_syntax::ast::BinOp', v, [])]) if v else Agg('core::option::Option', 'None', [])
            return TOP
        if path == 'typst_syntax::ast::BinOp::as_str':
            if isinstance(a0d, Agg) and a0d.variant in g['binop_as_str']:
                return Const(g['binop_as_str'][a0d.variant])
            return TOP
        if path == "typst_syntax::ast::Expr::<'_>::is_literal":
            if isinstance(a0d, Agg) and a0d.variant:
                return Const(a0d.variant in g['expr_is_literal'])
            return TOP
        # typed accessors: return some other node of unknown kind (a rule may supply a model)
        if path.startswith('typst_syntax::ast::'):
            am = getattr(self, 'accessor_model', None)
            if am is not None:
                res = am(self, path, args)
                if res is not None:
                    return res
            return Top(path)
        # --- comparisons
        if re.search(r'PartialEq.*::(eq|ne)$', path) or re.search(r'PartialEq.*>::(eq|ne)$', rpath):
            if len(args) == 2:
                x, y = deref(args[0]), deref(args[1])
                x, y = deref(x), deref(y)
                res = None
                if isinstance(x, Kind) and isinstance(y, Kind):
                    res = x == y
                elif isinstance(x, Const) and isinstance(y, Const):
                    res = x == y
                elif isinstance(x, Agg) and isinstance(y, Agg) and x.adt == y.adt and x.variant and y.variant and not x.fields and not y.fields:
                    res = x.variant == y.variant
                elif isinstance(x, Agg) and isinstance(y, Agg) and x.adt == y.adt and x.variant and y.variant and x.variant != y.variant:
                    res = False
                elif isinstance(x, Agg) and isinstance(y, Agg) and x.adt == y.adt and x.variant and x.variant == y.variant and len(x.fields) == len(y.fields) == 1:
                    # Some(a) == Some(b) (Option<SyntaxKind>, Option<bool>, ..): structural on a known payload
                    a_, b_ = deref(x.fields[0]), deref(y.fields[0])
                    if (isinstance(a_, Kind) and isinstance(b_, Kind)) or (isinstance(a_, Const) and isinstance(b_, Const)):
                        res = a_ == b_
                if res is not None:
                    return Const(res if last == 'eq' else not res)
            return TOP
        # --- text predicates / views
        if last in ('has_linebreak',) or (last == 'contains' and len(args) == 2 and args[1] == Const('\n')):
            x = deref(a0d)
            if isinstance(x, Text) and not x.via and x.node.linebreak is not None:
                return Const(x.node.linebreak)
            return TOP
        if last == 'count_linebreaks':
            x = deref(a0d)
            if isinstance(x, Text) and not x.via and x.node.linebreak is False:
                return Const(0)
            if isinstance(x, Text) and not x.via and x.node.linebreak is True:
                return IntGe(2) if x.node.kind == 'Parbreak' else IntGe(1)
            return TOP
        if last in ('as_str', 'deref', 'as_ref', 'borrow', 'to_string', 'to_owned', 'clone', 'into', 'as_bytes') and len(args) >= 1:
            x = deref(a0d)
            if isinstance(x, (Text, Node)) or (isinstance(x, Const) and isinstance(x.v, (str, bool, int))):
                return x
            if isinstance(x, Doc):
                return x
            if isinstance(x, Agg) and last in ('clone', 'deref'):
                return x
            return TOP
        if effects_string_transform(path) and isinstance(deref(a0d), Text):
            x = deref(a0d)
            return Text(x.node, x.via + (last,))
        if last == 'get' and isinstance(a0d, Node):
            return Text(a0d, ('get',))
        # --- pretty
        if path.startswith('pretty::DocAllocator::') or path.startswith('pretty::Arena'):
            if last == 'text':
                x = deref(args[1]) if len(args) > 1 else TOP
                return Doc((('text', x if isinstance(x, (Text, Const, Top)) else TOP),))
            if last in ('hardline', 'space', 'line', 'line_', 'softline', 'softline_', 'nil'):
                m.events.append(('make', last))
                return Doc(((last,),))
            if last in ('concat', 'intersperse'):
                return doc_top()
            return doc_top()
        if path.startswith('pretty::DocBuilder') or cs.startswith('<pretty::DocBuilder'):
            if last in ('append', 'add'):
                return Doc(as_doc(a0d).atoms + as_doc(deref(args[1])).atoms)
            if last == 'add_assign':
                added = as_doc(deref(args[1]))
                m.events.append(('append', added))
                if isinstance(a0, Ref):
                    cur = self.load(a0)
                    self.store(a0, Doc(as_doc(cur).atoms + added.atoms))
                return NOTHING_VAL
            if last in ('group', 'nest', 'align', 'hang', 'indent', 'parens', 'brackets', 'braces', 'angles', 'double_quotes', 'single_quotes'):
                return Doc((('wrap', last, as_doc(a0d)),))
            if last == 'enclose':
                return Doc((('wrap', 'enclose', as_doc(a0d), as_doc(deref(args[1])), as_doc(deref(args[2]))),))
            if last == 'flat_alt':
                return Doc((('alt', as_doc(a0d), as_doc(deref(args[1]))),))
            if last in ('clone', 'deref'):
                return a0d
            if last == 'repeat_n':
                return Doc((('wrap', 'repeat', as_doc(a0d)),))
            return doc_top()
        # --- collections that queue documents / nodes: emissions.  A vector is abstracted by its last element.
        if re.search(r'(Vec|SmallVec|VecDeque)::<.*>::(push|push_back|insert|extend|push_front)$', path) or \
                re.search(r'(Vec|SmallVec).* as std::iter::Extend<.*>>::extend$', cs):
            vals = [deref(a) for a in args[1:]]
            m.events.append(('push', last) + tuple(vals))
            if isinstance(a0, Ref):
                if last in ('push', 'push_back') and len(vals) == 1:
                    self.store(a0, Agg('vec', None, [vals[0]]))
                else:
                    self.store(a0, Agg('vec', None, [TOP]))
            return NOTHING_VAL
        if re.search(r'(Vec|SmallVec).* as std::default::Default>::default$', cs) or re.search(r'(Vec|SmallVec)::<.*>::new$', path):
            return Agg('vec', None, [Agg('vec-empty', None, [])])
        if isinstance(a0d, Agg) and a0d.adt == 'vec':
            lastv = a0d.fields[0]
            known_empty = isinstance(lastv, Agg) and lastv.adt == 'vec-empty'
            known_last = not known_empty and not isinstance(lastv, Top)
            if last in ('deref', 'deref_mut', 'as_slice', 'as_mut_slice', 'iter', 'clone'):
                return a0d
            if last == 'is_empty':
                return Const(True) if known_empty else (Const(False) if known_last else TOP)
            if last in ('last', 'last_mut'):
                if known_empty:
                    return Agg('core::option::Option', 'None', [])
                if known_last:
                    if last == 'last_mut' and isinstance(a0, Ref):
                        return Agg('core::option::Option', 'Some', [Ref(a0.cell, a0.proj + (('f', 0),))])
                    return Agg('core::option::Option', 'Some', [lastv])
                return TOP
            if last in ('pop', 'drain', 'clear', 'truncate', 'remove', 'retain', 'swap_remove', 'pop_back', 'pop_front', 'split_off', 'dedup', 'dedup_by', 'dedup_by_key'):
                m.events.append(('unqueue', last, lastv))
                if isinstance(a0, Ref):
                    self.store(a0, Agg('vec', None, [TOP]))
                return TOP
            return TOP
        if last in ('split_first', 'split_last') and getattr(self, 'peel_cb', None) is not None:
            items = self.peel_cb(self, m, f, t, last)
            if items is not None:
                outs = []
                for it in items:
                    if it is None:
                        outs.append(Agg('core::option::Option', 'None', []))
                    else:
                        outs.append(Agg('core::option::Option', 'Some', [Agg('tuple', None, [it, a0d if a0d is not None else TOP])]))
                forks = self.fork_values(m, outs)
                for (mm, val), it in zip(forks, items):
                    mm.events.append(('peel', last, it))
                return forks
        # --- bool::then_some / bool::then: Some(..) on true, None on false; an unknown condition forks
        if re.search(r'bool::<impl bool>::then_some$', path):
            some = Agg('core::option::Option', 'Some', [deref(args[1]) if len(args) > 1 else TOP])
            none = Agg('core::option::Option', 'None', [])
            if isinstance(a0d, Const):
                return some if a0d.v else none
            forks = self.fork_values(m, [some, none])
            for (mm, val), lab in zip(forks, (True, False)):
                mm.assumed.append((f.body.short, f.bb, None, getattr(a0d, 'src', None), lab))
            return forks
        if re.search(r'bool::<impl bool>::then$', path):
            none = Agg('core::option::Option', 'None', [])
            if isinstance(a0d, Const) and not a0d.v:
                return none
            m_none = None if isinstance(a0d, Const) else fork(m)     # fork before the closure's events are recorded
            if m_none is not None:
                m.assumed.append((f.body.short, f.bb, None, getattr(a0d, 'src', None), True))
                m_none.assumed.append((f.body.short, f.bb, None, getattr(a0d, 'src', None), False))
            some = self.option_hof(m, f, t, 'map', Agg('core::option::Option', 'Some', [NOTHING_VAL]), args, unit_arg=True)
            if m_none is None:
                return some
            return [(m, some), (m_none, none)]
        # --- std::mem: the value behind a &mut is read and replaced
        if path in ('std::mem::take', 'core::mem::take') and isinstance(a0, Ref):
            oldv = self.load(a0)
            dty = f.body.locals[t['dest']['l']]['ty'] if t and not t['dest']['proj'] else None
            self.store(a0, self.default_of_type(dty))
            return oldv
        if path in ('std::mem::replace', 'core::mem::replace') and isinstance(a0, Ref) and len(args) > 1:
            oldv = self.load(a0)
            self.store(a0, deref(args[1]) if not isinstance(args[1], Ref) else self.load(args[1]))
            return oldv
        if path in ('std::mem::swap', 'core::mem::swap') and len(args) > 1 and isinstance(a0, Ref) and isinstance(args[1], Ref):
            x, y = self.load(a0), self.load(args[1])
            self.store(a0, y)
            self.store(args[1], x)
            return NOTHING_VAL
        # --- Option helpers: an unknown receiver of a closure-taking combinator is explored as Some(unknown) and as None (so that the closure's
        #     conversions are seen: `opt.map(|c| self.convert_a(c)).unwrap_or(self.convert_b())`)
        if path.startswith('std::option::Option::<T>::') and last in ('map', 'and_then', 'unwrap_or_else', 'or_else', 'is_some_and', 'is_none_or', 'filter', 'map_or', 'map_or_else') \
                and not (isinstance(a0d, Agg) and a0d.adt.endswith('Option')) and not getattr(self, '_in_opt_fork', False) \
                and any(isinstance(deref(a), Agg) and deref(a).adt.startswith('closure:') for a in args[1:]):
            m_none = fork(m)
            outs = []
            self._in_opt_fork = True
            try:
                for mm, recv in ((m, Agg('core::option::Option', 'Some', [Top('payload of ' + path.rsplit('::', 1)[-1])])), (m_none, Agg('core::option::Option', 'None', []))):
                    ff = mm.frames[-1]
                    a2 = [recv] + [self.eval_operand(mm, ff, a) for a in t['args'][1:]]
                    val = self.model_extern(mm, ff, path, rpath, a2, t)
                    if isinstance(val, list):
                        outs.extend(val)
                    else:
                        outs.append((mm, val))
            finally:
                self._in_opt_fork = False
            return outs
        # --- Option helpers with constant receivers
        if path.startswith('std::option::Option::<T>::'):
            x = a0d
            if isinstance(x, Agg) and x.adt.endswith('Option'):
                if last == 'is_some':
                    return Const(x.variant == 'Some')
                if last == 'is_none':
                    return Const(x.variant == 'None')
                if last in ('unwrap', 'expect', 'unwrap_or_default', 'unwrap_or', 'unwrap_or_else') and x.variant == 'Some':
                    return x.fields[0]
                if last == 'unwrap_or' and x.variant == 'None':
                    return deref(args[1])
                if last in ('map', 'and_then', 'is_some_and', 'filter', 'is_none_or'):
                    return self.option_hof(m, f, t, last, x, args)
                if last in ('or_else', 'or') and x.variant == 'Some':
                    return x
                if last == 'or' and x.variant == 'None' and len(args) > 1:
                    return deref(args[1])
                if last == 'or_else' and x.variant == 'None':
                    # runs the closure (no argument); its result (an Option) is the value
                    some = self.option_hof(m, f, t, 'map', Agg('core::option::Option', 'Some', [NOTHING_VAL]), args, unit_arg=True)
                    if isinstance(some, Agg) and some.variant == 'Some':
                        return some.fields[0]
                    return TOP
                if last == 'flatten' and x.variant == 'Some' and isinstance(x.fields[0], Agg) and x.fields[0].adt.endswith('Option'):
                    return x.fields[0]
                if last == 'flatten' and x.variant == 'None':
                    return x
                if last in ('map_or', 'map_or_else') and len(args) >= 3:
                    # opt.map_or(d, f) / opt.map_or_else(d, f): Some(x) => f(x); None => d / d()
                    if x.variant == 'Some':
                        some = self.option_hof(m, f, t, 'map', x, [args[0], args[2]])
                        return some.fields[0] if isinstance(some, Agg) and some.variant == 'Some' else TOP
                    if last == 'map_or':
                        return deref(args[1])
                    some = self.option_hof(m, f, t, 'map', Agg('core::option::Option', 'Some', [NOTHING_VAL]), [args[0], args[1]], unit_arg=True)
                    return some.fields[0] if isinstance(some, Agg) and some.variant == 'Some' else TOP
                if last == 'unwrap_or_else' and x.variant == 'None':
                    # runs the closure (no argument); its result is the value
                    some = self.option_hof(m, f, t, 'map', Agg('core::option::Option', 'Some', [NOTHING_VAL]), args, unit_arg=True)
                    if isinstance(some, Agg) and some.variant == 'Some':
                        return some.fields[0]
                    return TOP
            return TOP
        if re.search(r'Try>::branch$|Try::branch$', path) or re.search(r'Try>::branch$', rpath):
            x = a0d
            if isinstance(x, Agg) and x.adt.endswith('Option'):
                if x.variant == 'Some':
                    return Agg('core::ops::control_flow::ControlFlow', 'Continue', [x.fields[0]])
                return Agg('core::ops::control_flow::ControlFlow', 'Break', [Agg('core::option::Option', 'None', [])])
            return TOP
        if re.search(r'FromResidual.*from_residual$', path) or re.search(r'FromResidual.*from_residual$', rpath):
            if 'Option' in cs:
                return Agg('core::option::Option', 'None', [])
            return TOP
        if path == 'std::iter::Iterator::next' or path.endswith('Iterator>::next'):
            return TOP
        if last in ('into_iter', 'iter', 'as_slice', 'take_while', 'skip_while', 'skip', 'filter', 'by_ref', 'peekable', 'take', 'deref', 'deref_mut') \
                and isinstance(a0d, Agg) and a0d.adt == 'children-of':
            return a0d
        if isinstance(a0d, Agg) and a0d.adt == 'children-of':
            if last == 'get' and len(args) > 1 and not isinstance(deref(args[1]), (Const, IntGe)):
                # a sub-range of the children: abstracted by the same sequence (the empty / None case iterates nothing and emits nothing)
                return Agg('core::option::Option', 'Some', [a0d])
            if last == 'index' and len(args) > 1 and isinstance(deref(args[1]), Agg) and 'Range' in deref(args[1]).adt:
                return a0d
            if last in ('split_at', 'split_at_mut') and len(args) > 1:
                # both halves are sub-sequences of the children: each abstracted by the same sequence
                return Agg('tuple', None, [a0d, a0d])
            if last in ('last', 'first') and getattr(self, 'children_edge_hint', None) and self.children_edge_hint.get(last) is not None:
                # sequence evaluation with a known final (first) element of the iterated sub-sequence
                return Agg('core::option::Option', 'Some', [self.children_edge_hint[last]])
        # anything else is unknown
        self.havoc([a for a in args if isinstance(a, Ref) and self._mutably_passed(t, args.index(a))])
        return Top(path)

    def _mutably_passed(self, t, idx):
        return True

    def typed(self, tname, n):
        """value of a successful cast::<T>(n)"""
        g = self.g
        if n is None:
            return TOP
        if tname in g['variant_of'] and n.kind in g['variant_of'][tname]:
            path = g['variant_of'][tname][n.kind]
            # nested enums: Pattern::Normal(Expr::Ident(node))
            val = n
            types = [tname]
            cur = tname
            for v in path[:-1]:
                cur = g['enum_payloads'][cur][v]
                types.append(cur)
            for ty, v in reversed(list(zip(types, path))):
                val = Agg('typst_syntax::ast::' + ty, v, [val])
            return val
        return n      # node! wrapper: represented by the node itself

    def fork_values(self, m, values):
        """returns [(machine, value)]: the current machine continues with values[0], clones with the rest"""
        out = [(m, values[0])]
        for v in values[1:]:
            out.append((fork(m), v))
        return out

    def option_hof(self, m, f, t, which, opt, args, unit_arg=False):
        if opt.variant == 'None':
            if which in ('map', 'and_then', 'filter'):
                return Agg('core::option::Option', 'None', [])
            if which == 'is_some_and':
                return Const(False)
            if which == 'is_none_or':
                return Const(True)
        # Some(x): would need to run the closure; do it when it is a local closure
        fv = args[1] if len(args) > 1 else None
        if isinstance(fv, Agg) and fv.adt.startswith('closure:'):
            body = self.w.bodies.get(fv.adt[len('closure:'):])
            if body is not None and len(m.frames) < self.max_depth:
                # synthesise a nested run: closure(env, (payload,)) ; result mapped after return by a continuation marker
                sub = Machine()
                sub.events = m.events
                cells = {1: Cell('env', fv)}
                if not unit_arg:
                    cells[2] = Cell('a0', opt.fields[0])
                sub.frames.append(Frame(body, cells))
                sub.visits = {}
                try:
                    res = self.run(sub)
                except PathLimit:
                    return TOP
                vals = []
                for r_ in res:
                    if hasattr(r_, 'result'):
                        vals.append(r_.result)
                if len(vals) == 1:
                    v = vals[0]
                    if which == 'map':
                        return Agg('core::option::Option', 'Some', [v])
                    if which in ('and_then',):
                        return v
                    if which in ('is_some_and', 'is_none_or'):
                        return v if isinstance(v, Const) else TOP
                    if which == 'filter':
                        if isinstance(v, Const):
                            return opt if v.v else Agg('core::option::Option', 'None', [])
                return TOP
        if isinstance(fv, FnVal):
            body = self.w.bodies.get(fv.def_id)
            if body is not None and self.converter_pred(body) and which == 'map':
                return Agg('core::option::Option', 'Some', [self.summarise_converter(m, body, [opt.fields[0]])])
        return TOP


NOTHING = object()
NOTHING_VAL = Agg('tuple', None, [])


def effects_string_transform(path):
    import effects
    return bool(effects.STRING_TRANSFORM.search(path))


def fork(m):
    """copy a machine: cells are cloned (identity-preserving for Refs), bodies and immutable values are shared"""
    memo = {}

    def ccell(c):
        k = id(c)
        if k not in memo:
            nc = Cell(c.name)
            memo[k] = nc
            nc.val = cval(c.val)
        return memo[k]

    def cval(v):
        if isinstance(v, Ref):
            return Ref(ccell(v.cell), v.proj)
        if isinstance(v, Agg):
            a = Agg(v.adt, v.variant, [cval(x) for x in v.fields])
            a.subst = getattr(v, 'subst', None)
            return a
        return v
    m2 = Machine()
    for f in m.frames:
        nf = Frame(f.body, {l: ccell(c) for l, c in f.cells.items()}, f.bb, None)
        nf.si = f.si
        nf.ret_to = cval(f.ret_to) if f.ret_to is not None else None
        nf.ret_bb = f.ret_bb
        nf.subst = f.subst
        nf.loops = dict(getattr(f, 'loops', {}))
        m2.frames.append(nf)
    m2.events = [(e[0],) + tuple(cval(x) for x in e[1:]) for e in m.events]
    m2.trace = list(m.trace)
    m2.visits = dict(m.visits)
    m2.assumed = list(m.assumed)
    m2.dead = m.dead
    m2.finished = m.finished
    m2.iter = [dict(x) for x in m.iter] if m.iter else None
    m2.passed_loops = list(getattr(m, 'passed_loops', []))
    for k in ('result',):
        if hasattr(m, k):
            setattr(m2, k, cval(getattr(m, k)))
    return m2


def node_of(v):
    """the Node inside a (possibly typed / wrapped) node value"""
    if isinstance(v, Node):
        return v
    if isinstance(v, Agg) and v.adt.startswith('typst_syntax::ast::') and v.fields:
        return node_of(v.fields[0])
    if isinstance(v, Agg) and v.adt == 'children-of':
        return None
    return None


def is_fn_trait_closure(target):
    return False


_EXTRACTED = {}


def extracted_dispatch_helper(w, b):
    """a private function with exactly one call site that takes an *untyped* node and hands that same node on to converters: a piece of a dispatch
    loop moved into a helper (`convert_markup_child(ctx, node, mixed)`), which is entered like the loop body it was, not summarised as a converter"""
    key = (id(w), b.id)
    if key in _EXTRACTED:
        return _EXTRACTED[key]
    res = False
    try:
        untyped = [i for i in range(1, b.arg_count + 1) if b.locals[i]['ty']['s'].startswith('&typst_syntax::SyntaxNode')]
        if untyped and not b.j.get('is_pub') and b.def_kind in ('Fn', 'AssocFn'):
            sites = 0
            for cb in w.fn_bodies(w.core):
                for _, t in cb.calls():
                    if resolved_id(t) == b.id:
                        sites += 1
                for blk in cb.blocks:
                    for a in (blk['term'].get('args') or []) if blk['term']['t'] == 'call' else []:
                        if a.get('o') == 'const' and 'fn' in a and a['fn']['def']['id'] == b.id:
                            sites += 2
            # it dispatches: calls at least two different local converters
            callees = {resolved_id(t) for _, t in b.calls() if resolved_id(t) in w.bodies and default_converter_pred(w.bodies[resolved_id(t)])}
            res = sites == 1 and len(callees) >= 2
    except Exception:
        res = False
    _EXTRACTED[key] = res
    return res


def default_converter_pred(b):
    """local functions that turn a node into a document and are not generic layout helpers"""
    if b.def_kind == 'Closure':
        return False
    ret = b.locals[0]['ty']['s']
    if not ret.startswith('pretty::DocBuilder'):
        return False
    has_node = False
    has_fn = False
    for i in range(1, b.arg_count + 1):
        s = b.locals[i]['ty']['s']
        if s.startswith('&typst_syntax::SyntaxNode') or s.startswith('typst_syntax::ast::'):
            has_node = True
        if s.startswith('impl Fn') or s.startswith('impl FnMut') or s.startswith('impl FnOnce') or s.startswith('impl Iterator'):
            has_fn = True
    return has_node and not has_fn
