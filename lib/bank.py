"""Checker self-validation bank (thorough tier).

For each property a committed list of small source variants (bank/<ID>.json):
  * breaking variants - a realistic edit that breaks the property while still compiling (guard deleted, branch dropped,
    literal 2 for the indent unit, writer added outside the owner, `?` inside the batch loop, the independently seeded
    defects under seeded/) - each must be REPORTED by the property's rules with a finding whose key contains one of
    the `expect` substrings (so the report names the broken instance);
  * benign variants - behaviour-preserving edits (renamed locals, reordered arms, `if let` <-> `match`, helper
    extracted) - each must stay SILENT.
Every variant is applied to a scratch copy of the CURRENT tree (TYLINT_REPO or /repo) in a temporary directory outside
/repo and /verif, facts are extracted from the copy with the same driver, the property's rules are run on them, and the
copy (with its fact files) is deleted immediately afterwards.  Nothing is executed: the variants are only compiled to MIR.

The bank decides nothing about the property: the verdict of a check is always the one computed on the tree itself.  A
variant that no longer applies to the current source is reported as "skipped"; a variant that is not judged as expected
is reported as a checker weakness ("SELFTEST-MISS") in the output and in the evidence file, never as a VIOLATION.
"""
import importlib, json, os, shutil, subprocess, sys, tempfile, time
from concurrent.futures import ThreadPoolExecutor

VERIF = os.path.dirname(os.path.dirname(os.path.abspath(__file__)))
BANK = os.path.join(VERIF, 'bank')


def load(pid):
    p = os.path.join(BANK, '%s.json' % pid)
    if not os.path.exists(p):
        return []
    return json.load(open(p))


def apply_entry(entry, d):
    """returns None if applied, else the reason it does not apply"""
    for (f, old, new) in entry.get('subs', []):
        p = os.path.join(d, f)
        if not os.path.exists(p):
            return 'file %s is gone' % f
        s = open(p).read()
        if old not in s:
            return 'pattern not found in %s' % f
        open(p, 'w').write(s.replace(old, new, 1))
    if entry.get('patch'):
        pp = os.path.join(VERIF, entry['patch'])
        r = subprocess.run(['patch', '-p1', '-s', '--dry-run', '-d', d, '-i', pp], stdout=subprocess.PIPE, stderr=subprocess.STDOUT, text=True)
        if r.returncode != 0:
            return 'patch %s does not apply' % entry['patch']
        subprocess.check_call(['patch', '-p1', '-s', '-d', d, '-i', pp], stdout=subprocess.DEVNULL)
    return None


def worker(pid, idx):
    """runs in its own process: prints one JSON line"""
    sys.path.insert(0, os.path.join(VERIF, 'lib'))
    import extract, framework
    from world import World
    entry = load(pid)[idx]
    out = {'name': entry['name'], 'kind': entry['kind']}
    t0 = time.time()
    d = tempfile.mkdtemp(prefix='tybank-')
    try:
        subprocess.check_call(['rsync', '-a', '--exclude', 'target', '--exclude', '.git', '--exclude', 'web', '--exclude', 'docs',
                               '--exclude', 'tests/fixtures', extract.REPO.rstrip('/') + '/', d + '/'])
        why = apply_entry(entry, d)
        if why:
            out.update(status='skipped', why=why)
            return out
        try:
            fd, info = extract.extract('default', repo=d, facts_root=os.path.join(d, '.facts'))
        except extract.ExtractError as e:
            out.update(status='skipped', why='variant does not compile on this tree: %s' % str(e)[-300:])
            return out
        w = World(fd, 'default', info)
        mod = importlib.import_module('rules.%s' % pid.lower())
        thunks = [(f.__name__, (lambda f=f: f(w))) for f in mod.RULES]
        results = framework.collect(pid, thunks)
        known = {k['key'] for k in framework.load_known() if k.get('property') == pid and k.get('status') == 'known'}
        keys = sorted({f.key for r in results for f in r.findings if f.key not in known})
        out['reported'] = keys[:12]
        if entry['kind'] == 'breaking':
            exp = entry.get('expect') or ['']
            hit = [k for k in keys if any(e in k for e in exp)]
            out['status'] = 'caught' if hit else 'missed'
            out['matched'] = hit[:4]
        else:
            out['status'] = 'silent' if not keys else 'false-alarm'
        return out
    finally:
        shutil.rmtree(d, ignore_errors=True)
        out['wall_s'] = round(time.time() - t0, 1)


def run(pid, jobs=6):
    """run every bank entry of the property; returns the summary dict that goes into the evidence file"""
    entries = load(pid)
    if not entries:
        return {'variants': 0, 'note': 'no bank for this property'}
    env = dict(os.environ)
    env['PYTHONPATH'] = os.path.join(VERIF, 'lib')

    def one(i):
        p = subprocess.run([sys.executable, os.path.abspath(__file__), '--worker', pid, str(i)], env=env, stdout=subprocess.PIPE, stderr=subprocess.PIPE, text=True)
        last = [l for l in p.stdout.splitlines() if l.startswith('{')]
        if p.returncode != 0 or not last:
            return {'name': entries[i]['name'], 'kind': entries[i]['kind'], 'status': 'error', 'why': (p.stderr or p.stdout)[-400:]}
        return json.loads(last[-1])
    with ThreadPoolExecutor(max_workers=jobs) as ex:
        outs = list(ex.map(one, range(len(entries))))
    summ = {'variants': len(outs),
            'breaking': sum(1 for o in outs if o['kind'] == 'breaking'),
            'caught': sum(1 for o in outs if o['status'] == 'caught'),
            'benign': sum(1 for o in outs if o['kind'] == 'benign'),
            'silent': sum(1 for o in outs if o['status'] == 'silent'),
            'skipped': [o['name'] for o in outs if o['status'] == 'skipped'],
            'misses': [o['name'] for o in outs if o['status'] in ('missed', 'false-alarm', 'error')],
            'results': outs}
    return summ


def report(pid, summ):
    if not summ.get('variants'):
        return
    print('  self-validation bank: %d breaking variants, %d reported; %d benign variants, %d silent; %d skipped'
          % (summ['breaking'], summ['caught'], summ['benign'], summ['silent'], len(summ['skipped'])))
    for o in summ['results']:
        if o['status'] in ('missed', 'false-alarm', 'error'):
            print('  SELFTEST-MISS property=%s variant=%s kind=%s status=%s %s' % (pid, o['name'], o['kind'], o['status'], o.get('reported') or o.get('why', '')))
        elif o['status'] == 'skipped':
            print('  self-test skipped: %s (%s)' % (o['name'], o.get('why', '')))


if __name__ == '__main__':
    if len(sys.argv) >= 4 and sys.argv[1] == '--worker':
        print(json.dumps(worker(sys.argv[2], int(sys.argv[3]))))
    else:
        pid = sys.argv[1]
        s = run(pid)
        report(pid, s)
        for o in s.get('results', []):
            print('   %-10s %-12s %-50s %5.1fs %s' % (o['kind'], o['status'], o['name'], o.get('wall_s', 0), (o.get('matched') or o.get('reported') or [''])[:2]))
