"""The analysed program: both product crates, resolved call graph (E1)."""
import os
from mirfacts import load_all, resolved_id, callee_path


def iter_operands_stmt(s):
    if s['s'] != 'assign':
        return
    rv = s['rv']
    for k in ('op', 'a', 'b'):
        if k in rv and isinstance(rv[k], dict):
            yield rv[k]
    for o in rv.get('ops', []):
        yield o


class World:
    def __init__(self, facts_dir, config='default', extract_info=None):
        self.facts_dir = facts_dir
        self.config = config
        self.extract_info = extract_info or {}
        self.crates = load_all(facts_dir)
        self.core = self.crates.get('typstyle_core')
        self.cli = self.crates.get('typstyle')
        self.bodies = {}
        for c in self.crates.values():
            self.bodies.update(c.bodies)
        self._cg = None
        # dispatch loops written as iterator pipelines consumed by the arena are read as the loops they stand for (inline.py)
        if self.core is not None:
            try:
                import inline
                for b in list(self.fn_bodies(self.core)):
                    nb = inline.pipelines_desugared(self, b)
                    if nb is not None:
                        self.bodies[b.id] = nb
                        if b.id in self.core.bodies:
                            self.core.bodies[b.id] = nb
            except Exception:
                pass

    def n_bodies(self):
        return len(self.bodies)

    def fn_bodies(self, crate=None):
        for b in self.bodies.values():
            if b.promoted is None and b.def_kind in ('Fn', 'AssocFn', 'Closure'):
                if crate is None or b.crate is crate:
                    yield b

    # ------------------------------------------------------------------ call graph
    def callgraph(self):
        if self._cg is not None:
            return self._cg
        edges = {}
        ext = {}
        for b in self.fn_bodies():
            es = edges.setdefault(b.id, set())
            xs = ext.setdefault(b.id, [])
            for bi, blk in enumerate(b.blocks):
                if blk['cleanup']:
                    continue
                for s in blk['stmts']:
                    if s['s'] == 'assign' and s['rv']['r'] == 'agg' and s['rv']['ak'] == 'closure':
                        cid = s['rv']['def']['id']
                        if cid in self.bodies:
                            es.add(cid)
                    for o in iter_operands_stmt(s):
                        if o['o'] == 'const' and 'fn' in o:
                            fid = o['fn']['def']['id']
                            if fid in self.bodies:
                                es.add(fid)
                            else:
                                xs.append((bi, None, o['fn']['def']['path'], o['fn']))
                t = blk['term']
                if t['t'] == 'call':
                    for o in t['args'] + ([t['func']] if 'func' in t else []):
                        if o['o'] == 'const' and 'fn' in o:
                            fid = o['fn']['def']['id']
                            if fid in self.bodies:
                                es.add(fid)
                            else:
                                xs.append((bi, None, o['fn']['def']['path'], o['fn']))
                    c = t.get('callee')
                    if c is None:
                        xs.append((bi, t, '<indirect>', None))
                        continue
                    rid = resolved_id(t)
                    if rid in self.bodies:
                        es.add(rid)
                    elif c['def']['id'] in self.bodies:
                        es.add(c['def']['id'])
                    else:
                        r = c.get('resolved')
                        path = r['def']['path'] if r else c['def']['path']
                        xs.append((bi, t, path, c))
        self._cg = (edges, ext)
        return self._cg

    def reachable(self, roots):
        edges, _ = self.callgraph()
        seen = set()
        work = list(roots)
        while work:
            x = work.pop()
            if x in seen:
                continue
            seen.add(x)
            work.extend(edges.get(x, ()))
        return seen

    def extern_calls(self, body_id):
        return self.callgraph()[1].get(body_id, [])
