"""Fact extraction: run the tylint driver over /repo's current working tree.

The fact base is a pure function of (driver binary, build configuration, the bytes of every file
cargo reads from the workspace).  We therefore key extractions by a content hash of exactly
those inputs: a run whose inputs hash to a key that was already extracted *by this driver
binary* reuses the stored facts, anything else re-runs cargo with a fresh nonce and fails closed
if the fact file does not carry that nonce (cargo's freshness cache silently skipping the
wrapper is the known failure mode).
"""
import fcntl, hashlib, json, os, shutil, subprocess, sys, time, uuid

VERIF = os.path.dirname(os.path.dirname(os.path.abspath(__file__)))
REPO = os.environ.get('TYLINT_REPO', '/repo')
WORK = os.path.join(VERIF, '.work')
DRIVER = os.path.join(VERIF, 'tylint', 'target', 'debug', 'tylint')

CONFIGS = {
    # name: (cargo args)
    'default': ['-p', 'typstyle-core', '-p', 'typstyle'],
    'core-serde': ['-p', 'typstyle-core', '--features', 'serde'],
    'core-wasm': ['-p', 'typstyle-core', '--features', 'wasm'],
    'cli-minimal': ['-p', 'typstyle', '--no-default-features'],
}


class ExtractError(Exception):
    pass


def _sysroot():
    return subprocess.check_output(['rustc', '+nightly', '--print', 'sysroot'], text=True,
                                   stderr=subprocess.DEVNULL).strip()


def source_hash(repo=REPO):
    h = hashlib.sha256()
    files = []
    for top in ('crates',):
        for root, dirs, fs in os.walk(os.path.join(repo, top)):
            dirs[:] = sorted(d for d in dirs if d not in ('target', '.git', 'snapshots', 'fixtures'))
            for f in sorted(fs):
                if f.endswith(('.rs', '.toml')):
                    files.append(os.path.join(root, f))
    for f in ('Cargo.toml', 'Cargo.lock', 'rust-toolchain.toml', 'rust-toolchain', '.cargo/config.toml'):
        p = os.path.join(repo, f)
        if os.path.exists(p):
            files.append(p)
    # tests/ workspace member manifest (cargo reads it to resolve the workspace)
    p = os.path.join(repo, 'tests', 'Cargo.toml')
    if os.path.exists(p):
        files.append(p)
    for p in files:
        h.update(os.path.relpath(p, repo).encode())
        h.update(b'\0')
        with open(p, 'rb') as fh:
            h.update(fh.read())
        h.update(b'\0')
    with open(DRIVER, 'rb') as fh:
        h.update(hashlib.sha256(fh.read()).digest())
    return h.hexdigest()[:24]


def extract(config='default', repo=REPO, force=False, log=None, facts_root=None):
    """Returns (facts_dir, info dict).  facts_root: where to keep the fact files (default .work/facts, pruned to the newest 8;
    the self-validation bank passes a directory inside its scratch copy, which is exempt from pruning and deleted with the copy)."""
    if not os.path.exists(DRIVER):
        raise ExtractError('driver not built: run setup_cmd (./setup.sh)')
    os.makedirs(WORK, exist_ok=True)
    t0 = time.time()
    key = source_hash(repo)
    private = facts_root is not None
    facts_root = facts_root or os.path.join(WORK, 'facts')
    os.makedirs(facts_root, exist_ok=True)
    out = os.path.join(facts_root, '%s-%s' % (config, key))
    lock_path = os.path.join(WORK, 'extract.lock')
    with open(lock_path, 'w') as lock:
        fcntl.flock(lock, fcntl.LOCK_EX)
        stamp = os.path.join(out, 'STAMP.json')
        if os.path.exists(stamp) and not force:
            info = json.load(open(stamp))
            info['reused'] = True
            info['wall_s'] = round(time.time() - t0, 2)
            return out, info
        if os.path.exists(out):
            shutil.rmtree(out)
        os.makedirs(out)
        nonce = uuid.uuid4().hex
        target = os.path.join(WORK, 'target-' + config)
        # cargo's freshness cache would skip the wrapper for unchanged members: drop their fingerprints
        fp = os.path.join(target, 'debug', '.fingerprint')
        if os.path.isdir(fp):
            for d in os.listdir(fp):
                if d.startswith('typstyle'):
                    shutil.rmtree(os.path.join(fp, d), ignore_errors=True)
        env = dict(os.environ)
        env.update({
            'LD_LIBRARY_PATH': os.path.join(_sysroot(), 'lib'),
            'RUSTFLAGS': '-Zmir-opt-level=0 -Awarnings',
            'RUSTC_WORKSPACE_WRAPPER': DRIVER,
            'TYLINT_OUT': out,
            'TYLINT_NONCE': nonce,
            'CARGO_TARGET_DIR': target,
            'CARGO_NET_OFFLINE': 'true',
            'CARGO_INCREMENTAL': '0',
        })
        cmd = ['cargo', '+nightly', 'check', '--offline', '--locked'] + CONFIGS[config]
        p = subprocess.run(cmd, cwd=repo, env=env, stdout=subprocess.PIPE, stderr=subprocess.STDOUT, text=True)
        if log:
            log.write(p.stdout)
        if p.returncode != 0:
            shutil.rmtree(out, ignore_errors=True)
            raise ExtractError('cargo check failed (config %s):\n%s' % (config, p.stdout[-4000:]))
        found = [f for f in os.listdir(out) if f.endswith('.json')]
        if not found:
            shutil.rmtree(out, ignore_errors=True)
            raise ExtractError('driver produced no fact file (config %s) - wrapper skipped?' % config)
        for f in found:
            with open(os.path.join(out, f)) as fh:
                head = fh.read(200)
            if nonce not in head:
                shutil.rmtree(out, ignore_errors=True)
                raise ExtractError('stale fact file %s: nonce mismatch' % f)
        info = {'config': config, 'key': key, 'nonce': nonce, 'files': sorted(found), 'cmd': ' '.join(cmd),
                'reused': False, 'extract_s': round(time.time() - t0, 2)}
        json.dump(info, open(stamp, 'w'))
        # keep the facts directory small: drop extractions older than the newest 6
        if not private:
            entries = sorted((os.path.getmtime(os.path.join(facts_root, d)), d) for d in os.listdir(facts_root))
            for _, d in entries[:-8]:
                shutil.rmtree(os.path.join(facts_root, d), ignore_errors=True)
        info['wall_s'] = round(time.time() - t0, 2)
        return out, info


if __name__ == '__main__':
    cfg = sys.argv[1] if len(sys.argv) > 1 else 'default'
    d, info = extract(cfg, force='--force' in sys.argv)
    print(d, info)
