"""Frozen grammar tables for the pinned typst-syntax version (transcribed from ast.rs / kind.rs /
lexer.rs / parser.rs; see tools/derive_grammar.py).  Fails closed on version drift."""
import json, os, re

HERE = os.path.dirname(os.path.dirname(os.path.abspath(__file__)))
PINNED = '0.13.1'
_G = None


class GrammarVersionError(Exception):
    pass


def load(repo='/repo'):
    global _G
    if _G is not None:
        return _G
    lock = open(os.path.join(os.environ.get('TYLINT_REPO', repo), 'Cargo.lock')).read()
    m = re.search(r'name = "typst-syntax"\nversion = "([^"]+)"', lock)
    ver = m.group(1) if m else None
    if ver != PINNED:
        raise GrammarVersionError('Cargo.lock pins typst-syntax %s but the grammar tables were transcribed from %s' % (ver, PINNED))
    _G = json.load(open(os.path.join(HERE, 'tables', 'typst_syntax_%s.json' % PINNED)))
    _G['spelling'].update(PUNCT)
    return _G


# fixed spellings of punctuation kinds (lexer.rs); keyword spellings come from the derived table
PUNCT = {
    'LeftBrace': '{', 'RightBrace': '}', 'LeftBracket': '[', 'RightBracket': ']', 'LeftParen': '(', 'RightParen': ')',
    'Comma': ',', 'Semicolon': ';', 'Colon': ':', 'Star': '*', 'Underscore': '_', 'Dollar': '$', 'Plus': '+', 'Minus': '-',
    'Slash': '/', 'Hat': '^', 'Dot': '.', 'Eq': '=', 'EqEq': '==', 'ExclEq': '!=', 'Lt': '<', 'LtEq': '<=', 'Gt': '>',
    'GtEq': '>=', 'PlusEq': '+=', 'HyphEq': '-=', 'StarEq': '*=', 'SlashEq': '/=', 'Dots': '..', 'Arrow': '=>', 'Hash': '#',
    'Prime': "'",
}


def kinds_of(ty_name):
    """SyntaxKinds for which SyntaxNode::cast::<T>() returns Some; ty_name is the last path segment of T"""
    g = load()
    return set(g['kinds_of'].get(ty_name, ()))


def ast_type_name(ty_json_or_str):
    s = ty_json_or_str['s'] if isinstance(ty_json_or_str, dict) else ty_json_or_str
    m = re.match(r"^(?:typst_syntax::)?ast::(\w+)<", s)
    return m.group(1) if m else None
