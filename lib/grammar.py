"""Frozen grammar tables for the pinned typst-syntax version (transcribed from ast.rs / kind.rs /
lexer.rs / parser.rs; see tools/derive_grammar.py).  Fails closed on version drift."""
import json, os, re

HERE = os.path.dirname(os.path.dirname(os.path.abspath(__file__)))
PINNED = '0.13.1'
_G = None


class GrammarVersionError(Exception):
    pass


def load(repo='/repo'):
    global _G
    if _G is not None:
        return _G
    lock = open(os.path.join(os.environ.get('TYLINT_REPO', repo), 'Cargo.lock')).read()
    m = re.search(r'name = "typst-syntax"\nversion = "([^"]+)"', lock)
    ver = m.group(1) if m else None
    if ver != PINNED:
        raise GrammarVersionError('Cargo.lock pins typst-syntax %s but the grammar tables were transcribed from %s' % (ver, PINNED))
    _G = json.load(open(os.path.join(HERE, 'tables', 'typst_syntax_%s.json' % PINNED)))
    _G['spelling'].update(PUNCT)
    return _G


# fixed spellings of punctuation kinds (lexer.rs); keyword spellings come from the derived table
PUNCT = {
    'LeftBrace': '{', 'RightBrace': '}', 'LeftBracket': '[', 'RightBracket': ']', 'LeftParen': '(', 'RightParen': ')',
    'Comma': ',', 'Semicolon': ';', 'Colon': ':', 'Star': '*', 'Underscore': '_', 'Dollar': '$', 'Plus': '+', 'Minus': '-',
    'Slash': '/', 'Hat': '^', 'Dot': '.', 'Eq': '=', 'EqEq': '==', 'ExclEq': '!=', 'Lt': '<', 'LtEq': '<=', 'Gt': '>',
    'GtEq': '>=', 'PlusEq': '+=', 'HyphEq': '-=', 'StarEq': '*=', 'SlashEq': '/=', 'Dots': '..', 'Arrow': '=>', 'Hash': '#',
    'Prime': "'",
}


def kinds_of(ty_name):
    """SyntaxKinds for which SyntaxNode::cast::<T>() returns Some; ty_name is the last path segment of T"""
    g = load()
    return set(g['kinds_of'].get(ty_name, ()))


def ast_type_name(ty_json_or_str):
    s = ty_json_or_str['s'] if isinstance(ty_json_or_str, dict) else ty_json_or_str
    m = re.match(r"^(?:typst_syntax::)?ast::(\w+)<", s)
    return m.group(1) if m else None


# ---------------------------------------------------------------------------------------------
# parent kind -> child kinds the parser can produce (transcribed from parser.rs; cross-checked against the
# parent->child sets observed in the 188 error-free fixture files with tools/kindscan).  A kind missing here
# can only make a checker less demanding.
# ---------------------------------------------------------------------------------------------
TRIVIA = ['Space', 'LineComment', 'BlockComment']
COMMENTS = ['LineComment', 'BlockComment']
MARKUP_EXPR = ['Text', 'Linebreak', 'Parbreak', 'Escape', 'Shorthand', 'SmartQuote', 'Strong', 'Emph', 'Raw', 'Link', 'Label', 'Ref',
               'Heading', 'ListItem', 'EnumItem', 'TermItem', 'Equation']
CODE_EXPR = ['Ident', 'None', 'Auto', 'Bool', 'Int', 'Float', 'Numeric', 'Str', 'CodeBlock', 'ContentBlock', 'Parenthesized', 'Array', 'Dict',
             'Unary', 'Binary', 'FieldAccess', 'FuncCall', 'Closure', 'LetBinding', 'DestructAssignment', 'SetRule', 'ShowRule', 'Contextual',
             'Conditional', 'WhileLoop', 'ForLoop', 'ModuleImport', 'ModuleInclude', 'LoopBreak', 'LoopContinue', 'FuncReturn', 'Raw', 'Equation',
             'Label']
MATH_EXPR = ['Math', 'MathText', 'MathIdent', 'MathShorthand', 'MathAlignPoint', 'MathDelimited', 'MathAttach', 'MathPrimes', 'MathFrac', 'MathRoot',
             'Str', 'Escape', 'Linebreak', 'Text', 'FieldAccess', 'FuncCall']
PATTERN = ['Ident', 'Underscore', 'Destructuring', 'Parenthesized']
BIN_OPS = ['Plus', 'Minus', 'Star', 'Slash', 'And', 'Or', 'EqEq', 'ExclEq', 'Lt', 'LtEq', 'Gt', 'GtEq', 'Eq', 'In', 'PlusEq', 'HyphEq', 'StarEq', 'SlashEq', 'Not']


def _u(*ls):
    out = []
    for l in ls:
        for x in l:
            if x not in out:
                out.append(x)
    return out


CHILDREN = {
    'Markup': _u(MARKUP_EXPR, CODE_EXPR, ['Space', 'Hash', 'Semicolon', 'Shebang'], COMMENTS),
    'Code': _u(CODE_EXPR, ['Semicolon'], TRIVIA),
    'CodeBlock': _u(['LeftBrace', 'Code', 'RightBrace'], TRIVIA),
    'ContentBlock': ['LeftBracket', 'Markup', 'RightBracket'],
    'Strong': ['Star', 'Markup'],
    'Emph': ['Underscore', 'Markup'],
    'Raw': ['RawDelim', 'RawLang', 'RawTrimmed', 'Text'],
    'Ref': ['RefMarker', 'ContentBlock'],
    'Heading': _u(['HeadingMarker', 'Markup'], TRIVIA),
    'ListItem': _u(['ListMarker', 'Markup', 'Parbreak'], TRIVIA),
    'EnumItem': _u(['EnumMarker', 'Markup', 'Parbreak'], TRIVIA),
    'TermItem': _u(['TermMarker', 'Markup', 'Colon', 'Parbreak'], TRIVIA),
    'Equation': _u(['Dollar', 'Math'], TRIVIA),
    'Math': _u(MATH_EXPR, CODE_EXPR, ['Hash', 'Semicolon', 'LeftParen', 'RightParen', 'Comma', 'Colon', 'Dots'], TRIVIA),
    # first and last child are the delimiters (MathText / MathShorthand / Escape ...), reached through open()/close(); in between:
    'MathDelimited': _u(['Math'], TRIVIA),
    # (an embedded code expression may be closed by `;`: `$x^#2;n$` - the Semicolon is a child of the attach / frac / root node; seed C04/5B)
    'MathAttach': _u(MATH_EXPR, ['Underscore', 'Hat', 'Hash', 'Semicolon'], CODE_EXPR, TRIVIA),
    'MathFrac': _u(MATH_EXPR, ['Slash', 'Hash', 'Semicolon'], CODE_EXPR, TRIVIA),
    'MathRoot': _u(MATH_EXPR, ['Root', 'Hash', 'Semicolon'], CODE_EXPR, TRIVIA),
    'MathPrimes': ['Prime'],
    'Args': _u(['LeftParen', 'RightParen', 'Comma', 'Semicolon', 'Named', 'Spread', 'Hash'], CODE_EXPR, MATH_EXPR, TRIVIA),
    'Array': _u(['LeftParen', 'RightParen', 'Comma', 'Spread', 'Hash'], CODE_EXPR, MATH_EXPR, TRIVIA),
    'Dict': _u(['LeftParen', 'RightParen', 'Colon', 'Comma', 'Named', 'Keyed', 'Spread'], TRIVIA),
    'Named': _u(['Ident', 'Colon', 'Hash'], CODE_EXPR, PATTERN, MATH_EXPR, TRIVIA),
    'Keyed': _u(['Colon'], CODE_EXPR, TRIVIA),
    'Spread': _u(['Dots', 'Hash'], CODE_EXPR, MATH_EXPR, TRIVIA),
    'Unary': _u(['Plus', 'Minus', 'Not'], CODE_EXPR, TRIVIA),
    'Binary': _u(BIN_OPS, CODE_EXPR, TRIVIA),
    'FieldAccess': _u(['Dot', 'Ident', 'MathIdent'], CODE_EXPR, TRIVIA),
    'FuncCall': _u(['Args', 'MathIdent'], CODE_EXPR),
    'Closure': _u(['Ident', 'Params', 'Eq', 'Arrow'], CODE_EXPR, TRIVIA),
    'Params': _u(['LeftParen', 'RightParen', 'Comma', 'Named', 'Spread'], PATTERN, TRIVIA),
    'LetBinding': _u(['Let', 'Eq', 'Closure'], PATTERN, CODE_EXPR, TRIVIA),
    'DestructAssignment': _u(['Eq'], PATTERN, CODE_EXPR, TRIVIA),
    'Destructuring': _u(['LeftParen', 'RightParen', 'Comma', 'Named', 'Spread'], PATTERN, CODE_EXPR, TRIVIA),
    'SetRule': _u(['Set', 'Args', 'If'], CODE_EXPR, TRIVIA),
    'ShowRule': _u(['Show', 'Colon'], CODE_EXPR, TRIVIA),
    'Contextual': _u(['Context'], CODE_EXPR, TRIVIA),
    'Conditional': _u(['If', 'Else'], CODE_EXPR, TRIVIA),
    'WhileLoop': _u(['While'], CODE_EXPR, TRIVIA),
    'ForLoop': _u(['For', 'In'], PATTERN, CODE_EXPR, TRIVIA),
    'ModuleImport': _u(['Import', 'As', 'Colon', 'Star', 'ImportItems', 'LeftParen', 'RightParen', 'Ident'], CODE_EXPR, TRIVIA),
    'ImportItems': _u(['ImportItemPath', 'RenamedImportItem', 'Comma'], TRIVIA),
    'ImportItemPath': _u(['Ident', 'Dot'], TRIVIA),
    'RenamedImportItem': _u(['ImportItemPath', 'As', 'Ident'], TRIVIA),
    'ModuleInclude': _u(['Include'], CODE_EXPR, TRIVIA),
    'LoopBreak': ['Break'],
    'LoopContinue': ['Continue'],
    'FuncReturn': _u(['Return'], CODE_EXPR, TRIVIA),
    'Parenthesized': _u(['LeftParen', 'RightParen'], CODE_EXPR, PATTERN, TRIVIA),
}

# tokens whose text can contain (or not) a line break: evaluated in both variants
LINEBREAKABLE = {'Space', 'RawTrimmed'}
ALWAYS_LINEBREAK = {'Parbreak'}


# ---------------------------------------------------------------------------------------------
# child *sequences* of the code nodes the flow helper prints (transcribed from parser.rs; trivia may stand between any two elements).
# Slots: E = any code expression, P = any pattern, B = a block (code / content), OP = a binary operator token, UOP = a unary operator token.
# ---------------------------------------------------------------------------------------------
SHAPES = {
    'Binary': [['E', 'OP', 'E'], ['E', 'Not', 'In', 'E']],
    'Unary': [['UOP', 'E']],
    'Closure': [['Params', 'Arrow', 'E'], ['Ident', 'Params@(', 'Eq', 'E']],   # a named closure always has parenthesised parameters
    'DestructAssignment': [['P', 'Eq', 'E']],
    'Conditional': [['If', 'E', 'B'], ['If', 'E', 'B', 'Else', 'B'], ['If', 'E', 'B', 'Else', 'Conditional']],
    'Contextual': [['Context', 'E']],
    'FuncReturn': [['Return'], ['Return', 'E']],
    'ModuleInclude': [['Include', 'E']],
    'WhileLoop': [['While', 'E', 'B']],
    'FieldAccess': [['T', 'Dot', 'Ident']],
    'ForLoop': [['For', 'P', 'In', 'E', 'B']],
    # (the item list after the colon is printed by the list stylist: not a flow site)
    'ModuleImport': [['Import', 'E'], ['Import', 'E', 'As', 'Ident'], ['Import', 'E', 'Colon', 'Star'], ['Import', 'E', 'As', 'Ident', 'Colon', 'Star']],
    'ImportItemPath': [['Ident'], ['Ident', 'Dot', 'Ident']],
    'RenamedImportItem': [['ImportItemPath', 'As', 'Ident']],
    'Keyed': [['E', 'Colon', 'E']],
    'LetBinding': [['Let', 'P'], ['Let', 'P', 'Eq', 'E'], ['Let', 'Closure']],
    'Named': [['Ident', 'Colon', 'E'], ['Ident', 'Colon', 'P']],
    'SetRule': [['Set', 'E', 'Args'], ['Set', 'E', 'Args', 'If', 'E']],
    'ShowRule': [['Show', 'Colon', 'E'], ['Show', 'E', 'Colon', 'E']],
    'Spread': [['Dots'], ['Dots', 'E'], ['Dots', 'P']],
}
UN_OPS = ['Plus', 'Minus', 'Not']
# T: what a field access / call can be applied to (code_primary and the postfix forms; parser.rs code_expr_prec)
POSTFIX_TARGET = ['Ident', 'None', 'Auto', 'Bool', 'Int', 'Float', 'Numeric', 'Str', 'CodeBlock', 'ContentBlock', 'Parenthesized', 'Array', 'Dict', 'FieldAccess',
                  'FuncCall', 'Raw', 'Equation', 'Label']
# one operator per spelling class (symbol / comparison / assignment / word): the producers treat every operator token alike
BIN_OP_REPS = ['Plus', 'Slash', 'Star', 'Lt', 'EqEq', 'Eq', 'PlusEq', 'And', 'In']
SLOTS = {'T': POSTFIX_TARGET, 'E': CODE_EXPR, 'P': PATTERN, 'B': ['CodeBlock', 'ContentBlock'], 'OP': BIN_OP_REPS, 'UOP': UN_OPS}
SLOT_DEFAULT = {'T': 'Ident', 'E': 'Ident', 'P': 'Ident', 'B': 'CodeBlock', 'OP': 'Plus', 'UOP': 'Minus'}
