"""MIR inlining: a synthetic Body in which calls to selected workspace functions are replaced by the callee's MIR.

Intraprocedural rules (dominating guards, provenance) then see through helper functions: extracting a block into a helper, or moving a
test into the helper that produces the value, leaves the inlined body - and therefore the rule's verdict - unchanged.

  inline_body(w, body, pred, max_depth=3) -> Body   (same id / short name; .inlined lists the callees that were expanded)

Only monomorphic, non-recursive functions with MIR in the fact base are expanded; calls through Fn* traits (closures) are left alone.
Blocks copied from a callee carry 'inl': the chain of callee ids; their spans keep the callee's file and line.
"""
import copy
from mirfacts import Body, resolved_id, callee_path


def _is_place(x):
    return isinstance(x, dict) and 'l' in x and 'proj' in x and isinstance(x['l'], int)


def _remap(x, lmap, boff, owner):
    """renumber locals (lmap: callee local -> caller local) and block indices (+boff) in a deep-copied MIR fragment, in place"""
    if isinstance(x, dict):
        if _is_place(x):
            x['l'] = lmap(x['l'])
            for e in x['proj']:
                if e.get('p') == 'index' and isinstance(e.get('l'), int):
                    e['l'] = lmap(e['l'])
            return
        if x.get('o') == 'const' and 'promoted' in x and 'promoted_owner' not in x:
            x['promoted_owner'] = owner
        for k, v in x.items():
            if k in ('target', 'unwind', 'otherwise') and isinstance(v, int):
                x[k] = v + boff
            elif k == 'targets' and isinstance(v, list):
                x[k] = [[a, bb + boff] for a, bb in v]
            elif k == 'bb' and isinstance(v, int):
                x[k] = v + boff
            elif k in ('callee', 'ty', 'span', 'fn_span', 'fn'):
                continue
            else:
                _remap(v, lmap, boff, owner)
    elif isinstance(x, list):
        for v in x:
            _remap(v, lmap, boff, owner)


def _monomorphic(cb):
    """no type / const parameters (lifetimes are harmless: MIR is the same for every instance)"""
    return all(str(p.get('kind', '')).startswith('Lifetime') for p in (cb.j.get('generics') or []))


# ---------------------------------------------------------------------------------------------
# std combinators taking a closure, rewritten as the `match` they stand for, with the closure's MIR expanded in place:
#   opt.map(f)            => match opt { Some(x) => Some(f(x)), None => None }
#   opt.and_then(f)       => match opt { Some(x) => f(x), None => None }
#   opt.filter(p)         => match opt { Some(x) => if p(&x) { Some(x) } else { None }, None => None }
#   opt.is_some_and(p)    => match opt { Some(x) => p(x), None => false }        (is_none_or: None => true)
#   opt.unwrap_or_else(f) => match opt { Some(x) => x, None => f() }
#   opt.map_or(d, f)      => match opt { Some(x) => f(x), None => d }
#   res.unwrap_or_else(f) => match res { Ok(x) => x, Err(e) => f(e) }
#   res.map(f) / res.map_err(f) / res.and_then(f)
#   b.then(f)             => if b { Some(f()) } else { None }
# ---------------------------------------------------------------------------------------------
OPT = {'adt': 'core::option::Option', 'path': 'std::option::Option', 'neg': (0, 'None'), 'pos': (1, 'Some')}
RES = {'adt': 'core::result::Result', 'path': 'std::result::Result', 'pos': (0, 'Ok'), 'neg': (1, 'Err')}
COMBINATORS = {
    'std::option::Option::<T>::map': (OPT, 'map'), 'std::option::Option::<T>::and_then': (OPT, 'and_then'), 'std::option::Option::<T>::filter': (OPT, 'filter'),
    'std::option::Option::<T>::is_some_and': (OPT, 'is_some_and'), 'std::option::Option::<T>::is_none_or': (OPT, 'is_none_or'),
    'std::option::Option::<T>::unwrap_or_else': (OPT, 'unwrap_or_else'), 'std::option::Option::<T>::map_or': (OPT, 'map_or'),
    'std::option::Option::<T>::or_else': (OPT, 'or_else'),
    'std::result::Result::<T, E>::unwrap_or_else': (RES, 'unwrap_or_else'), 'std::result::Result::<T, E>::map': (RES, 'map'),
    'std::result::Result::<T, E>::map_err': (RES, 'map_err'), 'std::result::Result::<T, E>::and_then': (RES, 'and_then'),
    'core::bool::<impl bool>::then': (None, 'then'),
}


def _closure_of_operand(w, j, op):
    """(closure body, local holding the closure value) when the operand is a local with a single definition that is a closure aggregate"""
    if op.get('o') not in ('move', 'copy') or op['p']['proj']:
        return None, None
    l = op['p']['l']
    defs = []
    for blk in j['blocks']:
        for st in blk['stmts']:
            if st['s'] == 'assign' and st['p']['l'] == l and not st['p']['proj']:
                defs.append(st['rv'])
        t = blk['term']
        if t['t'] == 'call' and t['dest']['l'] == l and not t['dest']['proj']:
            defs.append(None)
    if len(defs) != 1 or defs[0] is None or defs[0].get('r') != 'agg' or defs[0].get('ak') != 'closure':
        return None, None
    cb = w.bodies.get(defs[0]['def']['id'])
    return cb, l


class _Builder:
    def __init__(self, j, span, stack):
        self.j, self.span, self.stack = j, span, stack

    def local(self, ty):
        l = len(self.j['locals'])
        self.j['locals'].append({'l': l, 'ty': ty, 'mut': True, 'synthetic': True})
        return l

    def block(self, stmts=None, term=None):
        bi = len(self.j['blocks'])
        self.j['blocks'].append({'bb': bi, 'cleanup': False, 'stmts': stmts or [], 'term': term or {'t': 'unreachable', 'span': self.span}, 'inl': self.stack, 'synthetic': True})
        return bi

    def assign(self, place, rv):
        return {'s': 'assign', 'p': place, 'rv': rv, 'span': self.span}

    def goto(self, target):
        return {'t': 'goto', 'target': target, 'span': self.span} if target is not None else {'t': 'unreachable', 'span': self.span}


def _pl(l, proj=None):
    return {'l': l, 'proj': proj or []}


def _use(op):
    return {'r': 'use', 'op': op}


def _mv(l, proj=None):
    return {'o': 'move', 'p': _pl(l, proj)}


def _variant_agg(fam, which, ops, args=None):
    idx, name = fam[which]
    return {'r': 'agg', 'ak': 'adt', 'adt': fam['adt'], 'path': fam['path'], 'variant': idx, 'vname': name, 'ops': ops, 'args': args or []}


def _payload(l, fam, which, ty):
    idx, name = fam[which]
    return _mv(l, [{'p': 'downcast', 'v': idx, 'name': name}, {'p': 'field', 'i': 0, 'ty': ty.get('s', '?') if isinstance(ty, dict) else '?'}])


def _expand_closure(w, B, cb, closure_local, arg_ops, result_place, target, stack):
    """append the closure's blocks, binding its environment and arguments; returns the entry block"""
    j = B.j
    loff = len(j['locals'])
    boff_holder = {}
    for lc in cb.j['locals']:
        nl = copy.deepcopy(lc)
        nl['l'] = loff + lc['l']
        nl['inl_of'] = cb.id
        j['locals'].append(nl)
    # entry block binds env + args, then jumps to the copied body
    stmts = []
    env_ty = cb.j['locals'][1]['ty']
    if env_ty.get('k') == 'ref':
        stmts.append(B.assign(_pl(loff + 1), {'r': 'ref', 'mut': bool(env_ty.get('mut')), 'p': _pl(closure_local)}))
    else:
        stmts.append(B.assign(_pl(loff + 1), _use(_mv(closure_local))))
    for i, a in enumerate(arg_ops):
        stmts.append(B.assign(_pl(loff + 2 + i), a))
    entry = B.block(stmts)
    boff = len(j['blocks'])
    lmap = lambda l, loff=loff: loff + l
    nstack = stack + (cb.id,)
    for d in cb.j.get('debug', []):
        nd = copy.deepcopy(d)
        _remap(nd, lmap, boff, cb.id)
        j['debug'].append(nd)
    for cblk in cb.j['blocks']:
        nb = copy.deepcopy(cblk)
        _remap(nb, lmap, boff, cb.id)
        nb['inl'] = nstack
        if nb['term']['t'] == 'return':
            sp = nb['term'].get('span') or B.span
            nb['stmts'].append({'s': 'assign', 'p': copy.deepcopy(result_place), 'rv': _use(_mv(loff)), 'span': sp})
            nb['term'] = {'t': 'goto', 'target': target, 'span': sp} if target is not None else {'t': 'unreachable', 'span': sp}
        j['blocks'].append(nb)
    j['blocks'][entry]['term'] = B.goto(boff)
    return entry, list(range(boff, len(j['blocks'])))


def _desugar_map_ctor(w, j, bi, fam, fop, stack):
    """opt.map(Enum::Variant)  =>  match opt { Some(x) => Some(Enum::Variant(x)), None => None }"""
    from tyutil import adt_lookup
    blk = j['blocks'][bi]
    t = blk['term']
    cid = fop['fn']['def']['id']
    vpath = fop['fn']['def']['path']
    adt_id = cid.rsplit('::', 2)[0]
    vname = vpath.rsplit('::', 1)[-1]
    adt = adt_lookup(w, adt_id)
    if adt is None:
        return None
    idx = [v['idx'] if 'idx' in v else i for i, v in enumerate(adt['variants']) if v['name'] == vname]
    if len(idx) != 1:
        return None
    recv = t['args'][0]
    B = _Builder(j, t['span'], stack)
    n0 = len(j['blocks'])
    dest, target = t['dest'], t['target']
    rl = recv['p']['l']
    rty = j['locals'][rl]['ty']
    targs = rty.get('args') or []
    pos_ty = targs[0] if targs else {'s': '?'}
    neg_ty = targs[1] if len(targs) > 1 else {'s': '?'}
    dty = j['locals'][dest['l']]['ty'] if not dest['proj'] else {'s': '?'}
    dargs = (dty.get('args') or []) if isinstance(dty, dict) else []
    d = B.local({'k': 'int', 'n': 'isize', 's': 'isize'})
    blk['stmts'].append(B.assign(_pl(d), {'r': 'discr', 'p': _pl(rl)}))
    x = B.local(pos_ty)
    inner = B.local(dargs[0] if dargs else {'s': '?'})
    ctor = {'r': 'agg', 'ak': 'adt', 'adt': adt_id, 'path': adt.get('path', vpath.rsplit('::', 1)[0]), 'variant': idx[0], 'vname': vname, 'ops': [_mv(x)], 'args': []}
    pos_b = B.block([B.assign(_pl(x), _use(_payload(rl, fam, 'pos', pos_ty))), B.assign(_pl(inner), ctor),
                     B.assign(copy.deepcopy(dest), _variant_agg(fam, 'pos', [_mv(inner)], dargs))], B.goto(target))
    if fam is OPT:
        neg_b = B.block([B.assign(copy.deepcopy(dest), _variant_agg(OPT, 'neg', [], dargs))], B.goto(target))
    else:
        e = B.local(neg_ty)
        neg_b = B.block([B.assign(_pl(e), _use(_payload(rl, fam, 'neg', neg_ty))), B.assign(copy.deepcopy(dest), _variant_agg(RES, 'neg', [_mv(e)], dargs))], B.goto(target))
    unreach = B.block()
    blk['term'] = {'t': 'switch', 'discr': _mv(d), 'discr_ty': 'isize', 'targets': [[fam['neg'][0], neg_b], [fam['pos'][0], pos_b]], 'otherwise': unreach, 'span': t['span'],
                   'desugared': callee_path(t)}
    return list(range(n0, len(j['blocks'])))


def _desugar(w, j, bi, stack):
    """rewrite the combinator call ending block bi; returns the list of new block indices (None when not applicable)"""
    blk = j['blocks'][bi]
    t = blk['term']
    cp = callee_path(t) or ''
    if cp not in COMBINATORS or t['target'] is None:
        return None
    fam, kind = COMBINATORS[cp]
    args = t['args']
    recv = args[0]
    if recv.get('o') not in ('move', 'copy') or recv['p']['proj']:
        return None
    fop = args[2] if kind == 'map_or' else args[1]
    cb, cl = _closure_of_operand(w, j, fop)
    if cb is None and kind == 'map' and fop.get('o') == 'const' and 'fn' in fop and '{constructor#' in fop['fn']['def']['id']:
        return _desugar_map_ctor(w, j, bi, fam, fop, stack)
    if cb is None or cb.id in stack or len(stack) >= 4:
        return None
    B = _Builder(j, t['span'], stack)
    n0 = len(j['blocks'])
    dest, target = t['dest'], t['target']
    rl = recv['p']['l']
    rty = j['locals'][rl]['ty']
    targs = rty.get('args') or []
    pos_ty = targs[0] if targs else {'s': '?'}
    neg_ty = targs[1] if len(targs) > 1 else {'s': '?'}
    dty = j['locals'][dest['l']]['ty'] if not dest['proj'] else {'s': '?'}
    dargs = dty.get('args') or [] if isinstance(dty, dict) else []

    def finish(stmts):
        return B.block(stmts, B.goto(target))
    if kind == 'then':
        # recv is the bool itself
        tmp = B.local(dargs[0] if dargs else {'s': '?'})
        some_b = finish([B.assign(copy.deepcopy(dest), _variant_agg(OPT, 'pos', [_mv(tmp)], dargs))])
        entry, new = _expand_closure(w, B, cb, cl, [], _pl(tmp), some_b, stack)
        none_b = finish([B.assign(copy.deepcopy(dest), _variant_agg(OPT, 'neg', [], dargs))])
        blk['term'] = {'t': 'switch', 'discr': copy.deepcopy(recv), 'discr_ty': 'bool', 'targets': [[0, none_b]], 'otherwise': entry, 'span': t['span'], 'desugared': cp}
        return list(range(n0, len(j['blocks'])))
    d = B.local({'k': 'int', 'n': 'isize', 's': 'isize'})
    blk['stmts'].append(B.assign(_pl(d), {'r': 'discr', 'p': _pl(rl)}))
    pos_i, neg_i = fam['pos'][0], fam['neg'][0]
    x = B.local(pos_ty)
    bind_pos = B.assign(_pl(x), _use(_payload(rl, fam, 'pos', pos_ty)))
    unreach = B.block()
    if kind in ('map', 'and_then') or (kind == 'map_or'):
        if kind == 'and_then':
            # f(x) is the result
            entry, new = _expand_closure(w, B, cb, cl, [_use(_mv(x))], copy.deepcopy(dest), target, stack)
        else:
            tmp = B.local(dargs[0] if (dargs and kind == 'map') else (dty if kind == 'map_or' else {'s': '?'}))
            if kind == 'map':
                ops = [_mv(tmp)]
                wrap = finish([B.assign(copy.deepcopy(dest), _variant_agg(fam, 'pos', ops, dargs))])
                entry, new = _expand_closure(w, B, cb, cl, [_use(_mv(x))], _pl(tmp), wrap, stack)
            else:
                entry, new = _expand_closure(w, B, cb, cl, [_use(_mv(x))], copy.deepcopy(dest), target, stack)
        j['blocks'][entry]['stmts'].insert(0, bind_pos)
        if kind == 'map_or':
            neg_b = finish([B.assign(copy.deepcopy(dest), _use(copy.deepcopy(args[1])))])
        elif fam is OPT:
            neg_b = finish([B.assign(copy.deepcopy(dest), _variant_agg(OPT, 'neg', [], dargs))])
        else:
            e = B.local(neg_ty)
            neg_b = finish([B.assign(_pl(e), _use(_payload(rl, fam, 'neg', neg_ty))), B.assign(copy.deepcopy(dest), _variant_agg(RES, 'neg', [_mv(e)], dargs))])
        pos_b = entry
    elif kind == 'map_err':
        e = B.local(neg_ty)
        tmp = B.local(dargs[1] if len(dargs) > 1 else {'s': '?'})
        wrap = finish([B.assign(copy.deepcopy(dest), _variant_agg(RES, 'neg', [_mv(tmp)], dargs))])
        entry, new = _expand_closure(w, B, cb, cl, [_use(_mv(e))], _pl(tmp), wrap, stack)
        j['blocks'][entry]['stmts'].insert(0, B.assign(_pl(e), _use(_payload(rl, fam, 'neg', neg_ty))))
        neg_b = entry
        pos_b = finish([bind_pos, B.assign(copy.deepcopy(dest), _variant_agg(RES, 'pos', [_mv(x)], dargs))])
    elif kind == 'filter':
        keep = finish([B.assign(copy.deepcopy(dest), _variant_agg(OPT, 'pos', [_mv(x)], dargs))])
        drop = finish([B.assign(copy.deepcopy(dest), _variant_agg(OPT, 'neg', [], dargs))])
        verdict = B.local({'k': 'bool', 's': 'bool'})
        test = B.block([], {'t': 'switch', 'discr': _mv(verdict), 'discr_ty': 'bool', 'targets': [[0, drop]], 'otherwise': keep, 'span': t['span']})
        entry, new = _expand_closure(w, B, cb, cl, [{'r': 'ref', 'mut': False, 'p': _pl(x)}], _pl(verdict), test, stack)
        j['blocks'][entry]['stmts'].insert(0, bind_pos)
        pos_b = entry
        neg_b = finish([B.assign(copy.deepcopy(dest), _variant_agg(OPT, 'neg', [], dargs))])
    elif kind in ('is_some_and', 'is_none_or'):
        entry, new = _expand_closure(w, B, cb, cl, [_use(_mv(x))], copy.deepcopy(dest), target, stack)
        j['blocks'][entry]['stmts'].insert(0, bind_pos)
        pos_b = entry
        neg_b = finish([B.assign(copy.deepcopy(dest), _use({'o': 'const', 'ty': {'k': 'bool', 's': 'bool'}, 's': 'true' if kind == 'is_none_or' else 'false',
                                                               'int': 1 if kind == 'is_none_or' else 0}))])
    elif kind == 'or_else':
        # Some(x) => Some(x), None => f()
        pos_b = finish([bind_pos, B.assign(copy.deepcopy(dest), _variant_agg(OPT, 'pos', [_mv(x)], dargs))])
        entry, new = _expand_closure(w, B, cb, cl, [], copy.deepcopy(dest), target, stack)
        neg_b = entry
    elif kind == 'unwrap_or_else':
        pos_b = finish([bind_pos, B.assign(copy.deepcopy(dest), _use(_mv(x)))])
        if fam is OPT:
            entry, new = _expand_closure(w, B, cb, cl, [], copy.deepcopy(dest), target, stack)
        else:
            e = B.local(neg_ty)
            entry, new = _expand_closure(w, B, cb, cl, [_use(_mv(e))], copy.deepcopy(dest), target, stack)
            j['blocks'][entry]['stmts'].insert(0, B.assign(_pl(e), _use(_payload(rl, fam, 'neg', neg_ty))))
        neg_b = entry
    else:
        return None
    blk['term'] = {'t': 'switch', 'discr': _mv(d), 'discr_ty': 'isize', 'targets': [[neg_i, neg_b], [pos_i, pos_b]], 'otherwise': unreach, 'span': t['span'], 'desugared': cp}
    return list(range(n0, len(j['blocks'])))


# ---------------------------------------------------------------------------------------------
# iterator consumers taking a closure, rewritten as the loop they stand for (the closure's MIR expanded in the loop body):
#   it.find_map(f) => loop { match it.next() { None => break None, Some(x) => if let Some(r) = f(x) { break Some(r) } } }
#   it.any(p) / it.all(p) / it.find(p) / it.for_each(f) likewise
# ---------------------------------------------------------------------------------------------
ITER_CONSUMERS = {'std::iter::Iterator::find_map': 'find_map', 'std::iter::Iterator::any': 'any', 'std::iter::Iterator::all': 'all',
                  'std::iter::Iterator::for_each': 'for_each', 'std::iter::Iterator::find': 'find'}
NEXT_CALLEE = {'def': {'id': 'core::iter::traits::iterator::Iterator::next', 'path': 'std::iter::Iterator::next', 'crate': 'core', 'local': False}, 'args': [],
               's': '<I as std::iter::Iterator>::next', 'synthetic': True}


def _opt_ty(item_ty):
    return {'k': 'adt', 'id': 'core::option::Option', 'path': 'std::option::Option', 'args': [item_ty], 's': 'std::option::Option<%s>' % item_ty.get('s', '?')}


def _desugar_iter(w, j, bi, stack):
    blk = j['blocks'][bi]
    t = blk['term']
    cp = callee_path(t) or ''
    if cp not in ITER_CONSUMERS or t['target'] is None or len(t['args']) != 2:
        return None
    kind = ITER_CONSUMERS[cp]
    recv = t['args'][0]
    if recv.get('o') not in ('move', 'copy') or recv['p']['proj']:
        return None
    cb, cl = _closure_of_operand(w, j, t['args'][1])
    if cb is None or cb.id in stack or len(stack) >= 4 or cb.arg_count != 2:
        return None
    B = _Builder(j, t['span'], stack)
    n0 = len(j['blocks'])
    dest, target = t['dest'], t['target']
    rl = recv['p']['l']
    rty = j['locals'][rl]['ty']
    by_ref = rty.get('k') == 'ref'
    # the item type: the closure's parameter (find / any on `&x` items take the item by reference: use the referent)
    pty = cb.j['locals'][2]['ty']
    item_ty = pty['t'] if (kind == 'find' and pty.get('k') == 'ref') else pty
    dty = j['locals'][dest['l']]['ty'] if not dest['proj'] else {'s': '?'}
    dargs = (dty.get('args') or []) if isinstance(dty, dict) else []
    nxt = B.local(_opt_ty(item_ty))
    d = B.local({'k': 'int', 'n': 'isize', 's': 'isize'})
    x = B.local(item_ty)
    itref = rl
    pre = []
    if not by_ref:
        itref = B.local({'k': 'ref', 'mut': True, 't': rty, 's': '&mut %s' % rty.get('s', '?')})
        pre.append(B.assign(_pl(itref), {'r': 'ref', 'mut': True, 'p': _pl(rl)}))
    head = B.block()
    test = B.block([B.assign(_pl(d), {'r': 'discr', 'p': _pl(nxt)})])
    unreach = B.block()
    j['blocks'][head]['term'] = {'t': 'call', 'callee': copy.deepcopy(NEXT_CALLEE), 'args': [{'o': 'copy', 'p': _pl(itref)}], 'dest': _pl(nxt), 'target': test, 'span': t['span'],
                                 'fn_span': t.get('fn_span', t['span']), 'synthetic': True}

    def finish(stmts):
        return B.block(stmts, B.goto(target))
    const = lambda v: _use({'o': 'const', 'ty': {'k': 'bool', 's': 'bool'}, 's': 'true' if v else 'false', 'int': 1 if v else 0})
    bind = B.assign(_pl(x), _use(_payload(nxt, OPT, 'pos', item_ty)))
    if kind == 'find_map':
        res = B.local(dty)
        dr = B.local({'k': 'int', 'n': 'isize', 's': 'isize'})
        found = finish([B.assign(copy.deepcopy(dest), _use(_mv(res)))])
        after = B.block([B.assign(_pl(dr), {'r': 'discr', 'p': _pl(res)})],
                        {'t': 'switch', 'discr': _mv(dr), 'discr_ty': 'isize', 'targets': [[0, head], [1, found]], 'otherwise': unreach, 'span': t['span']})
        entry, new = _expand_closure(w, B, cb, cl, [_use(_mv(x))], _pl(res), after, stack)
        exit_b = finish([B.assign(copy.deepcopy(dest), _variant_agg(OPT, 'neg', [], dargs))])
    elif kind in ('any', 'all'):
        verdict = B.local({'k': 'bool', 's': 'bool'})
        stop = finish([B.assign(copy.deepcopy(dest), const(kind == 'any'))])
        after = B.block([], {'t': 'switch', 'discr': _mv(verdict), 'discr_ty': 'bool', 'targets': [[0, head if kind == 'any' else stop]], 'otherwise': stop if kind == 'any' else head,
                             'span': t['span']})
        entry, new = _expand_closure(w, B, cb, cl, [_use(_mv(x))], _pl(verdict), after, stack)
        exit_b = finish([B.assign(copy.deepcopy(dest), const(kind == 'all'))])
    elif kind == 'find':
        verdict = B.local({'k': 'bool', 's': 'bool'})
        found = finish([B.assign(copy.deepcopy(dest), _variant_agg(OPT, 'pos', [_mv(x)], dargs))])
        after = B.block([], {'t': 'switch', 'discr': _mv(verdict), 'discr_ty': 'bool', 'targets': [[0, head]], 'otherwise': found, 'span': t['span']})
        entry, new = _expand_closure(w, B, cb, cl, [{'r': 'ref', 'mut': False, 'p': _pl(x)}], _pl(verdict), after, stack)
        exit_b = finish([B.assign(copy.deepcopy(dest), _variant_agg(OPT, 'neg', [], dargs))])
    else:   # for_each
        unit = B.local({'k': 'tuple', 'ts': [], 's': '()'})
        entry, new = _expand_closure(w, B, cb, cl, [_use(_mv(x))], _pl(unit), head, stack)
        exit_b = finish([])
    j['blocks'][entry]['stmts'].insert(0, bind)
    j['blocks'][test]['term'] = {'t': 'switch', 'discr': _mv(d), 'discr_ty': 'isize', 'targets': [[0, exit_b], [1, entry]], 'otherwise': unreach, 'span': t['span']}
    blk['stmts'].extend(pre)
    blk['term'] = {'t': 'goto', 'target': head, 'span': t['span'], 'desugared': cp}
    return list(range(n0, len(j['blocks'])))


# ---------------------------------------------------------------------------------------------
# element-dropping iterator adaptors in front of a `for` loop, rewritten as the test they stand for (added for the benign twin of seed C14/4B):
#   for x in inner.filter(p)      { body }   =>   loop { match inner.next() { None => break, Some(x) => if p(&x) { body } } }
#   for y in inner.filter_map(f)  { body }   =>   loop { match inner.next() { None => break, Some(x) => match f(x) { Some(y) => body, None => {} } } }
# The `next` call on the adaptor is replaced; the adaptor value itself is left in place (nothing else reads it).  Guards that the closure
# establishes (eligibility of a directory entry) then dominate the loop body, and what the closure discards (`e.ok()`) is visible as a discard.
# ---------------------------------------------------------------------------------------------
ADAPTORS = {'std::iter::Iterator::filter': 'filter', 'std::iter::Iterator::filter_map': 'filter_map'}


def _single_def(j, l):
    """('rv', rvalue) | ('call', terminator) when local l has exactly one whole definition, else None"""
    defs = []
    for blk in j['blocks']:
        if blk.get('cleanup'):
            continue
        for st in blk['stmts']:
            if st['s'] == 'assign' and st['p']['l'] == l and not st['p']['proj']:
                defs.append(('rv', st['rv']))
        t = blk['term']
        if t['t'] == 'call' and t['dest']['l'] == l and not t['dest']['proj']:
            defs.append(('call', t))
    return defs[0] if len(defs) == 1 else None


def _desugar_adaptor_next(w, j, bi, stack):
    blk = j['blocks'][bi]
    t = blk['term']
    cp = callee_path(t) or ''
    if not cp.endswith('Iterator::next') or t.get('synthetic') or t['target'] is None or len(t['args']) != 1 or t['dest']['proj']:
        return None
    a0 = t['args'][0]
    if a0.get('o') not in ('move', 'copy') or a0['p']['proj']:
        return None
    # the receiver is `&mut it`: find `it`, then walk back through moves / into_iter to the adaptor call
    cur = a0['p']['l']
    adaptor = None
    for _ in range(10):
        d = _single_def(j, cur)
        if d is None:
            return None
        if d[0] == 'rv':
            rv = d[1]
            if rv.get('r') == 'ref' and (not rv['p']['proj'] or rv['p']['proj'] == [{'p': 'deref'}]):
                cur = rv['p']['l']        # `&mut it`, or a reborrow `&mut *r` of such a reference
                continue
            if rv.get('r') == 'use' and rv['op'].get('o') in ('move', 'copy') and not rv['op']['p']['proj']:
                cur = rv['op']['p']['l']
                continue
            return None
        ct = d[1]
        ccp = callee_path(ct) or ''
        if ccp.endswith('IntoIterator::into_iter') and ct['args'] and ct['args'][0].get('o') in ('move', 'copy') and not ct['args'][0]['p']['proj']:
            cur = ct['args'][0]['p']['l']
            continue
        if ccp in ADAPTORS and len(ct['args']) == 2:
            adaptor = ct
        break
    if adaptor is None:
        return None
    kind = ADAPTORS[callee_path(adaptor)]
    inner = adaptor['args'][0]
    if inner.get('o') not in ('move', 'copy') or inner['p']['proj']:
        return None
    cb, cl = _closure_of_operand(w, j, adaptor['args'][1])
    if cb is None or cb.id in stack or len(stack) >= 4 or cb.arg_count != 2:
        return None
    B = _Builder(j, t['span'], stack)
    n0 = len(j['blocks'])
    dest, target = t['dest'], t['target']
    il = inner['p']['l']
    ity = j['locals'][il]['ty']
    pty = cb.j['locals'][2]['ty']
    item_ty = pty['t'] if (kind == 'filter' and pty.get('k') == 'ref') else pty
    dty = j['locals'][dest['l']]['ty']
    dargs = (dty.get('args') or []) if isinstance(dty, dict) else []
    nxt = B.local(_opt_ty(item_ty))
    d = B.local({'k': 'int', 'n': 'isize', 's': 'isize'})
    x = B.local(item_ty)
    itref = B.local({'k': 'ref', 'mut': True, 't': ity, 's': '&mut %s' % ity.get('s', '?')})
    # the loop header keeps calling `next` - on the inner iterator (so that it is still the header of one natural loop; a skipped element jumps back to it)
    head = bi
    test = B.block([B.assign(_pl(d), {'r': 'discr', 'p': _pl(nxt)})])
    unreach = B.block()
    none_b = B.block([B.assign(copy.deepcopy(dest), _variant_agg(OPT, 'neg', [], dargs))], B.goto(target))
    bind = B.assign(_pl(x), _use(_payload(nxt, OPT, 'pos', item_ty)))
    if kind == 'filter':
        verdict = B.local({'k': 'bool', 's': 'bool'})
        found = B.block([B.assign(copy.deepcopy(dest), _variant_agg(OPT, 'pos', [_mv(x)], dargs))], B.goto(target))
        after = B.block([], {'t': 'switch', 'discr': _mv(verdict), 'discr_ty': 'bool', 'targets': [[0, head]], 'otherwise': found, 'span': t['span']})
        entry, new = _expand_closure(w, B, cb, cl, [{'r': 'ref', 'mut': False, 'p': _pl(x)}], _pl(verdict), after, stack)
    else:
        res = B.local(dty)
        dr = B.local({'k': 'int', 'n': 'isize', 's': 'isize'})
        found = B.block([B.assign(copy.deepcopy(dest), _use(_mv(res)))], B.goto(target))
        after = B.block([B.assign(_pl(dr), {'r': 'discr', 'p': _pl(res)})],
                        {'t': 'switch', 'discr': _mv(dr), 'discr_ty': 'isize', 'targets': [[0, head], [1, found]], 'otherwise': unreach, 'span': t['span']})
        entry, new = _expand_closure(w, B, cb, cl, [_use(_mv(x))], _pl(res), after, stack)
    j['blocks'][entry]['stmts'].insert(0, bind)
    j['blocks'][test]['term'] = {'t': 'switch', 'discr': _mv(d), 'discr_ty': 'isize', 'targets': [[0, none_b], [1, entry]], 'otherwise': unreach, 'span': t['span']}
    blk['stmts'].append(B.assign(_pl(itref), {'r': 'ref', 'mut': True, 'p': _pl(il)}))
    blk['term'] = {'t': 'call', 'callee': copy.deepcopy(NEXT_CALLEE), 'args': [{'o': 'copy', 'p': _pl(itref)}], 'dest': _pl(nxt), 'target': test, 'span': t['span'],
                   'fn_span': t.get('fn_span', t['span']), 'desugared': cp + ' over ' + kind, 'orig_dests': list(t.get('orig_dests', [])) + [dest['l']],
                   'exhaust_blocks': list(t.get('exhaust_blocks', [])) + [test]}
    if t.get('unwind') is not None:
        blk['term']['unwind'] = t['unwind']
    return [bi] + list(range(n0, len(j['blocks'])))      # (the header is looked at again: the inner iterator may be an adaptor as well)


def _desugar_fold(w, j, bi, stack):
    """it.fold(init, |acc, x| body)  =>  acc = init; loop { match it.next() { None => break, Some(x) => acc = body(acc, x) } }; result = acc"""
    blk = j['blocks'][bi]
    t = blk['term']
    cp = callee_path(t) or ''
    if cp != 'std::iter::Iterator::fold' or t['target'] is None or len(t['args']) != 3 or t['dest']['proj']:
        return None
    recv = t['args'][0]
    if recv.get('o') not in ('move', 'copy') or recv['p']['proj']:
        return None
    cb, cl = _closure_of_operand(w, j, t['args'][2])
    if cb is None or cb.id in stack or len(stack) >= 4 or cb.arg_count != 3:
        return None
    B = _Builder(j, t['span'], stack)
    n0 = len(j['blocks'])
    dest, target = t['dest'], t['target']
    rl = recv['p']['l']
    rty = j['locals'][rl]['ty']
    item_ty = cb.j['locals'][3]['ty']
    acc_ty = cb.j['locals'][2]['ty']
    acc = B.local(acc_ty)
    nxt = B.local(_opt_ty(item_ty))
    d = B.local({'k': 'int', 'n': 'isize', 's': 'isize'})
    x = B.local(item_ty)
    itref = rl
    pre = [B.assign(_pl(acc), _use(copy.deepcopy(t['args'][1])))]
    if rty.get('k') != 'ref':
        itref = B.local({'k': 'ref', 'mut': True, 't': rty, 's': '&mut %s' % rty.get('s', '?')})
        pre.append(B.assign(_pl(itref), {'r': 'ref', 'mut': True, 'p': _pl(rl)}))
    head = B.block()
    test = B.block([B.assign(_pl(d), {'r': 'discr', 'p': _pl(nxt)})])
    unreach = B.block()
    j['blocks'][head]['term'] = {'t': 'call', 'callee': copy.deepcopy(NEXT_CALLEE), 'args': [{'o': 'copy', 'p': _pl(itref)}], 'dest': _pl(nxt), 'target': test, 'span': t['span'],
                                 'fn_span': t.get('fn_span', t['span']), 'synthetic': True}
    exit_b = B.block([B.assign(copy.deepcopy(dest), _use(_mv(acc)))], B.goto(target))
    bind = B.assign(_pl(x), _use(_payload(nxt, OPT, 'pos', item_ty)))
    entry, new = _expand_closure(w, B, cb, cl, [_use(_mv(acc)), _use(_mv(x))], _pl(acc), head, stack)
    j['blocks'][entry]['stmts'].insert(0, bind)
    j['blocks'][test]['term'] = {'t': 'switch', 'discr': _mv(d), 'discr_ty': 'isize', 'targets': [[0, exit_b], [1, entry]], 'otherwise': unreach, 'span': t['span']}
    blk['stmts'].extend(pre)
    blk['term'] = {'t': 'goto', 'target': head, 'span': t['span'], 'desugared': cp}
    return list(range(n0, len(j['blocks'])))


# ---------------------------------------------------------------------------------------------
# a dispatch loop written as an iterator pipeline that the arena consumes (benign2-C09-2):
#   arena.concat(node.children().map(f))   =>   let mut acc = arena.nil(); for x in node.children() { acc += f(x) }; acc
# Only the direct form (the receiver of `map` is the children iterator itself) is rewritten; the loop it stands for is then an ordinary
# loop over syntax nodes for every engine.  Applied to the bodies of typstyle-core when the fact base is loaded (world.py).
# ---------------------------------------------------------------------------------------------
NIL_CALLEE = {'def': {'id': 'pretty::DocAllocator::nil', 'path': 'pretty::DocAllocator::nil', 'crate': 'pretty', 'local': False}, 'args': [],
              's': "<pretty::Arena<'_> as pretty::DocAllocator<'_>>::nil", 'synthetic': True}
ADD_ASSIGN_CALLEE = {'def': {'id': 'core::ops::arith::AddAssign::add_assign', 'path': 'std::ops::AddAssign::add_assign', 'crate': 'core', 'local': False}, 'args': [],
                     's': "<pretty::DocBuilder<'_, pretty::Arena<'_>> as std::ops::AddAssign>::add_assign", 'synthetic': True}


def _desugar_concat_map(w, j, bi, stack):
    blk = j['blocks'][bi]
    t = blk['term']
    cp = callee_path(t) or ''
    if not cp.endswith('DocAllocator::concat') or t['target'] is None or len(t['args']) != 2 or t['dest']['proj']:
        return None
    it = t['args'][1]
    if it.get('o') not in ('move', 'copy') or it['p']['proj']:
        return None
    cur0, d = it['p']['l'], None
    for _ in range(4):
        d = _single_def(j, cur0)
        if d is not None and d[0] == 'rv' and d[1].get('r') == 'use' and d[1]['op'].get('o') in ('move', 'copy') and not d[1]['op']['p']['proj']:
            cur0 = d[1]['op']['p']['l']
            continue
        break
    if d is None or d[0] != 'call' or (callee_path(d[1]) or '') != 'std::iter::Iterator::map' or len(d[1]['args']) != 2:
        return None
    mt = d[1]
    inner = mt['args'][0]
    if inner.get('o') not in ('move', 'copy') or inner['p']['proj']:
        return None
    # the receiver of map is the children iterator itself
    cur, ok = inner['p']['l'], False
    for _ in range(4):
        dd = _single_def(j, cur)
        if dd is None:
            break
        if dd[0] == 'call' and (callee_path(dd[1]) or '').endswith('SyntaxNode::children'):
            ok = True
            break
        if dd[0] == 'rv' and dd[1].get('r') == 'use' and dd[1]['op'].get('o') in ('move', 'copy') and not dd[1]['op']['p']['proj']:
            cur = dd[1]['op']['p']['l']
            continue
        break
    if not ok:
        return None
    cb, cl = _closure_of_operand(w, j, mt['args'][1])
    if cb is None or cb.id in stack or len(stack) >= 4 or cb.arg_count != 2:
        return None
    B = _Builder(j, t['span'], stack)
    n0 = len(j['blocks'])
    dest, target = t['dest'], t['target']
    il = inner['p']['l']
    ity = j['locals'][il]['ty']
    item_ty = cb.j['locals'][2]['ty']
    dty = j['locals'][dest['l']]['ty']
    acc = B.local(dty)
    accref = B.local({'k': 'ref', 'mut': True, 't': dty, 's': '&mut %s' % dty.get('s', '?')})
    piece = B.local(cb.j['locals'][0]['ty'])
    unit = B.local({'k': 'tuple', 'ts': [], 's': '()'})
    nxt = B.local(_opt_ty(item_ty))
    dd_ = B.local({'k': 'int', 'n': 'isize', 's': 'isize'})
    x = B.local(item_ty)
    itref = B.local({'k': 'ref', 'mut': True, 't': ity, 's': '&mut %s' % ity.get('s', '?')})
    head = B.block([B.assign(_pl(itref), {'r': 'ref', 'mut': True, 'p': _pl(il)})])
    test = B.block([B.assign(_pl(dd_), {'r': 'discr', 'p': _pl(nxt)})])
    unreach = B.block()
    j['blocks'][head]['term'] = {'t': 'call', 'callee': copy.deepcopy(NEXT_CALLEE), 'args': [{'o': 'copy', 'p': _pl(itref)}], 'dest': _pl(nxt), 'target': test, 'span': t['span'],
                                 'fn_span': t.get('fn_span', t['span']), 'synthetic': True}
    exit_b = B.block([B.assign(copy.deepcopy(dest), _use(_mv(acc)))], B.goto(target))
    add_b = B.block([B.assign(_pl(accref), {'r': 'ref', 'mut': True, 'p': _pl(acc)})])
    j['blocks'][add_b]['term'] = {'t': 'call', 'callee': copy.deepcopy(ADD_ASSIGN_CALLEE), 'args': [_mv(accref), _mv(piece)], 'dest': _pl(unit), 'target': head, 'span': t['span'],
                                  'fn_span': t.get('fn_span', t['span']), 'synthetic': True}
    bind = B.assign(_pl(x), _use(_payload(nxt, OPT, 'pos', item_ty)))
    entry, new = _expand_closure(w, B, cb, cl, [_use(_mv(x))], _pl(piece), add_b, stack)
    j['blocks'][entry]['stmts'].insert(0, bind)
    j['blocks'][test]['term'] = {'t': 'switch', 'discr': _mv(dd_), 'discr_ty': 'isize', 'targets': [[0, exit_b], [1, entry]], 'otherwise': unreach, 'span': t['span']}
    blk['term'] = {'t': 'call', 'callee': copy.deepcopy(NIL_CALLEE), 'args': [copy.deepcopy(t['args'][0])], 'dest': _pl(acc), 'target': head, 'span': t['span'],
                   'fn_span': t.get('fn_span', t['span']), 'synthetic': True, 'desugared': cp + ' over map'}
    return list(range(n0, len(j['blocks'])))


def pipelines_desugared(w, body):
    """the body with `arena.concat(children().map(f))` rewritten as the loop it stands for; None when the body has no such pipeline"""
    if not any(blk['term']['t'] == 'call' and (callee_path(blk['term']) or '').endswith('DocAllocator::concat') for blk in body.j['blocks']):
        return None
    j = copy.deepcopy(body.j)
    for blk in j['blocks']:
        blk.setdefault('inl', ())
    changed = False
    for bi in range(len(j['blocks'])):
        blk = j['blocks'][bi]
        if blk['term']['t'] == 'call' and not blk.get('cleanup'):
            if _desugar_concat_map(w, j, bi, blk['inl']):
                changed = True
    if not changed:
        return None
    nb = Body(j, body.crate)
    nb.inlined = ['desugared:concat-map']
    nb.original = body
    return nb


_DESUGARED = {}


def desugared(w, body):
    """the body with closure-taking std combinators / iterator consumers rewritten as the match / loop they stand for (no function inlined); the body itself when nothing applies"""
    key = (id(w), body.id)
    if key not in _DESUGARED:
        nb = inline_body(w, body, lambda cb, t, d: False)
        _DESUGARED[key] = nb if nb.inlined else body
    return _DESUGARED[key]


def inline_body(w, body, pred, max_depth=3, max_blocks=1500, desugar=True, adaptors=None):
    adaptors = desugar if adaptors is None else adaptors
    j = copy.deepcopy(body.j)
    for blk in j['blocks']:
        blk.setdefault('inl', ())
    inlined = []
    work = list(range(len(j['blocks'])))
    while work:
        bi = work.pop(0)
        blk = j['blocks'][bi]
        t = blk['term']
        if t['t'] != 'call' or blk.get('cleanup'):
            continue
        c = t.get('callee')
        if c is None:
            continue
        if desugar and len(j['blocks']) < max_blocks:
            new = _desugar(w, j, bi, blk['inl']) or _desugar_iter(w, j, bi, blk['inl'])
            if new:
                inlined.append('desugared:%s' % (callee_path(t) or ''))
                work.extend(new)
                continue
        if adaptors and len(j['blocks']) < max_blocks:
            new = _desugar_adaptor_next(w, j, bi, blk['inl']) or _desugar_fold(w, j, bi, blk['inl'])
            if new:
                inlined.append('desugared:%s' % (callee_path(t) or ''))
                work.extend(new)
                continue
        cp = callee_path(t) or ''
        if cp.startswith(('std::ops::Fn', 'core::ops::function::Fn')) or '::call_once' in cp or cp.endswith(('::call', '::call_mut')):
            continue
        rid = resolved_id(t)
        cb = w.bodies.get(rid) or w.bodies.get(c['def']['id'])
        if cb is None or cb.promoted is not None or cb.def_kind not in ('Fn', 'AssocFn'):
            continue
        stack = blk['inl']
        if cb.id == body.id or cb.id in stack or len(stack) >= max_depth:
            continue
        if len(t['args']) != cb.arg_count or not _monomorphic(cb):
            continue
        if not pred(cb, t, len(stack)):
            continue
        if len(j['blocks']) + len(cb.blocks) > max_blocks:
            continue
        loff = len(j['locals'])
        boff = len(j['blocks'])
        dest = t['dest']
        direct = not dest['proj']
        if direct:
            lmap = lambda l, loff=loff, d=dest['l']: d if l == 0 else loff + l
        else:
            lmap = lambda l, loff=loff: loff + l
        # locals (callee local 0 keeps a slot even when mapped to the destination, so that numbering stays simple)
        for lc in cb.j['locals']:
            nl = copy.deepcopy(lc)
            nl['l'] = loff + lc['l']
            nl['inl_of'] = cb.id
            j['locals'].append(nl)
        for d in cb.j.get('debug', []):
            nd = copy.deepcopy(d)
            _remap(nd, lmap, boff, cb.id)
            j['debug'].append(nd)
        # blocks
        nstack = stack + (cb.id,)
        for cblk in cb.j['blocks']:
            nb = copy.deepcopy(cblk)
            _remap(nb, lmap, boff, cb.id)
            nb['inl'] = nstack
            nt = nb['term']
            if nt['t'] == 'return':
                sp = nt.get('span') or t['span']
                if not direct:
                    nb['stmts'].append({'s': 'assign', 'p': copy.deepcopy(dest), 'rv': {'r': 'use', 'op': {'o': 'move', 'p': {'l': loff, 'proj': []}, 'ty': cb.j['locals'][0]['ty']}},
                                        'span': sp})
                if t['target'] is None:
                    nb['term'] = {'t': 'unreachable', 'span': sp}
                else:
                    nb['term'] = {'t': 'goto', 'target': t['target'], 'span': sp}
            j['blocks'].append(nb)
        # the call site: bind the arguments, jump to the callee's entry
        for i, a in enumerate(t['args'], start=1):
            blk['stmts'].append({'s': 'assign', 'p': {'l': loff + i, 'proj': []}, 'rv': {'r': 'use', 'op': copy.deepcopy(a)}, 'span': t['span'], 'inl_arg_of': cb.id})
        blk['term'] = {'t': 'goto', 'target': boff, 'span': t['span'], 'inl_call': cb.id}
        inlined.append(cb.id)
        work.extend(range(boff, len(j['blocks'])))
    nb = Body(j, body.crate)
    nb.inlined = inlined
    nb.expanded_closures = sorted({x for blk in j['blocks'] for x in blk.get('inl', ()) if '{closure#' in x.rsplit('::', 1)[-1]})
    nb.original = body
    return nb
