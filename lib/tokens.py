"""Token-boundary analysis: which neighbouring tokens re-lex differently when no whitespace stands between them, and
which tokens a converted node can begin / end with.  Used by the token-separation rule (C04.R3 = C01.R6).

The rule evaluates complete child sequences of a parent kind (a *shape*, transcribed from typst-syntax's parser.rs) in
which every two elements are separated by a Space token, from the start of the converter, and walks the document the
converter returns: wherever two token-bearing atoms touch with nothing between them that renders as whitespace in every
layout, the last character class of the left one and the first of the right one must not be in the lexer's fusion
relation.  (Only pairs that had whitespace between them in the source can fuse: the lexer already split the others.)"""
import grammar
from kindflow import Doc, Text, Const, Node, Top

W = 'w'          # identifier / number character
ANY_OPEN = frozenset([W, '"', '{', '[', '(', '+', '-', '`', '$', '<', '.', '_x'])
NOFUSE = 'c'     # a token that fuses with nothing (comments are judged by C04.R1 / C06)

WORD_LEAVES = {'Ident', 'None', 'Auto', 'Bool', 'Int', 'Float', 'Numeric', 'Underscore', 'MathIdent'}
BLOCKS = ['CodeBlock', 'ContentBlock']


def _cls(ch):
    return W if (ch.isalnum() or ch == '_') else ch


def _spelling(kind):
    g = grammar.load()
    return g['spelling'].get(kind)


def leaf_edges(kind):
    """(first classes, last classes) of a leaf token kind, None if the kind is not a leaf this module knows"""
    if kind in WORD_LEAVES:
        if kind == 'Float':
            return frozenset([W, '.f']), frozenset([W, 'f.'])          # `.5` / `1.`
        return frozenset([W]), frozenset([W])
    sp = _spelling(kind)
    if sp:
        return frozenset([_cls(sp[0])]), frozenset([_cls(sp[-1])])
    if kind == 'Str':
        return frozenset(['"']), frozenset(['"'])
    if kind == 'Label':
        return frozenset(['<']), frozenset(['>'])
    if kind in ('LineComment', 'BlockComment'):
        return frozenset([NOFUSE]), frozenset([NOFUSE])
    return None


_EXPR_FIRST = None
_EXPR_LAST = None


def _fix():
    """FIRST / LAST character classes of every code node kind, least fixpoint over the shapes below"""
    global _EXPR_FIRST, _EXPR_LAST
    if _EXPR_FIRST is not None:
        return
    first, last = {}, {}
    kinds = set(grammar.CODE_EXPR) | set(grammar.PATTERN) | {'Args', 'Params', 'Named', 'Keyed', 'Spread', 'ImportItemPath', 'RenamedImportItem',
                                                              'ImportItems', 'Closure'}
    for k in kinds:
        le = leaf_edges(k)
        first[k], last[k] = (set(le[0]), set(le[1])) if le else (set(), set())
    E = list(grammar.CODE_EXPR)
    P = list(grammar.PATTERN)

    def u(d, ks):
        out = set()
        for k in ks:
            out |= d.get(k, set())
        return out
    for _ in range(8):
        F = {
            'CodeBlock': {'{'}, 'ContentBlock': {'['}, 'Array': {'('}, 'Dict': {'('}, 'Destructuring': {'('},
            # the printer may drop redundant parentheses, so the converted node may begin with what its body begins with
            'Parenthesized': {'('} | u(first, E + P),
            'Unary': {'+', '-', W}, 'Binary': u(first, E), 'FieldAccess': u(first, E), 'FuncCall': u(first, E) | {W},
            'Closure': {W, '('}, 'LetBinding': {W}, 'DestructAssignment': u(first, P), 'SetRule': {W}, 'ShowRule': {W}, 'Contextual': {W},
            'Conditional': {W}, 'WhileLoop': {W}, 'ForLoop': {W}, 'ModuleImport': {W}, 'ModuleInclude': {W}, 'LoopBreak': {W}, 'LoopContinue': {W},
            'FuncReturn': {W}, 'Raw': {'`'}, 'Equation': {'$'}, 'Args': {'(', '['}, 'Params': {'(', W}, 'Named': {W}, 'Keyed': u(first, E),
            'Spread': {'.'}, 'ImportItemPath': {W}, 'RenamedImportItem': {W}, 'ImportItems': {W},
        }
        L = {
            'CodeBlock': {'}'}, 'ContentBlock': {']'}, 'Array': {')'}, 'Dict': {')'}, 'Destructuring': {')'},
            'Parenthesized': {')'} | u(last, E + P),
            'Unary': u(last, E), 'Binary': u(last, E), 'FieldAccess': {W}, 'FuncCall': {')', ']'},
            'Closure': u(last, E), 'LetBinding': u(last, E + P), 'DestructAssignment': u(last, E), 'SetRule': {')'} | u(last, E), 'ShowRule': u(last, E),
            'Contextual': u(last, E), 'Conditional': {'}', ']'}, 'WhileLoop': {'}', ']'}, 'ForLoop': {'}', ']'},
            'ModuleImport': {W, '*', ')', '"'} | u(last, E), 'ModuleInclude': u(last, E), 'LoopBreak': {W}, 'LoopContinue': {W},
            'FuncReturn': {W} | u(last, E), 'Raw': {'`'}, 'Equation': {'$'}, 'Args': {')', ']'}, 'Params': {')', W}, 'Named': u(last, E + P),
            'Keyed': u(last, E), 'Spread': {'.'} | u(last, E), 'ImportItemPath': {W}, 'RenamedImportItem': {W}, 'ImportItems': {W},
        }
        changed = False
        for k, v in F.items():
            if not v <= first.setdefault(k, set()):
                first[k] |= v
                changed = True
        for k, v in L.items():
            if not v <= last.setdefault(k, set()):
                last[k] |= v
                changed = True
        if not changed:
            break
    _EXPR_FIRST, _EXPR_LAST = first, last


def node_edges(kind):
    """(first, last) character classes the converted text of a node of this kind can have; None = unknown kind"""
    le = leaf_edges(kind)
    if le and kind not in ('Label',) and kind not in grammar.CHILDREN:
        return le
    _fix()
    if kind in _EXPR_FIRST and _EXPR_FIRST[kind]:
        return frozenset(_EXPR_FIRST[kind]), frozenset(_EXPR_LAST[kind])
    return None


# the code-mode lexer's fusion relation on (last character class, first character class): the two tokens, written without whitespace
# between them, are lexed as something else (lexer.rs `code`, `number`, `ident`, `label`, comments)
_FUSE = {
    (W, W),                                                     # words, numbers, units: `let x`, `not a`, `1 em`, `as b`
    ('=', '='), ('=', '>'), ('<', '='), ('>', '='), ('!', '='), ('+', '='), ('-', '='), ('*', '='), ('/', '='),
    ('/', '/'), ('/', '*'), ('*', '/'),
    ('f.', '.'),                                                # `1.` + `.abs` reads `1` `..` `abs`
    ('<', W),                                                   # `<` directly before an identifier character begins a label
}
# not in the relation: a dot next to a digit (`1 .5`, `1. em`) - whether a word is a number is below the kind lattice, and `a .b` -> `a.b` is sound


def fuses(a, b):
    return (a, b) in _FUSE


def _text_edges(s):
    """(leading blank?, first class, last class, trailing blank?) of a literal string; None for the empty string"""
    if s == '':
        return None
    lead = s[0].isspace()
    trail = s[-1].isspace()
    t = s.strip()
    if not t:
        return (True, None, None, True)
    return (lead, _cls(t[0]), _cls(t[-1]), trail)


SEPARATORS = {'hardline', 'space', 'line', 'softline'}          # render as a blank or a line break in every layout
MAYBE_EMPTY = {'line_', 'softline_', 'nil'}                     # render as nothing when the enclosing group is flat


class Walk:
    """walks a document left to right keeping the set of possible `open right edges` (None = separated)"""

    def __init__(self, override=None):
        self.override = override or {}     # {kind: (first classes | None, last classes | None)} fixed by the shape under evaluation
        self.touches = []       # (left description, left classes, right description, right classes, fusing pairs)
        self.unknown = 0
        self.pairs = 0

    def run(self, doc, state=None):
        state = state if state is not None else {None}
        for a in doc.atoms:
            state = self.atom(a, state)
        return state

    def _meet(self, state, descr, first):
        for st in state:
            if st is None:
                continue
            lchars, ldescr = st
            self.pairs += 1
            bad = sorted((x, y) for x in lchars for y in first if fuses(x, y))
            if bad:
                self.touches.append((ldescr, sorted(lchars), descr, sorted(first), bad))

    def atom(self, a, state):
        k = a[0]
        if k in SEPARATORS:
            return {None}
        if k in MAYBE_EMPTY:
            return state
        if k == 'text':
            x = a[1]
            if isinstance(x, Const) and isinstance(x.v, str):
                te = _text_edges(x.v)
                if te is None:
                    return state
                lead, fc, lc, trail = te
                if fc is None:
                    return {None}
                if not lead:
                    self._meet(state, 'literal %r' % x.v, frozenset([fc]))
                return {None} if trail else {(frozenset([lc]), 'literal %r' % x.v)}
            if isinstance(x, Text):
                kind = x.node.kind
                if kind in ('Space', 'Parbreak'):
                    return {None}
                e = node_edges(kind)
                if e is None:
                    self.unknown += 1
                    return {None}
                self._meet(state, 'text of %s' % kind, e[0])
                return {(e[1], 'text of %s' % kind)}
            self.unknown += 1
            return {None}
        if k == 'conv':
            n = a[2]
            kind = n.kind if isinstance(n, Node) else None
            if kind in ('Space', 'Parbreak'):
                return {None}
            e = node_edges(kind) if kind else None
            if e is not None and kind in self.override:
                o = self.override[kind]
                e = (o[0] or e[0], o[1] or e[1])
            if e is None:
                self.unknown += 1
                return {None}
            d = '%s(%s)' % (a[1].rsplit('::', 1)[-1], kind)
            self._meet(state, d, e[0])
            return {(e[1], d)}
        if k == 'comment':
            return {(frozenset([NOFUSE]), 'comment')}
        if k == 'wrap':
            name = a[1]
            if name == 'enclose':
                st = self.run(a[3], state)
                st = self.run(a[2], st)
                return self.run(a[4], st)
            if name in ('parens', 'brackets', 'braces', 'angles', 'double_quotes', 'single_quotes'):
                o, c = {'parens': '()', 'brackets': '[]', 'braces': '{}', 'angles': '<>', 'double_quotes': '""', 'single_quotes': "''"}[name]
                self._meet(state, 'literal %r' % o, frozenset([o]))
                st = self.run(a[2], {(frozenset([o]), 'literal %r' % o)})
                self._meet(st, 'literal %r' % c, frozenset([c]))
                return {(frozenset([c]), 'literal %r' % c)}
            if name == 'repeat':
                st = self.run(a[2], state)
                return st | state
            st = state
            for d in a[2:]:
                if isinstance(d, Doc):
                    st = self.run(d, st)
            return st
        if k == 'alt':
            return self.run(a[1], state) | self.run(a[2], state)
        # unknown document
        self.unknown += 1
        return {None}
