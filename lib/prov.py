"""E4 - value provenance inside one MIR body (flow-insensitive backward def-use chase).

origins(place|operand) returns a set of Origin tuples (kind, data, proj):
  ('param', n, proj)          - the n-th argument local (1-based), with unresolved projections
  ('const', (tykind, value), ()) - literal constant
  ('fnitem', def_id, ())      - function item / closure-less fn value
  ('call', (bb, callee_path), proj) - result of the call terminating block bb
  ('agg', (bb, idx), proj)    - aggregate built by statement idx of block bb (only when a projection could not be resolved)
  ('binop', (bb, idx, op), ())
  ('unop', ...), ('cast', ...) are looked through for pure value casts
  ('ref', place_key, ())      - address of a place that is not a plain local chain
  ('discr', ..), ('unknown', why, ())
"""


def place_key(p):
    return (p['l'], tuple(_pe(e) for e in p['proj']))


def _pe(e):
    k = e['p']
    if k == 'field':
        return ('f', e['i'])
    if k == 'downcast':
        return ('v', e['v'])
    if k == 'deref':
        return ('*',)
    if k == 'index':
        return ('idx', e['l'])
    if k == 'cindex':
        return ('cidx', e['offset'], e['from_end'])
    if k == 'subslice':
        return ('sub', e['from'], e['to'], e['from_end'])
    return (k,)


class Prov:
    def __init__(self, body):
        self.body = body
        self.defs = {}   # local -> list of (proj_tuple, kind, bb, idx, payload)
        for bi, b in enumerate(body.blocks):
            if b['cleanup']:
                continue
            for si, s in enumerate(b['stmts']):
                if s['s'] == 'assign':
                    l, proj = place_key(s['p'])
                    self.defs.setdefault(l, []).append((proj, 'rv', bi, si, s['rv']))
                elif s['s'] == 'setdiscr':
                    l, proj = place_key(s['p'])
                    self.defs.setdefault(l, []).append((proj, 'setdiscr', bi, si, s))
            t = b['term']
            if t['t'] == 'call':
                l, proj = place_key(t['dest'])
                self.defs.setdefault(l, []).append((proj, 'call', bi, None, t))

    # ------------------------------------------------------------------
    def origins_operand(self, op, _visiting=None):
        k = op['o']
        if k in ('copy', 'move'):
            return self.origins_place(op['p'], _visiting)
        if k == 'const':
            if 'fn' in op:
                return {('fnitem', op['fn']['def']['id'], ())}
            if 'str' in op:
                return {('const', ('str', op['str']), ())}
            if 'int' in op:
                return {('const', (op['ty']['s'], op['int']), ())}
            if 'promoted' in op:
                if op.get('promoted_owner'):
                    return {('promoted', (op['promoted_owner'], op['promoted']), ())}      # a constant of an expanded callee (inline.py)
                return {('promoted', op['promoted'], ())}
            if 'uneval' in op:
                return {('constitem', op['uneval']['id'], ())}
            return {('const', ('other', op['s']), ())}
        return {('unknown', k, ())}

    def origins_place(self, p, _visiting=None):
        l, proj = place_key(p)
        return self._origins(l, proj, _visiting or frozenset())

    def _origins(self, l, proj, visiting):
        base = self._origins_local(l, visiting)
        cur = base
        for e in proj:
            nxt = set()
            for o in cur:
                nxt |= self._project(o, e, visiting)
            cur = nxt
        return cur

    def _origins_local(self, l, visiting):
        body = self.body
        if 1 <= l <= body.arg_count:
            out = {('param', l, ())}
            # params can be reassigned (mut self builders); include whole-local defs as well
            for (proj, kind, bi, si, payload) in self.defs.get(l, []):
                if proj == ():
                    out |= self._origin_of_def(l, kind, bi, si, payload, visiting)
            return out
        if l in visiting:
            return {('cycle', l, ())}
        visiting = visiting | {l}
        out = set()
        ds = self.defs.get(l, [])
        if not ds:
            return {('undef', l, ())}
        for (proj, kind, bi, si, payload) in ds:
            if proj == ():
                out |= self._origin_of_def(l, kind, bi, si, payload, visiting)
            else:
                out.add(('partial', (l, proj, bi, si), ()))
        return out

    def _origin_of_def(self, l, kind, bi, si, payload, visiting):
        if kind == 'call':
            path = payload['callee']['def']['path'] if payload.get('callee') else '<indirect>'
            return {('call', (bi, path), ())}
        if kind == 'setdiscr':
            return {('setdiscr', (bi, si), ())}
        rv = payload
        r = rv['r']
        if r == 'use':
            return self.origins_operand(rv['op'], visiting)
        if r == 'ref' or r == 'rawptr':
            pl, pp = place_key(rv['p'])
            if pp and pp[-1] == ('*',):
                # reborrow `&(*x)` / `&mut (*x)`: same referent as x
                return self._origins(pl, pp[:-1], visiting)
            return {('ref', (pl, pp), ())}
        if r == 'cast':
            inner = self.origins_operand(rv['op'], visiting)
            return {('cast', (rv['kind'], rv['ty']['s'], o), ()) for o in inner}
        if r == 'agg':
            return {('agg', (bi, si), ())}
        if r == 'binop':
            return {('binop', (bi, si, rv['op']), ())}
        if r == 'unop':
            return {('unop', (bi, si, rv['op']), ())}
        if r == 'discr':
            return {('discr', place_key(rv['p']), ())}
        return {('unknown', r, ())}

    def _project(self, o, e, visiting):
        kind, data, proj = o
        if kind == 'ref' and e == ('*',) and proj == ():
            l, pr = data
            return self._origins(l, pr, visiting)
        if kind == 'agg' and proj == () and e[0] == 'v':
            rv = self.body.blocks[data[0]]['stmts'][data[1]]['rv']
            if rv.get('ak') == 'adt' and rv.get('variant') is not None and isinstance(e[1], int) and rv['variant'] != e[1]:
                return set()       # downcast to a variant this aggregate was not built as: unreachable read (`(x as Some).0` of a `None`)
            return {('agg', data, (e,))}
        if kind == 'agg' and e[0] == 'f' and (proj == () or (len(proj) == 1 and proj[0][0] == 'v')):
            bi, si = data
            rv = self.body.blocks[bi]['stmts'][si]['rv']
            if e[1] < len(rv['ops']):
                return self.origins_operand(rv['ops'][e[1]], visiting)
            return {('unknown', 'agg-field', ())}
        return {(kind, data, proj + (e,))}

    # ------------------------------------------------------------------
    def peel(self, origins, depth=6):
        """replace `&place` origins by the origins of the place itself (treat borrows as the value)"""
        out = set()
        for o in origins:
            if o[0] == 'ref' and not o[2] and depth > 0:
                l, pr = o[1]
                out |= self.peel(self._origins(l, pr, frozenset()), depth - 1)
            elif o[0] == 'cast':
                out |= self.peel({o[1][2]}, depth)
            else:
                out.add(o)
        return out

    def values_operand(self, op):
        return self.peel(self.origins_operand(op))

    def through(self, origins, passthrough, depth=8):
        """peel, and additionally look through calls whose declared/resolved path matches the
        `passthrough` regex by following their first argument (Deref::deref, as_str, into_iter, ...)"""
        out = set()
        work = [(o, depth) for o in self.peel(origins)]
        while work:
            o, d = work.pop()
            if o[0] == 'call' and not o[2] and d > 0:
                t = self.call_term(o)
                c = t.get('callee')
                names = []
                if c:
                    names.append(c['def']['path'])
                    if c.get('resolved'):
                        names.append(c['resolved']['def']['path'])
                if any(passthrough.search(n) for n in names) and t['args']:
                    for x in self.peel(self.origins_operand(t['args'][0])):
                        work.append((x, d - 1))
                    continue
            out.add(o)
        return out

    # ------------------------------------------------------------------
    def agg_rvalue(self, origin):
        kind, data, proj = origin
        assert kind == 'agg'
        bi, si = data
        return self.body.blocks[bi]['stmts'][si]['rv']

    def call_term(self, origin):
        kind, data, proj = origin
        assert kind == 'call'
        return self.body.blocks[data[0]]['term']


def strip_casts(o):
    while o[0] == 'cast':
        o = o[1][2]
    return o


def fmt_origin(o, body=None):
    kind, data, proj = o
    ps = ''.join('.%s' % '/'.join(str(x) for x in e) for e in proj)
    if kind == 'param':
        nm = body.names.get(data) if body else None
        return 'param %s%s' % (nm or ('_%d' % data), ps)
    if kind == 'call':
        return 'call %s@bb%d%s' % (data[1], data[0], ps)
    if kind == 'const':
        return 'const %r' % (data[1],)
    if kind == 'cast':
        return 'cast<%s>(%s)' % (data[1], fmt_origin(data[2], body))
    if kind in ('binop', 'unop'):
        return '%s %s%s' % (kind, data[2], ps)
    if kind in ('agg', 'setdiscr', 'partial'):
        return '%s%s' % (kind, ps)
    return '%s %s%s' % (kind, data, ps)
