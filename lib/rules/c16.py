"""C16 - all front-ends agree with the library."""
import re
from prov import Prov, strip_casts, fmt_origin
from mirfacts import callee_path, resolved_id, resolved_path, callee_str
from framework import RuleResult, AnchorMissing
from rules.cli_common import Cli, CHECK, INPLACE, VIEW, CORE_FORMAT
from rules import c11, c14, c15
from tyutil import adt_lookup

META = {
    'explanation': 'Provenance and who-may-call rules over the MIR of both crates: (R1) the option mapping copies column/tab_width/'
                   'reorder_import_items into max_width/tab_spaces/reorder_import_items and takes the rest from Default; (R2) the CLI reaches '
                   'typstyle_core only through Typstyle::new(to_config(args.style)) and the format_* entries, which all funnel into the one render '
                   'entry; (R3) text reaches stdout only through print! with the single-placeholder template (no added newline), the printed value is '
                   'the formatted payload (or the input on the erroneous edge), inputs are iterated in argument order; (R4) the width-only '
                   'convenience function falls back to its own input and its cfg(wasm32) export is a plain call of it (pre-expansion AST).',
    'decides': 'option plumbing, funnelling and the byte-exact output idiom',
    'does_not_decide': 'clap\'s parsing of numeric option values; the wasm-bindgen glue (not compiled on this host)',
    'trusted_base': ['clap derive', 'print! writes exactly the Display output of its argument for the "{}" template', 'rustc MIR construction and format_args! lowering'],
}

EXPECTED_MAPPING = {
    'tab_spaces': 'field:typstyle::cli::StyleArgs.tab_width',
    'max_width': 'field:typstyle::cli::StyleArgs.column',
    'reorder_import_items': 'field:typstyle::cli::StyleArgs.reorder_import_items',
}
CONFIG_ID = 'typstyle_core::config::Config'


def _to_config(c):
    out = [b for b in c.fns() if b.def_kind != 'Closure' and b.locals[0]['ty'].get('id') == CONFIG_ID
           and b.arg_count == 1 and 'StyleArgs' in b.locals[1]['ty']['s']]
    if len(out) != 1:
        raise AnchorMissing('option mapping (fn(&StyleArgs) -> Config): found %s' % [b.short for b in out])
    return out[0]


DEFAULT_DESC = 'call:typstyle_core::config::{impl#0}::default()'


def eval_config_value(w, b, v, fields, depth=0):
    """Straight-line evaluation of a function that builds a Config: per Config-typed local, where each field comes from.  Accepted shapes:
    a Config literal (with or without `..Default::default()`), default()/new(), builder methods of typstyle-core (`fn(self, x) -> Self`, evaluated the same
    way and applied as field transformers), moves between locals, and field assignments.  Returns (state of the returned value | None, reason, span).
    Field values are provenance descriptions in b (`describe_operand`), DEFAULT_DESC, or - inside a builder - 'self.<field>'."""
    def is_cfg(l):
        return b.locals[l]['ty'].get('id') == CONFIG_ID
    state = {}
    for i in range(1, b.arg_count + 1):
        if is_cfg(i):
            state[i] = {name: 'self.' + name for name in fields}
    bb, seen, shape_bad = 0, set(), None
    last_span = None
    while True:
        if bb in seen:
            shape_bad = 'a loop'
            break
        seen.add(bb)
        blk = b.blocks[bb]
        for st in blk['stmts']:
            if st['s'] != 'assign' or not is_cfg(st['p']['l']):
                continue
            l, proj, rv = st['p']['l'], st['p']['proj'], st['rv']
            if not proj:
                if rv['r'] == 'agg' and rv.get('adt') == CONFIG_ID:
                    state[l] = {}
                    for i, name in enumerate(fields):
                        op = rv['ops'][i]
                        # `..base`: the field is moved out of another Config local
                        if op['o'] in ('move', 'copy') and op['p']['l'] in state and len(op['p']['proj']) == 1 and op['p']['proj'][0].get('p') == 'field':
                            state[l][name] = state[op['p']['l']][fields[op['p']['proj'][0]['i']]]
                        else:
                            state[l][name] = v.describe_operand(op)
                    last_span = st['span']
                elif rv['r'] == 'use' and rv['op']['o'] in ('move', 'copy') and not rv['op']['p']['proj'] and rv['op']['p']['l'] in state:
                    state[l] = dict(state[rv['op']['p']['l']])
                else:
                    shape_bad = 'a Config value built by %s' % rv['r']
            elif len(proj) == 1 and proj[0].get('p') == 'field' and l in state:
                if rv['r'] == 'use':
                    state[l][fields[proj[0]['i']]] = v.describe_operand(rv['op'])
                else:
                    state[l][fields[proj[0]['i']]] = 'rvalue:' + rv['r']
                last_span = st['span']
            else:
                shape_bad = 'a partial write the evaluator does not follow'
        t = blk['term']
        if t['t'] == 'call' and not t['dest']['proj'] and is_cfg(t['dest']['l']):
            p_ = resolved_path(t) or callee_path(t) or ''
            rid = resolved_id(t)
            tb = w.bodies.get(rid)
            if re.search(r'^<typstyle_core::Config as std::default::Default>::default$', p_) or \
                    (tb is not None and tb.crate is w.core and tb.short.endswith('::default') and tb.arg_count == 0
                     and 'Default' in ((tb.j.get('impl_trait') or {}).get('path') or '') and tb.locals[0]['ty'].get('id') == CONFIG_ID):
                state[t['dest']['l']] = {name: DEFAULT_DESC for name in fields}
            elif re.search(r'Clone>::clone$|Clone::clone$', p_) and t['args'] and t['args'][0]['o'] in ('move', 'copy'):
                src = [o for o in v.pv.origins_operand(t['args'][0]) if o[0] == 'ref']
                if len(src) == 1 and src[0][1][0] in state and not src[0][1][1]:
                    state[t['dest']['l']] = dict(state[src[0][1][0]])
                else:
                    shape_bad = 'a clone of a Config the evaluator does not follow'
            elif tb is not None and tb.crate is w.core and depth < 3 and tb.locals[0]['ty'].get('id') == CONFIG_ID:
                from paths import BodyView
                sub_state, why, _sp = eval_config_value(w, tb, BodyView(w, tb), fields, depth + 1)
                sub = None if why else sub_state.get(0)
                if sub is None:
                    shape_bad = 'a Config value returned by %s (%s)' % (p_, why)
                else:
                    cfg_args = [i for i in range(1, tb.arg_count + 1) if tb.locals[i]['ty'].get('id') == CONFIG_ID]
                    base = None
                    if cfg_args:
                        a = t['args'][cfg_args[0] - 1]
                        if a['o'] in ('move', 'copy') and not a['p']['proj'] and a['p']['l'] in state:
                            base = state[a['p']['l']]
                    out = {}
                    for name in fields:
                        d = sub[name]
                        m = re.match(r'^self\.(\w+)$', d)
                        pm = re.match(r'^param(\d+)$', d)
                        if m:
                            if base is None:
                                shape_bad = 'a builder applied to a Config the evaluator does not follow'
                                break
                            out[name] = base[m.group(1)]
                        elif pm:
                            out[name] = v.describe_operand(t['args'][int(pm.group(1)) - 1])
                        elif d == DEFAULT_DESC or d.startswith('const:'):
                            out[name] = d
                        else:
                            out[name] = 'via %s: %s' % (tb.short, d)
                    else:
                        state[t['dest']['l']] = out
                    last_span = t['span']
            else:
                shape_bad = 'a Config value returned by %s' % p_
        if t['t'] == 'return':
            break
        succ = [x for x in b.succs(bb) if not b.blocks[x]['cleanup']]
        if t['t'] == 'switch' or len(succ) != 1:
            shape_bad = 'a branch'
            break
        bb = succ[0]
    return state, shape_bad, last_span


def config_fields(w):
    cfg_adt = adt_lookup(w, CONFIG_ID)
    if cfg_adt is None:
        raise AnchorMissing('Config ADT')
    return [f['name'] for f in cfg_adt['variants'][0]['fields']]


def r1_option_mapping(w):
    r = RuleResult('C16.R1', 'option mapping: max_width<-column, tab_spaces<-tab_width, reorder_import_items<-reorder flag, rest from Default', floor=4)
    c = Cli(w)
    b = _to_config(c)
    v = c.view(b)
    fields = config_fields(w)
    state, shape_bad, last_span = eval_config_value(w, b, v, fields)
    if shape_bad or 0 not in state:
        r.bad({'fn': b.short}, '%s|shape' % b.short, 'option mapping is not a straight-line construction of one Config value (found %s)' % (shape_bad or 'no Config value reaching the return'), b.loc())
        return r
    for name in fields:
        desc = state[0][name]
        cons = {'fn': b.short, 'field': name, 'from': desc}
        if name in EXPECTED_MAPPING:
            if desc == EXPECTED_MAPPING[name]:
                r.ok(cons, 'pure copy of the CLI option')
            else:
                r.bad(cons, 'mapping|%s' % name, 'Config.%s is set from %s, expected a pure copy of %s' % (name, desc, EXPECTED_MAPPING[name]), b.loc(last_span))
        else:
            if re.match(r'^call:typstyle_core::config::\{impl#\d+\}::default\(\)', desc) or desc.startswith('field:typstyle_core::config::Config.' + name):
                r.ok(cons, 'library default')
            else:
                r.bad(cons, 'mapping|%s' % name, 'Config.%s is set from %s instead of the library default' % (name, desc), b.loc(last_span))
    return r


ALLOWED_CORE = re.compile(r'^typstyle_core::Typstyle::(new|format_content|format_source|format_source_inspect)$'
                          r'|^<typstyle_core::Config as std::default::Default>::default$'
                          r'|^typstyle_core::Config::(new|with_width|with_tab_spaces)$'
                          r'|^<typstyle_core::(Error|Config|Typstyle) as std::(fmt::(Display|Debug)|clone::Clone)>::')


def r2_single_funnel(w):
    r = RuleResult('C16.R2', 'CLI reaches the library only via Typstyle::new(to_config(args.style)).format_*; all library entries funnel into one render entry', floor=5)
    c = Cli(w)
    for ok, cons, key, why, loc in input_untouched_obligations(w, c):
        if ok:
            r.ok(cons, why)
        else:
            r.bad(cons, key, why, loc)
    n = 0
    for b in c.fns():
        v = None
        for bi, t in b.calls():
            p = resolved_path(t) or ''
            dp = callee_path(t) or ''
            if not (p.startswith('typstyle_core::') or dp.startswith('typstyle_core::') or '<typstyle_core::' in p):
                continue
            n += 1
            cons = {'fn': b.short, 'callee': p}
            if not (ALLOWED_CORE.search(p) or ALLOWED_CORE.search(dp)):
                r.bad(cons, '%s|core-callee|%s' % (b.short, p), 'CLI calls `%s` in %s: front-end output could differ from the library\'s format entry' % (p, b.short), b.loc(t['span']))
                continue
            if p.endswith('Typstyle::new'):
                v = v or c.view(b)
                d = v.describe_operand(t['args'][0])
                via_mapping, _why = c.config_ok(b, t['args'][0])
                if via_mapping:
                    r.ok(cons, 'configured by to_config(args.style)')
                else:
                    r.bad(cons, '%s|config' % b.short, 'Typstyle::new in %s is configured from %s, not from the option mapping' % (b.short, d), b.loc(t['span']))
            else:
                r.ok(cons, 'library entry')
    if n < 3:
        raise AnchorMissing('calls from the CLI into typstyle_core (found %d)' % n)
    # library side: reuse C11.R1's delegation analysis (every public text entry delegates to the render entry)
    r11 = c11.r1_postprocess_on_every_ok(w)
    for inst in r11.instances:
        if 'returns' in inst['construct']:
            if inst['verdict'] == 'ok':
                r.ok({'library_entry': inst['construct']['entry']}, 'funnels into the render entry')
            else:
                r.bad({'library_entry': inst['construct']['entry']}, 'funnel|%s' % inst['construct']['entry'],
                      'library entry %s does not funnel into the single render entry: %s' % (inst['construct']['entry'], inst['why']))
    return r


def input_untouched_obligations(w, c):
    """[(ok, construct, key, why, loc)]: a String that holds what was read (file / stdin) is not modified in place before it is formatted, compared and
    printed: the only `&mut` use is the read that fills it.  (`content.drain(..)`, `retain`, `truncate`, `make_ascii_..` after the read would make the
    front-end format something other than the input.)"""
    out = []
    for b in c.fns():
        v = c.view(b)
        for l in range(1, len(b.locals)):
            if b.locals[l]['ty']['s'] != 'std::string::String' or l <= b.arg_count:
                continue
            ors = v.pv._origins_local(l, frozenset())
            if not ors:
                continue
            try:
                tags = c.classify_text(b, ors)
            except Exception:
                continue
            if tags != {'input'}:
                continue
            for bi, blk in enumerate(b.blocks):
                if blk['cleanup']:
                    continue
                for st in blk['stmts']:
                    if st['s'] == 'assign' and st['rv']['r'] in ('ref', 'rawptr') and st['rv'].get('mut') and st['rv']['p']['l'] == l:
                        # who receives the borrow?
                        tl = st['p']['l']
                        users = [t for _, t in b.calls() if any(a.get('o') in ('move', 'copy') and a['p']['l'] == tl for a in t['args'])]
                        for t in users:
                            p_ = resolved_path(t) or callee_path(t) or ''
                            cons = {'fn': b.short, 'input_text': b.names.get(l, '_%d' % l), 'mutable_use': p_}
                            if re.search(r'read_to_string$|Read>?::read_to_end$', p_):
                                out.append((True, cons, None, 'filled by the read', None))
                            elif re.search(r'Deref(Mut)?>?::deref(_mut)?$|::as_mut_str$', p_):
                                out.append((False, cons, '%s|input-mutated|%s' % (b.short, p_.rsplit('::', 1)[-1]), 'the input text is handed out mutably in %s' % b.short, b.loc(t['span'])))
                            else:
                                out.append((False, cons, '%s|input-mutated|%s' % (b.short, p_.rsplit('::', 1)[-1]),
                                            'the text read from the file / stdin is modified in place by `%s` in %s before it is formatted: this front-end formats (and compares, '
                                            'writes back, echoes) something other than its input, and disagrees with the library and the other front-ends on such inputs' % (p_, b.short),
                                            b.loc(t['span'])))
    return out


def r3_bytes_out(w):
    r = RuleResult('C16.R3', 'stdout text only via print!("{}") (no added newline); printed value = formatted payload / input on the erroneous edge; argument order kept', floor=4)
    c = Cli(w)
    for (b, bi, t, shown, template) in c14.text_prints(c):
        texty = [(s, how, ors) for (s, how, ors) in shown if c14.TEXT_TYPES.search(s or '')]
        if not texty:
            continue
        tags = set()
        for (s, how, ors) in texty:
            tags |= c.classify_text(b, ors)
        if (b.j.get('impl_trait') or {}).get('path', '').startswith('log::'):
            continue       # the logger's own sink (stderr diagnostics)
        v = c.view(b)
        cons = {'fn': b.short, 'bb': bi, 'template': template, 'value': sorted(tags)}
        p = callee_path(t)
        if not ({'formatted', 'input'} & tags) and p == 'std::io::_print':
            r.bad(cons, '%s|printed-value|other' % b.short,
                  'text printed to stdout in %s is neither the library result nor the input: provenance %s' % (b.short, sorted(tags)), b.loc(t['span']))
            continue
        if not ({'formatted', 'input'} & tags):
            continue
        if p != 'std::io::_print':
            r.bad(cons, '%s|stream' % b.short, 'text is written with %s instead of stdout' % p, b.loc(t['span']))
            continue
        if template != [0xC0, 0x00] or len(shown) != 1:
            r.bad(cons, '%s|template|%s' % (b.short, '+'.join(sorted(tags))),
                  'text is printed in %s with a format template other than the single placeholder "{}" (template bytes %s): output differs from the library text '
                  '(println!/extra literal text adds bytes)' % (b.short, template), b.loc(t['span']))
            continue
        # which result variant dominates the print?
        variant = None
        for atom, vals, s in v.guards_ext(bi):
            if atom.startswith('discr(call:typstyle::fmt::format_debug') or (vals and all(isinstance(x, str) for x in vals) and set(vals) <= {'Changed', 'Unchanged', 'Erroneous'}
                                                                             and isinstance(s, int)):
                variant = vals if variant is None else (set(variant) & set(vals))
        if variant is None:
            # join block of several variants: look at the provenance only
            variant = set()
        want = {'input'} if variant == {'Erroneous'} else {'formatted'}
        if tags == want:
            r.ok(cons, 'prints %s text byte for byte' % next(iter(want)))
        else:
            r.bad(cons, '%s|printed-value|%s' % (b.short, '+'.join(sorted(x.split(':')[0] for x in tags))),
                  'value printed in %s under result variant %s has provenance %s, expected %s' % (b.short, sorted(variant), sorted(tags), sorted(want)), b.loc(t['span']))
    # who may write to stdout: only print! (judged above).  A hand-written writer (stdout().write(..) may write only part of the text,
    # write_all / writeln! bypass the template check) is reported; the shell-completion generator is the one other stdout user.
    printed = {'formatted': 0, 'input': 0}
    for (b, bi, t, shown, template) in c14.text_prints(c):
        if callee_path(t) == 'std::io::_print':
            for (s_, how, ors) in shown:
                for tag in c.classify_text(b, ors):
                    if tag in printed:
                        printed[tag] += 1
    for fb in c.fns():
        for bi, t in fb.calls():
            p = resolved_path(t) or callee_path(t) or ''
            dp = callee_path(t) or ''
            if not (re.search(r'std::io::(stdio::)?stdout$', p) or re.search(r'std::io::(stdio::)?stdout$', dp)):
                continue
            cons = {'fn': fb.short, 'call': 'std::io::stdout()'}
            if (fb.j.get('impl_trait') or {}).get('path', '').startswith('log::'):
                r.ok(cons, 'the logger\'s sink for info-level diagnostics (shown below never to be reached in stdout-output mode)')
                continue
            # where does the handle go?
            users = sorted({(resolved_path(t2) or callee_path(t2) or '').rsplit('::', 2)[-2] + '::' + (resolved_path(t2) or callee_path(t2) or '').rsplit('::', 1)[-1]
                            for _, t2 in fb.calls() if re.search(r'Stdout|StdoutLock|io::Write|clap_complete', (callee_str(t2) or '') + (resolved_path(t2) or ''))})
            if any('clap_complete' in (resolved_path(t2) or callee_path(t2) or '') for _, t2 in fb.calls()) and not any(
                    re.search(r'io::Write>?::(write|write_all|write_fmt)$', resolved_path(t2) or callee_path(t2) or '') for _, t2 in fb.calls()):
                r.ok(cons, 'handed to the shell-completion generator (not formatter output)')
            else:
                r.bad(cons, '%s|stdout-writer' % fb.short,
                      '%s writes to stdout through its own handle (%s) instead of print!("{}"): a plain Write::write may emit only part of the text, and the byte-exact template '
                      'check does not apply' % (fb.short, users), fb.loc(t['span']))
    # info-level (and lower) log messages go to stdout too: in a function that prints text they must be confined to check / in-place mode
    printers = {b.id for (b, bi, t, shown, template) in c14.text_prints(c) if callee_path(t) == 'std::io::_print'
                and not (b.j.get('impl_trait') or {}).get('path', '').startswith('log::')}
    for fb in c.fns():
        owner = fb
        while owner.def_kind == 'Closure' and owner.parent in w.bodies:
            owner = w.bodies[owner.parent]
        if owner.id not in printers:
            continue
        fv = c.view(fb)
        for bi, t in fb.calls():
            if (callee_path(t) or '') != 'log::__private_api::log' or len(t['args']) < 2:
                continue
            level = set()
            for o in fv.pv.peel(fv.pv.origins_operand(t['args'][1])):
                if o[0] == 'agg':
                    level.add(fv.pv.agg_rvalue(o).get('vname'))
                else:
                    level.add('?')
            cons = {'fn': fb.short, 'log_level': sorted(map(str, level)), 'bb': bi}
            if level <= {'Error', 'Warn'}:
                r.ok(cons, 'goes to stderr')
                continue
            gs = fv.guards_ext(bi)
            if any((atom == CHECK or atom == INPLACE) and vals == {True} for atom, vals, _ in gs):
                r.ok(cons, 'only in check / in-place mode, where nothing formatted is printed')
            else:
                r.bad(cons, '%s|log-to-stdout' % fb.short,
                      'an info-level log message is emitted in %s outside check / in-place mode: the logger prints it to stdout, between the formatted texts' % fb.short, fb.loc(t['span']))
    for tag, n in sorted(printed.items()):
        cons = {'printed_with_print_macro': tag, 'sites': n}
        if n >= 1:
            r.ok(cons, 'the %s text reaches stdout through print!' % tag)
        else:
            r.bad(cons, 'no-print|%s' % tag, 'no print!("{}") of the %s text was found: the CLI would not emit it (or emits it some other way)' % tag)
    # erroneous payload is the input itself
    for fb in c.fns():
        for bi, blk in enumerate(fb.blocks):
            for s in blk['stmts']:
                if s['s'] == 'assign' and s['rv']['r'] == 'agg' and s['rv'].get('adt') == 'typstyle::fmt::FormatResult':
                    v = c.view(fb)
                    vn = s['rv']['vname']
                    if not s['rv']['ops']:
                        # a variant without payload (`Erroneous` as a unit variant: the caller still owns the input and prints that - judged at the print)
                        r.ok({'fn': fb.short, 'constructs': 'FormatResult::' + vn, 'payload': []}, 'no payload')
                        tags = want = set()
                    else:
                        tags = c.classify_text(fb, v.pv.origins_operand(s['rv']['ops'][0]))
                        want = {'input'} if vn == 'Erroneous' else {'formatted'}
                    cons = {'fn': fb.short, 'constructs': 'FormatResult::' + vn, 'payload': sorted(tags)}
                    if not s['rv']['ops']:
                        pass
                    elif tags == want:
                        r.ok(cons, 'payload is the %s text' % next(iter(want)))
                    else:
                        r.bad(cons, '%s|payload|%s' % (fb.short, vn), 'FormatResult::%s carries %s, expected %s' % (vn, sorted(tags), sorted(want)), fb.loc(s['span']))
                    if vn == 'Erroneous':
                        # only on the Err edge of the library call
                        gs = v.guards_ext(bi)
                        if any(a.startswith('discr(call:typstyle_core::') and vals == {'Err'} for a, vals, _ in gs):
                            r.ok({'fn': fb.short, 'Erroneous': 'guard'}, 'constructed only when the library refuses')
                        else:
                            r.bad({'fn': fb.short, 'Erroneous': 'guard'}, '%s|erroneous-guard' % fb.short,
                                  'FormatResult::Erroneous is constructed without a dominating Err result of the library call', fb.loc(s['span']))
    # argument order: the file-list loop iterates the slice forward, and execute passes args.input
    loops = c15._batch_loops(c)
    for (b, h, blocks, nt) in loops:
        v = c.view(b)
        chain = c15._iterator_chain(v, nt)
        item_src = callee_str(nt) or ''
        if 'PathBuf' not in item_src and 'Path' not in item_src:
            continue
        names = [p for p, _ in chain]
        cons = {'fn': b.short, 'iterator': item_src, 'chain': names}
        bad = [p for p in names if re.search(r'::(rev|sorted|sort|sorted_by|dedup|unique|skip|step_by|take|filter|rev_)\b', p)]
        if 'std::slice::Iter' in item_src and not bad:
            src = v.pv.through(v.pv.origins_operand(nt['args'][0]), re.compile(r'IntoIterator.*into_iter$|::iter$'))
            if all(o[0] == 'param' and not o[2] for o in src):
                r.ok(cons, 'forward iteration over the file list parameter')
                # caller passes args.input
                for (cb, cbi, ct) in c.callers(b.id):
                    cv = c.view(cb)
                    for o in src:
                        d = cv.describe_operand(ct['args'][o[1] - 1])
                        cons2 = {'fn': cb.short, 'passes': d}
                        if d == 'field:typstyle::cli::CliArguments.input' or 'CliArguments.input' in d:
                            r.ok(cons2, 'the positional arguments, in order')
                        else:
                            r.bad(cons2, '%s|file-list' % cb.short, 'file list passed to %s is %s, not args.input' % (b.short, d), cb.loc(ct['span']))
            else:
                r.bad(cons, '%s|file-list-source' % b.short, 'file-list loop does not iterate its parameter directly', b.loc(nt['span']))
        else:
            r.bad(cons, '%s|order' % b.short, 'file-list loop in %s does not iterate the slice forward (%s %s)' % (b.short, item_src, bad), b.loc(nt['span']))
    return r


def _is_ok_payload(v, o):
    """origin projection = field 0 of the Ok variant of a Result"""
    pr = o[2]
    return len(pr) == 2 and pr[0][0] == 'v' and pr[0][1] in (0, 'Ok') and pr[1] == ('f', 0)


def r4_fallback(w):
    r = RuleResult('C16.R4', 'width-only convenience function: Config::new().with_width(width), formats `content`, falls back to `content`; wasm export is a plain call', floor=4)
    core = w.core
    cands = [b for b in w.fn_bodies(core) if b.def_kind == 'Fn' and b.j.get('effective_pub') and b.locals[0]['ty']['s'] == 'std::string::String'
             and b.arg_count == 2 and b.locals[1]['ty']['s'] == '&str' and b.locals[2]['ty']['s'] == 'usize']
    if len(cands) != 1:
        raise AnchorMissing('width-only convenience function (&str, usize) -> String: %s' % [b.short for b in cands])
    b = cands[0]
    from paths import BodyView
    v = BodyView(w, b)
    fields = config_fields(w)

    def check_primary(x, span):
        """x: origin of the Result the function unwraps: format_content(Typstyle::new(cfg), content)"""
        d = v.describe((x[0], x[1], ()))
        cons = {'fn': b.short, 'primary': d}
        m = re.match(r'^call:typstyle_core::\{impl#\d+\}::format_content\(call:typstyle_core::\{impl#\d+\}::new\((.*)\),param1\)$', d)
        if m:
            r.ok(cons, 'formats its own `content` parameter with Typstyle::new(..)')
        else:
            r.bad(cons, '%s|primary' % b.short, 'convenience function does not return format_content(content): %s' % d, b.loc(span))

    def check_config():
        # the Config handed to Typstyle::new: max_width <- width, everything else the library default (any straight-line construction)
        state, shape_bad, last_span = eval_config_value(w, b, v, fields)
        for bi2, t2 in b.calls():
            if (callee_path(t2) or '').endswith('Typstyle::new'):
                a = t2['args'][0]
                st = state.get(a['p']['l']) if a['o'] in ('move', 'copy') and not a['p']['proj'] else None
                if st is None:
                    r.bad({'fn': b.short, 'config': v.describe_operand(a)}, '%s|config' % b.short,
                          'the Config the convenience function hands to Typstyle::new is not a straight-line construction (%s)' % (shape_bad or v.describe_operand(a)), b.loc(t2['span']))
                    continue
                bad = [(n, st[n]) for n in fields if (st[n] != 'param2' if n == 'max_width' else st[n] != DEFAULT_DESC)]
                cons = {'fn': b.short, 'config': {n: st[n] for n in fields}}
                if not bad:
                    r.ok(cons, 'max_width <- width, every other field the library default')
                else:
                    r.bad(cons, '%s|config' % b.short, 'convenience function configures the library with %s' % ', '.join('%s <- %s' % x for x in bad), b.loc(t2['span']))

    ret_raw = v.pv._origins_local(0, frozenset())
    ret = v.pv.peel(ret_raw)
    ok_shape = False
    for o in ret:
        if o[0] == 'call':
            t = v.pv.call_term(o)
            p = callee_path(t) or ''
            if re.search(r'Result::<T, E>::(unwrap_or_else|unwrap_or)$', p):
                ok_shape = True
                # primary: format_content(Typstyle::new(cfg), content)
                inner = v.pv.peel(v.pv.origins_operand(t['args'][0]))
                for x in inner:
                    check_primary(x, t['span'])
                check_config()
                # fallback closure / value
                fb = v.pv.peel(v.pv.origins_operand(t['args'][1]))
                for x in fb:
                    if x[0] == 'agg' and v.pv.agg_rvalue(x).get('ak') == 'closure':
                        rv = v.pv.agg_rvalue(x)
                        cb = w.bodies.get(rv['def']['id'])
                        cv = BodyView(w, cb)
                        cret = cv.pv.through(cv.pv._origins_local(0, frozenset()), VIEW)
                        # upvar 0 of the closure is `content`
                        ups = [v.describe_operand(op) for op in rv['ops']]
                        good = all(o[0] == 'param' and o[1] == 1 and o[2] and o[2][0] == ('f', 0) for o in cret) and ups[:1] == ['&param1'] or \
                            (all(o[0] == 'param' and o[1] == 1 for o in cret) and all(u in ('&param1', 'param1') for u in ups))
                        cons = {'fn': b.short, 'fallback': sorted(cv.describe(o) for o in cret), 'captures': ups}
                        if good:
                            r.ok(cons, 'fallback returns the captured `content` as an owned String')
                        else:
                            r.bad(cons, '%s|fallback' % b.short, 'on a syntax error the convenience function does not return its input unchanged: %s capturing %s'
                                  % (cons['fallback'], ups), cb.loc())
                    else:
                        d = v.describe(x)
                        vv = v.pv.through({x}, VIEW)
                        if vv == {('param', 1, ())}:
                            r.ok({'fn': b.short, 'fallback': d}, 'fallback is the input')
                        else:
                            r.bad({'fn': b.short, 'fallback': d}, '%s|fallback' % b.short, 'fallback value is %s, not the input' % d, b.loc(t['span']))
    if not ok_shape:
        # the same thing written as a `match` / `if let` / `let else` on the Result: the Ok payload of the primary call on one edge, the input on the Err edge
        prim = [o for o in ret_raw if o[0] == 'call' and o[2] and re.search(r'::format_content$', resolved_path(v.pv.call_term(o)) or callee_path(v.pv.call_term(o)) or '')]
        rest = [o for o in ret_raw if o not in prim]
        if prim and all(_is_ok_payload(v, o) for o in prim):
            ok_shape = True
            for x in prim:
                check_primary(x, v.pv.call_term(x)['span'])
            check_config()
            prim_keys = {(x[0], x[1]) for x in prim}

            def on_err_edge(block):
                for atom, vals, sbb in v.guards_ext(block):
                    if vals != {'Err'}:
                        continue
                    for o in v.pv.origins_operand(v.guard_operand((atom, vals, sbb))):
                        o = strip_casts(o)
                        if o[0] == 'discr' and any((y[0], y[1]) in prim_keys for y in v.pv.peel(v.pv._origins(o[1][0], o[1][1], frozenset()))):
                            return True
                return False
            for x in rest:
                d = v.describe(x)
                cons = {'fn': b.short, 'fallback': d}
                vv = v.pv.through({x}, VIEW)
                guarded = x[0] == 'call' and on_err_edge(x[1][0])
                if vv == {('param', 1, ())} and guarded:
                    r.ok(cons, 'the input, built only on the Err edge of the primary result')
                elif vv == {('param', 1, ())}:
                    r.bad(cons, '%s|fallback' % b.short, 'the input is returned on a path that is not the Err edge of the formatting result', b.loc())
                else:
                    r.bad(cons, '%s|fallback' % b.short, 'on a syntax error the convenience function returns %s, not its input' % d, b.loc())
            if not rest:
                r.bad({'fn': b.short}, '%s|fallback' % b.short, 'no fallback value on the Err edge', b.loc())
    if not ok_shape:
        r.bad({'fn': b.short, 'returns': sorted(v.describe(o) for o in ret)}, '%s|shape' % b.short,
              'convenience function neither has the shape format(..).unwrap_or_else(|_| content.to_string()) nor matches on the formatting result', b.loc())
    # unwrap_or_else closure must not be reachable for Ok: by std contract.  with_width writes max_width from its parameter:
    ww = [x for x in w.fn_bodies(core) if x.short.endswith('::with_width')]
    for x in ww:
        xv = BodyView(w, x)
        for bi3, blk in enumerate(x.blocks):
            for s in blk['stmts']:
                if s['s'] == 'assign' and s['p']['proj']:
                    from tyutil import name_projection
                    from prov import place_key
                    l, pr = place_key(s['p'])
                    steps, _ = name_projection(w, x.locals[l]['ty'], pr)
                    if steps and steps[-1] == 'typstyle_core::config::Config.max_width':
                        d = xv.describe_operand(s['rv']['op']) if s['rv']['r'] == 'use' else s['rv']['r']
                        if d == 'param2':
                            r.ok({'fn': x.short, 'writes': 'max_width', 'from': d}, 'with_width stores its argument')
                        else:
                            r.bad({'fn': x.short, 'writes': 'max_width', 'from': d}, 'with_width', 'Config::with_width stores %s instead of its argument' % d, x.loc(s['span']))
    # wasm export (pre-expansion AST of the crate root; not type-checked on this host)
    exports = [i for i in core.ast_root_items if i.get('kind') == 'fn' and any('wasm_bindgen' in a for a in i['attrs'])]
    for i in exports:
        sc = i.get('single_call')
        params = [p['pat'] for p in i['params']]
        cons = {'wasm_export': i['name'], 'params': params, 'body': sc}
        if sc and sc['callee'].split('::')[-1] == b.short.split('::')[-1] and sc['args'] == params and [p['ty'] for p in i['params']] == ['&str', 'usize'] and i['ret'] == 'String':
            r.ok(cons, 'single call of the convenience function with its own parameters, in order')
        else:
            r.bad(cons, 'wasm-export|%s' % i['name'], 'the WebAssembly export %s is not a plain call %s(%s): %s' % (i['name'], b.short, ', '.join(params), i.get('body_src', '')[:200]))
    if not exports:
        r.note('no #[wasm_bindgen] item in the crate root')
    return r


def _shared(rs, new_id):
    old = rs.rule
    rs.rule = new_id
    for f in rs.findings:
        f.rule = new_id
        f.key = f.key.replace(old + '|', new_id + '|', 1)
    return rs


def r5_unchanged_means_equal(w):
    """= C15.R2: the CLI prints / keeps the input for an `unchanged` result, which agrees with the library only if `unchanged` means byte-equal to
    the library's text (seed C11/6B: a line-wise comparison made CR LF files and files without a final newline `unchanged`)"""
    from rules import c15
    return _shared(c15.r2_only_if_changed(w), 'C16.R5')


def r6_every_input_is_printed(w):
    """= C15.R4: "several files concatenated in argument order" - a batch loop that can be left before the last input (seed C16/6B: `try_fold` with
    `?`) prints only a prefix of them"""
    from rules import c15
    return _shared(c15.r4_error_isolation(w), 'C16.R6')


RULES = [r1_option_mapping, r2_single_funnel, r3_bytes_out, r4_fallback, r5_unchanged_means_equal, r6_every_input_is_printed]
r1_option_mapping.needs = ('cli', 'core')
r2_single_funnel.needs = ('cli', 'core')
r3_bytes_out.needs = ('cli', 'core')
r4_fallback.needs = ('core',)
r5_unchanged_means_equal.needs = ('cli',)
r6_every_input_is_printed.needs = ('cli',)
MATRIX_RULES = RULES
