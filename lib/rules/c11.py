"""C11 - output hygiene: final newline, no trailing blanks.

R1 post-dominance/provenance: in the whole-document entry that renders, every Ok payload is the
   result of the post-processing function applied to the rendered text, untouched afterwards; all
   other public text-returning whole-document entries delegate to it.
R2 shape of the post-processor: result built only by push_str(trim_end(line)) + push('\\n') over
   str::lines(input); the only other return is the constant "\\n".
"""
import re
import cfg
from prov import Prov, strip_casts, fmt_origin
from mirfacts import callee_path, resolved_id, resolved_path, callee_str
from framework import RuleResult, AnchorMissing

META = {
    'explanation': 'Provenance (backward def-use over MIR) of the Ok payload of every public whole-document entry of typstyle-core, and a '
                   'shape check of the post-processing function: every returned text is post-processor(rendered text) with no later '
                   'mutation, and the post-processor appends exactly trim_end(line) + LF for every line of str::lines(input), returning the '
                   'constant "\\n" only for empty input. Given the contracts of str::lines / str::trim_end this implies: non-empty, ends '
                   'with LF, no line ends with Unicode whitespace.',
    'decides': 'the mechanism is on every accepting path and has the shape that implies the three conclusions (complete under the std contracts)',
    'does_not_decide': 'nothing beyond the stated std contracts; range formatting returns fragments and is outside the statement',
    'trusted_base': ['str::lines yields >= 1 item for non-empty input and strips the line terminator', 'str::trim_end removes all trailing Unicode White_Space',
                     'rustc MIR construction'],
}

TRIM_OK = re.compile(r'core::str::<impl str>::trim_end$')
TRIM_EQUIV = re.compile(r'core::str::<impl str>::trim_end_matches::<.*\{(core|std)::char::methods::<impl char>::is_whitespace\}>$')


def _trims_unicode_whitespace(t):
    """str::trim_end, or the equivalent trim_end_matches(char::is_whitespace) (same Unicode White_Space predicate)"""
    return bool(TRIM_OK.search(callee_path(t) or '') or TRIM_EQUIV.search(callee_str(t) or ''))


UNWRAPPERS = re.compile(r'std::result::Result::<T, E>::(unwrap_or_else|unwrap_or|unwrap_or_default|unwrap|expect)$')


def find_render_entry(w):
    """the public function that calls pretty::Doc::pretty and returns Result<String, _>"""
    out = []
    for b in w.fn_bodies(w.core):
        if b.def_kind == 'Closure':
            continue
        ret = b.locals[0]['ty']['s']
        if not ret.startswith('std::result::Result<std::string::String'):
            continue
        if any(callee_path(t) and callee_path(t).endswith('::pretty') and 'pretty::Doc' in callee_path(t) for _, t in b.calls()):
            out.append(b)
    if len(out) != 1:
        raise AnchorMissing('whole-document render entry (fn -> Result<String,_> calling Doc::pretty); found %s' % [b.short for b in out])
    return out[0]


def ok_payload_origins(b, pv):
    """origins of the payload of every `Result::Ok{..}` / direct assignment to _0"""
    res = []
    for bi, blk in enumerate(b.blocks):
        if blk['cleanup']:
            continue
        for si, s in enumerate(blk['stmts']):
            if s['s'] == 'assign' and s['p']['l'] == 0 and not s['p']['proj']:
                rv = s['rv']
                if rv['r'] == 'agg' and rv['ak'] == 'adt' and rv['path'].endswith('Result'):
                    if rv['vname'] == 'Ok':
                        res.append(('ok', bi, si, pv.origins_operand(rv['ops'][0])))
                    else:
                        res.append(('err', bi, si, set()))
                else:
                    res.append(('other', bi, si, pv._origin_of_def(0, 'rv', bi, si, rv, frozenset())))
        t = blk['term']
        if t['t'] == 'call' and t['dest']['l'] == 0 and not t['dest']['proj']:
            res.append(('call', bi, None, {('call', (bi, callee_path(t) or '<indirect>'), ())}))
    return res


def mut_borrows_of(b, local):
    """statements that take &mut of `local` (whole or projected) or write to a projection of it"""
    out = []
    for bi, blk in enumerate(b.blocks):
        if blk['cleanup']:
            continue
        for si, s in enumerate(blk['stmts']):
            if s['s'] == 'assign':
                rv = s['rv']
                if rv['r'] in ('ref', 'rawptr') and rv.get('mut', True) and rv['p']['l'] == local:
                    out.append((bi, si))
                if s['p']['l'] == local and s['p']['proj']:
                    out.append((bi, si))
    return out


def r1_postprocess_on_every_ok(w):
    r = RuleResult('C11.R1', 'every Ok payload of a whole-document entry is post-processor(rendered text), untouched afterwards', floor=4)
    entry = find_render_entry(w)
    pv = Prov(entry)
    post = None
    for (kind, bi, si, origs) in ok_payload_origins(entry, pv):
        if kind == 'err':
            continue
        cons = {'entry': entry.short, 'return_site': 'bb%d' % bi, 'kind': kind}
        if kind != 'ok':
            r.bad(cons, '%s|non-ok-return' % entry.short, 'return value of %s is not built by Ok(..) of the post-processed text' % entry.short, entry.loc())
            continue
        good = True
        for o in origs:
            o = strip_casts(o)
            if o[0] == 'call' and not o[2]:
                t = pv.call_term(o)
                rid = resolved_id(t)
                if rid in w.bodies and w.bodies[rid].crate is w.core:
                    cand = w.bodies[rid]
                    if post is None:
                        post = cand
                    if cand is post:
                        # argument must be the rendered text
                        a_or = pv.origins_operand(t['args'][0])
                        ok_arg = all(_is_rendered(pv, x) for x in a_or)
                        if not ok_arg:
                            good = False
                            r.bad(cons, '%s|post-arg' % entry.short,
                                  'post-processor is not applied to the rendered text (argument provenance: %s)' % [fmt_origin(x, entry) for x in a_or],
                                  entry.loc(t['span']))
                        # no mutation of the result local afterwards
                        dest = t['dest']['l']
                        mb = mut_borrows_of(entry, dest)
                        # also the moved copies
                        if mb:
                            good = False
                            r.bad(cons, '%s|mutated-after-post' % entry.short,
                                  'post-processed text is mutated after post-processing (&mut borrow of _%d)' % dest, entry.loc(t['span']))
                        continue
            good = False
            r.bad(cons, '%s|ok-payload' % entry.short,
                  'an Ok payload of %s does not come from the post-processing function: provenance %s' % (entry.short, fmt_origin(o, entry)),
                  entry.loc(entry.blocks[bi]['stmts'][si]['span']))
        if good:
            r.ok(cons, 'Ok(post(rendered))')
    if post is None:
        if not r.findings:
            raise AnchorMissing('post-processing function (callee producing the Ok payload of %s)' % entry.short)
        return r
    # locals that receive moved copies of the post result must not be mutated either
    for l in range(len(entry.locals)):
        if entry.locals[l]['ty']['s'] == 'std::string::String' and l > entry.arg_count:
            ors = pv._origins_local(l, frozenset())
            if any(strip_casts(o)[0] == 'call' and resolved_id(pv.call_term(strip_casts(o))) == post.id for o in ors if strip_casts(o)[0] == 'call'):
                if mut_borrows_of(entry, l):
                    r.bad({'entry': entry.short, 'local': l}, '%s|mutated-after-post' % entry.short,
                          'post-processed text is mutated after post-processing (&mut borrow of _%d)' % l, entry.loc())
    # delegation of the other public whole-document entries
    good_entries = {entry.id}
    pending = [b for b in w.fn_bodies(w.core) if b.def_kind != 'Closure' and b.j.get('effective_pub') and b is not entry
               and not b.j.get('impl_trait')
               and (b.locals[0]['ty']['s'].startswith('std::result::Result<std::string::String') or b.locals[0]['ty']['s'] == 'std::string::String')
               and b.id != post.id]
    changed = True
    verdicts = {}
    while changed:
        changed = False
        for b in pending:
            if b.id in good_entries:
                continue
            ok, why = _delegates(w, b, good_entries)
            verdicts[b.id] = (ok, why)
            if ok:
                good_entries.add(b.id)
                changed = True
    for b in pending:
        cons = {'entry': b.short, 'returns': b.locals[0]['ty']['s']}
        ok, why = verdicts.get(b.id, (False, 'not analysed'))
        if ok:
            r.ok(cons, why)
        else:
            r.bad(cons, '%s|delegation' % b.short,
                  'public entry %s returns text that does not come from a post-processed whole-document entry: %s' % (b.short, why), b.loc())
    r.note('render entry: %s; post-processor: %s' % (entry.short, post.short))
    r._post = post
    return r


VIEW = re.compile(r'(Deref>::deref|Deref::deref|::as_str|::as_ref|::borrow|::as_mut_str)$')
ITER_ID = re.compile(r'(IntoIterator>::into_iter|IntoIterator::into_iter)$')


def _is_rendered(pv, o):
    """origin is `ToString::to_string(pretty(..))`, seen through borrows / Deref / as_str views"""
    for x in pv.through({o}, VIEW):
        if x[0] != 'call' or x[2]:
            return False
        t = pv.call_term(x)
        p = callee_path(t) or ''
        if not (p.endswith('ToString::to_string') or p.endswith('::to_string')):
            return False
        for y in pv.through(pv.origins_operand(t['args'][0]), VIEW):
            if not _is_pretty_call(pv, y):
                return False
    return True


def _is_pretty_call(pv, o):
    if o[0] != 'call' or o[2]:
        return False
    p = callee_path(pv.call_term(o)) or ''
    return 'pretty::Doc' in p and p.endswith('::pretty')


def _delegates(w, b, good):
    pv = Prov(b)
    sites = ok_payload_origins(b, pv)
    if not sites:
        return False, 'no return site found'
    for (kind, bi, si, origs) in sites:
        if kind == 'err':
            continue
        for o in origs:
            o = strip_casts(o)
            cur, depth = o, 0
            while True:
                if cur[0] != 'call' or cur[2]:
                    return False, 'return value provenance %s' % fmt_origin(cur, b)
                t = pv.call_term(cur)
                rid = resolved_id(t)
                cid = t['callee']['def']['id'] if t.get('callee') else None
                if rid in good or cid in good:
                    break
                p = callee_path(t) or ''
                if UNWRAPPERS.search(p) and depth < 3:
                    a = list(pv.origins_operand(t['args'][0]))
                    if len(a) != 1:
                        return False, 'ambiguous provenance through %s' % p
                    cur = strip_casts(a[0])
                    depth += 1
                    continue
                return False, 'return value comes from %s' % p
    return True, 'delegates to a post-processed entry'


def r2_postprocessor_shape(w):
    r = RuleResult('C11.R2', 'post-processor appends exactly trim_end(line)+LF per line of str::lines(input); constant "\\n" for empty input', floor=5)
    r1 = r1_postprocess_on_every_ok(w)
    post = getattr(r1, '_post', None)
    if post is None:
        r.note('no post-processing function on the Ok path (reported by R1): nothing to check')
        r.floor = 0
        return r
    b = post
    pv = Prov(b)
    name = b.short
    if b.arg_count != 1:
        r.bad({'fn': name}, '%s|arity' % name, 'post-processor takes %d arguments, expected the rendered text only' % b.arg_count, b.loc())
        return r
    # accumulator: the String local that receives push_str/push through &mut
    acc = None
    for bi, t in b.calls():
        p = callee_path(t) or ''
        if p in ('std::string::String::push_str', 'std::string::String::push') and t['args']:
            for o in pv.origins_operand(t['args'][0]):
                if o[0] == 'ref' and not o[1][1] and not o[2]:
                    acc = o[1][0]
    for (kind, bi, si, origs) in ok_payload_origins(b, pv):
        for o in origs:
            o = strip_casts(o)
            cons = {'fn': name, 'return_site': 'bb%d' % bi}
            if o[0] == 'call':
                t = pv.call_term(o)
                p = callee_path(t) or ''
                if p.endswith('to_string') or p.endswith('to_owned') or p.endswith('String::from') or p.endswith('::into'):
                    a = pv.origins_operand(t['args'][0])
                    if a == {('const', ('str', '\n'), ())}:
                        # must be on the empty-input edge only
                        if _guarded_by_is_empty(b, pv, bi):
                            r.ok(cons, 'constant "\\n" on the is_empty edge')
                        else:
                            r.bad(cons, '%s|const-return-unguarded' % name, 'constant return is not guarded by input.is_empty()', b.loc(t['span']))
                        continue
                if (re.search(r'String::(with_capacity|new)$', p) or p.endswith('String as std::default::Default>::default')) \
                        and t['dest']['l'] == acc and not t['dest']['proj']:
                    r.ok(cons, 'returns the accumulator')
                    continue
            r.bad(cons, '%s|return' % name, 'post-processor returns %s: neither the accumulator nor the constant "\\n"' % fmt_origin(o, b), b.loc())
    if acc is None:
        r.bad({'fn': name}, '%s|no-accumulator' % name, 'no String accumulator found', b.loc())
        return r
    # the loop over str::lines(param)
    loops = cfg.natural_loops(b)
    if len(loops) != 1:
        r.bad({'fn': name}, '%s|loops' % name, 'expected exactly one loop, found %d' % len(loops), b.loc())
        return r
    (header, blocks), = loops.items()
    next_t = b.blocks[header]['term']
    np = callee_str(next_t) or ''
    it_ok = False
    if next_t['t'] == 'call' and callee_path(next_t) == 'std::iter::Iterator::next' and 'std::str::Lines' in np:
        # iterator provenance: str::lines(param 1), through into_iter and borrows
        srcs = pv.through(pv.origins_operand(next_t['args'][0]), ITER_ID)
        it_ok = bool(srcs)
        for o in srcs:
            if not (o[0] == 'call' and not o[2] and (callee_path(pv.call_term(o)) or '') == 'core::str::<impl str>::lines'
                    and pv.values_operand(pv.call_term(o)['args'][0]) == {('param', 1, ())}):
                it_ok = False
    cons = {'fn': name, 'loop_header': 'bb%d' % header}
    if it_ok:
        r.ok(cons, 'loop iterates str::lines(input)')
    else:
        r.bad(cons, '%s|loop-iter' % name, 'the loop does not iterate str::lines(input) (header call: %s)' % np, b.loc(next_t['span']))
    # all uses of &mut acc: push_str(trim_end(item)) and push('\n') inside the loop; nothing else anywhere
    item_local = None
    push_nl_blocks, push_str_blocks = [], []
    for bi, t in b.calls():
        p = callee_path(t) or ''
        uses_acc = False
        for a in t['args']:
            for o in pv.origins_operand(a):
                if o == ('ref', (acc, ()), ()):
                    uses_acc = True
        if not uses_acc:
            continue
        cons = {'fn': name, 'call': p, 'bb': bi}
        if p == 'std::string::String::push_str' and bi in blocks:
            ao = [strip_casts(x) for x in pv.origins_operand(t['args'][1])]
            good = len(ao) == 1 and ao[0][0] == 'call' and _trims_unicode_whitespace(pv.call_term(ao[0]))
            if good:
                src = pv.origins_operand(pv.call_term(ao[0])['args'][0])
                good = all(o[0] == 'call' and o[1][0] == header and o[2] == (('v', 1), ('f', 0)) for o in src)
            if good:
                push_str_blocks.append(bi)
                r.ok(cons, 'push_str(trim_end(line))')
            else:
                r.bad(cons, '%s|push_str-arg' % name,
                      'text appended to the result is not str::trim_end(<current line>): %s' % [fmt_origin(x, b) for x in ao], b.loc(t['span']))
        elif p == 'std::string::String::push' and bi in blocks:
            ao = pv.origins_operand(t['args'][1])
            if ao == {('const', ('char', 10), ())}:
                push_nl_blocks.append(bi)
                r.ok(cons, "push('\\n')")
            else:
                r.bad(cons, '%s|push-arg' % name, 'character appended is not LF: %s' % [fmt_origin(x, b) for x in ao], b.loc(t['span']))
        else:
            r.bad(cons, '%s|acc-use|%s' % (name, p), 'accumulator is modified by `%s` (%s the loop): only push_str(trim_end(line)) and push(LF) inside the loop are accepted'
                  % (p, 'inside' if bi in blocks else 'outside'), b.loc(t['span']))
    # every iteration: push_str then push('\n') are on every path from the Some edge back to the header
    some_succ = [s for s in b.succs(header)]
    # header terminator is the call; its target block switches on the discriminant
    cons = {'fn': name, 'loop_body': sorted(blocks)}
    body_entry = None
    sw = b.blocks[b.succs(header)[0]]['term'] if b.succs(header) else None
    if sw and sw['t'] == 'switch':
        for v, tgt in sw['targets']:
            if v == 1:
                body_entry = tgt
    if body_entry is None:
        r.bad(cons, '%s|loop-shape' % name, 'cannot find the Some edge of the loop', b.loc())
        return r
    if len(push_nl_blocks) != 1 or len(push_str_blocks) != 1:
        r.bad(cons, '%s|per-iteration' % name, 'expected exactly one push_str and one push(LF) per iteration, found %d/%d' % (len(push_str_blocks), len(push_nl_blocks)), b.loc())
        return r
    ps, pn = push_str_blocks[0], push_nl_blocks[0]
    # header reachable from body_entry avoiding ps? avoiding pn?  order: ps before pn
    if cfg.paths_avoiding(b, body_entry, {header}, {ps}) or cfg.paths_avoiding(b, body_entry, {header}, {pn}):
        r.bad(cons, '%s|skippable' % name, 'some iteration can skip push_str(trim_end(line)) or push(LF)', b.loc())
    elif cfg.paths_avoiding(b, body_entry, {pn}, {ps}):
        r.bad(cons, '%s|order' % name, 'push(LF) can happen before push_str(..) in an iteration', b.loc())
    elif cfg.paths_avoiding(b, pn, {ps}, {header}):
        r.bad(cons, '%s|order' % name, 'push_str can follow push(LF) within one iteration: a line would not end right after its LF', b.loc())
    else:
        r.ok(cons, 'every iteration appends trim_end(line) then LF')
    # loop exits only via iterator exhaustion
    exits = [(x, s) for x in blocks for s in b.succs(x) if s not in blocks]
    bad_exits = [(x, s) for (x, s) in exits if x != b.succs(header)[0]]
    if bad_exits:
        r.bad({'fn': name, 'exits': bad_exits}, '%s|early-exit' % name, 'the loop can be left before the iterator is exhausted', b.loc())
    else:
        r.ok({'fn': name, 'exits': exits}, 'single exit: iterator exhaustion')
    return r


def _guarded_by_is_empty(b, pv, bi):
    """block bi is dominated by the true edge of a switch on str::is_empty(param 1)"""
    for x, blk in enumerate(b.blocks):
        t = blk['term']
        if t['t'] != 'switch':
            continue
        d = t['discr']
        if d['o'] not in ('copy', 'move'):
            continue
        ors = pv.origins_operand(d)
        if len(ors) != 1:
            continue
        o = next(iter(ors))
        if o[0] == 'call' and (o[1][1] == 'core::str::<impl str>::is_empty'):
            if pv.origins_operand(pv.call_term(o)['args'][0]) != {('param', 1, ())}:
                continue
            true_tgt = t['otherwise']
            if cfg.edge_dominates(b, x, true_tgt, bi):
                return True
    return False


RULES = [r1_postprocess_on_every_ok, r2_postprocessor_shape]
for _f in RULES:
    _f.needs = ('core',)
MATRIX_RULES = RULES
