"""C11 - output hygiene: final newline, no trailing blanks.

R1 post-dominance/provenance: in the whole-document entry that renders, every Ok payload is the
   result of the post-processing function applied to the rendered text, untouched afterwards; all
   other public text-returning whole-document entries delegate to it.
R2 shape of the post-processor: result built only by push_str(trim_end(line)) + push('\\n') over
   str::lines(input); the only other return is the constant "\\n".
"""
import re
import cfg
from prov import Prov, strip_casts, fmt_origin
from mirfacts import callee_path, resolved_id, resolved_path, callee_str
from framework import RuleResult, AnchorMissing

META = {
    'explanation': 'Provenance (backward def-use over MIR) of the Ok payload of every public whole-document entry of typstyle-core, and a '
                   'shape check of the post-processing function: every returned text is post-processor(rendered text) with no later '
                   'mutation, and the post-processor appends exactly trim_end(line) + LF for every line of str::lines(input), returning the '
                   'constant "\\n" only for empty input. Given the contracts of str::lines / str::trim_end this implies: non-empty, ends '
                   'with LF, no line ends with Unicode whitespace.',
    'decides': 'the mechanism is on every accepting path and has the shape that implies the three conclusions (complete under the std contracts)',
    'does_not_decide': 'nothing beyond the stated std contracts; range formatting returns fragments and is outside the statement',
    'trusted_base': ['str::lines yields >= 1 item for non-empty input and strips the line terminator', 'str::trim_end removes all trailing Unicode White_Space',
                     'rustc MIR construction'],
}

TRIM_OK = re.compile(r'core::str::<impl str>::trim_end$')
TRIM_EQUIV = re.compile(r'core::str::<impl str>::trim_end_matches::<.*\{(core|std)::char::methods::<impl char>::is_whitespace\}>$')


def _trims_unicode_whitespace(t):
    """str::trim_end, or the equivalent trim_end_matches(char::is_whitespace) (same Unicode White_Space predicate)"""
    return bool(TRIM_OK.search(callee_path(t) or '') or TRIM_EQUIV.search(callee_str(t) or ''))


UNWRAPPERS = re.compile(r'std::result::Result::<T, E>::(unwrap_or_else|unwrap_or|unwrap_or_default|unwrap|expect)$')


def find_render_entry(w):
    """the public function that calls pretty::Doc::pretty and returns Result<String, _>"""
    out = []
    from rules import c05
    for b in w.fn_bodies(w.core):
        if b.def_kind == 'Closure' or not b.j.get('effective_pub'):
            continue
        ret = b.locals[0]['ty']['s']
        if not ret.startswith('std::result::Result<std::string::String'):
            continue
        # the entry with its own (non-printer) helpers expanded: rendering + post-processing may sit in a private helper
        nb = c05.entry_body(w, b)
        if any(callee_path(t) and callee_path(t).endswith('::pretty') and 'pretty::Doc' in callee_path(t) for _, t in nb.calls()):
            out.append(nb)
    if len(out) != 1:
        raise AnchorMissing('whole-document render entry (fn -> Result<String,_> calling Doc::pretty); found %s' % [b.short for b in out])
    return out[0]


def ok_payload_origins(b, pv):
    """origins of the payload of every `Result::Ok{..}` / direct assignment to _0"""
    res = []
    for bi, blk in enumerate(b.blocks):
        if blk['cleanup']:
            continue
        for si, s in enumerate(blk['stmts']):
            if s['s'] == 'assign' and s['p']['l'] == 0 and not s['p']['proj']:
                rv = s['rv']
                if rv['r'] == 'agg' and rv['ak'] == 'adt' and rv['path'].endswith('Result'):
                    if rv['vname'] == 'Ok':
                        res.append(('ok', bi, si, pv.origins_operand(rv['ops'][0])))
                    else:
                        res.append(('err', bi, si, set()))
                else:
                    res.append(('other', bi, si, pv._origin_of_def(0, 'rv', bi, si, rv, frozenset())))
        t = blk['term']
        if t['t'] == 'call' and t['dest']['l'] == 0 and not t['dest']['proj']:
            if re.search(r'FromResidual.*::from_residual$', callee_path(t) or ''):
                res.append(('err', bi, None, set()))          # `?`: a residual is never an Ok value
                continue
            res.append(('call', bi, None, {('call', (bi, callee_path(t) or '<indirect>'), ())}))
    return res


def mut_borrows_of(b, local):
    """statements that take &mut of `local` (whole or projected) or write to a projection of it"""
    out = []
    for bi, blk in enumerate(b.blocks):
        if blk['cleanup']:
            continue
        for si, s in enumerate(blk['stmts']):
            if s['s'] == 'assign':
                rv = s['rv']
                if rv['r'] in ('ref', 'rawptr') and rv.get('mut', True) and rv['p']['l'] == local:
                    out.append((bi, si))
                if s['p']['l'] == local and s['p']['proj']:
                    out.append((bi, si))
    return out


def r1_postprocess_on_every_ok(w):
    r = RuleResult('C11.R1', 'every Ok payload of a whole-document entry is post-processor(rendered text), untouched afterwards', floor=4)
    entry = find_render_entry(w)
    pv = Prov(entry)
    post = None
    for (kind, bi, si, origs) in ok_payload_origins(entry, pv):
        if kind == 'err':
            continue
        cons = {'entry': entry.short, 'return_site': 'bb%d' % bi, 'kind': kind}
        if kind != 'ok':
            r.bad(cons, '%s|non-ok-return' % entry.short, 'return value of %s is not built by Ok(..) of the post-processed text' % entry.short, entry.loc())
            continue
        good = True
        for o in origs:
            o = strip_casts(o)
            if o[0] == 'call' and not o[2]:
                t = pv.call_term(o)
                rid = resolved_id(t)
                if rid in w.bodies and w.bodies[rid].crate is w.core:
                    cand = w.bodies[rid]
                    if post is None:
                        post = cand
                    if cand is post:
                        # argument must be the rendered text
                        a_or = pv.origins_operand(t['args'][0])
                        ok_arg = all(_is_rendered(pv, x) for x in a_or)
                        if not ok_arg:
                            good = False
                            r.bad(cons, '%s|post-arg' % entry.short,
                                  'post-processor is not applied to the rendered text (argument provenance: %s)' % [fmt_origin(x, entry) for x in a_or],
                                  entry.loc(t['span']))
                        # no mutation of the result local afterwards
                        dest = t['dest']['l']
                        mb = mut_borrows_of(entry, dest)
                        # also the moved copies
                        if mb:
                            good = False
                            r.bad(cons, '%s|mutated-after-post' % entry.short,
                                  'post-processed text is mutated after post-processing (&mut borrow of _%d)' % dest, entry.loc(t['span']))
                        continue
            good = False
            r.bad(cons, '%s|ok-payload' % entry.short,
                  'an Ok payload of %s does not come from the post-processing function: provenance %s' % (entry.short, fmt_origin(o, entry)),
                  entry.loc(entry.blocks[bi]['stmts'][si]['span']))
        if good:
            r.ok(cons, 'Ok(post(rendered))')
    if post is None:
        if not r.findings:
            raise AnchorMissing('post-processing function (callee producing the Ok payload of %s)' % entry.short)
        return r
    # locals that receive moved copies of the post result must not be mutated either
    for l in range(len(entry.locals)):
        if entry.locals[l]['ty']['s'] == 'std::string::String' and l > entry.arg_count:
            ors = pv._origins_local(l, frozenset())
            if any(strip_casts(o)[0] == 'call' and resolved_id(pv.call_term(strip_casts(o))) == post.id for o in ors if strip_casts(o)[0] == 'call'):
                if mut_borrows_of(entry, l):
                    r.bad({'entry': entry.short, 'local': l}, '%s|mutated-after-post' % entry.short,
                          'post-processed text is mutated after post-processing (&mut borrow of _%d)' % l, entry.loc())
    # delegation of the other public whole-document entries
    good_entries = {entry.id}
    pending = [b for b in w.fn_bodies(w.core) if b.def_kind != 'Closure' and b.j.get('effective_pub') and b.id != entry.id
               and not b.j.get('impl_trait')
               and (b.locals[0]['ty']['s'].startswith('std::result::Result<std::string::String') or b.locals[0]['ty']['s'] == 'std::string::String')
               and b.id != post.id]
    changed = True
    verdicts = {}
    while changed:
        changed = False
        for b in pending:
            if b.id in good_entries:
                continue
            ok, why = _delegates(w, b, good_entries)
            verdicts[b.id] = (ok, why)
            if ok:
                good_entries.add(b.id)
                changed = True
    for b in pending:
        cons = {'entry': b.short, 'returns': b.locals[0]['ty']['s']}
        ok, why = verdicts.get(b.id, (False, 'not analysed'))
        if ok:
            r.ok(cons, why)
        else:
            r.bad(cons, '%s|delegation' % b.short,
                  'public entry %s returns text that does not come from a post-processed whole-document entry: %s' % (b.short, why), b.loc())
    r.note('render entry: %s; post-processor: %s' % (entry.short, post.short))
    r._post = post
    return r


VIEW = re.compile(r'(Deref>::deref|Deref::deref|::as_str|::as_ref|::borrow|::as_mut_str)$')
ITER_ID = re.compile(r'(IntoIterator>::into_iter|IntoIterator::into_iter)$')


def _is_rendered(pv, o):
    """origin is `ToString::to_string(pretty(..))`, seen through borrows / Deref / as_str views"""
    for x in pv.through({o}, VIEW):
        if x[0] != 'call' or x[2]:
            return False
        t = pv.call_term(x)
        p = callee_path(t) or ''
        if not (p.endswith('ToString::to_string') or p.endswith('::to_string')):
            return False
        for y in pv.through(pv.origins_operand(t['args'][0]), VIEW):
            if not _is_pretty_call(pv, y):
                return False
    return True


def _is_pretty_call(pv, o):
    if o[0] != 'call' or o[2]:
        return False
    p = callee_path(pv.call_term(o)) or ''
    return 'pretty::Doc' in p and p.endswith('::pretty')


INPUT_COPY = re.compile(r'(::to_string|::to_owned|String::from|::into|Clone>::clone|Clone::clone|From<.*>>::from)$')


def _delegates(w, b, good):
    from paths import BodyView
    v = BodyView(w, b)
    pv = v.pv
    sites = ok_payload_origins(b, pv)
    if not sites:
        return False, 'no return site found'

    def good_call(o):
        if o[0] != 'call':
            return False
        t = pv.call_term(o)
        rid = resolved_id(t)
        cid = t['callee']['def']['id'] if t.get('callee') else None
        return rid in good or cid in good

    def on_err_edge_of_good(block):
        """the block is reached only on the Err edge of a switch over the result of a post-processed entry (the refusal of erroneous input)"""
        for atom, vals, sbb in v.guards(block):
            if vals != {'Err'}:
                continue
            for o in pv.origins_operand(b.blocks[sbb]['term']['discr']):
                o = strip_casts(o)
                if o[0] == 'discr' and any(good_call(y) for y in pv.peel(pv._origins(o[1][0], o[1][1], frozenset()))):
                    return True
        return False

    for (kind, bi, si, origs) in sites:
        if kind == 'err':
            continue
        for o in origs:
            o = strip_casts(o)
            cur, depth = o, 0
            while True:
                if cur[0] != 'call':
                    return False, 'return value provenance %s' % fmt_origin(cur, b)
                t = pv.call_term(cur)
                if good_call(cur):
                    pr = cur[2]
                    if not pr or (len(pr) == 2 and pr[0][0] == 'v' and pr[0][1] in (0, 'Ok') and pr[1] == ('f', 0)):
                        break         # the entry's result, or the Ok payload of it taken apart by a match
                    return False, 'return value is a part of the result of a post-processed entry (%s)' % fmt_origin(cur, b)
                if cur[2]:
                    return False, 'return value provenance %s' % fmt_origin(cur, b)
                p = callee_path(t) or ''
                if UNWRAPPERS.search(p) and depth < 3:
                    a = list(pv.origins_operand(t['args'][0]))
                    if len(a) != 1:
                        return False, 'ambiguous provenance through %s' % p
                    cur = strip_casts(a[0])
                    depth += 1
                    continue
                if INPUT_COPY.search(p) and t['args'] and b.locals[0]['ty']['s'] == 'std::string::String':
                    # a String-returning convenience entry hands its input back where the library refuses (erroneous input): not formatted output
                    src = pv.through(pv.origins_operand(t['args'][0]), VIEW)
                    if src and all(x[0] == 'param' and not x[2] for x in src) and on_err_edge_of_good(cur[1][0]):
                        break
                return False, 'return value comes from %s' % p
    return True, 'delegates to a post-processed entry'


# ---------------------------------------------------------------------------------------------
# the post-processor written as an iterator pipeline.  A pipeline is read as "pieces appended per line":
#   lines(input)                                   -> [line]
#   .map(str::trim_end) / .map(|l| l.trim_end())   -> [trim(line)]
#   .flat_map(|l| [l.trim_end(), "\n"])            -> [trim(line), LF]
# consumed by collect::<String>(), by String::extend, or by fold(String::new()/with_capacity(..), |acc, x| { acc.push_str(x); acc.push('\n'); acc }).
# A piece is ('lf',) or ('line', k): the current line with str::trim_end applied k times.
# ---------------------------------------------------------------------------------------------
LF = ('lf',)


def _closure_body(w, pv, operand):
    for o in pv.peel(pv.origins_operand(operand)):
        o = strip_casts(o)
        if o[0] == 'agg' and pv.agg_rvalue(o).get('ak') == 'closure':
            return w.bodies.get(pv.agg_rvalue(o)['def']['id'])
    return None


def _piece_of_value(cb, cpv, origins, item_param, item_piece, depth=0):
    """the piece a str-valued expression of a closure denotes, given that the closure's item parameter denotes item_piece"""
    ors = {strip_casts(o) for o in cpv.peel(origins)}
    if len(ors) != 1 or depth > 4:
        return None
    o = next(iter(ors))
    if o[0] == 'param' and o[1] == item_param and not o[2]:
        return item_piece
    if o[0] == 'const' and o[1] in (('str', '\n'), ('char', 10)):
        return LF
    if o[0] == 'call' and not o[2]:
        t = cpv.call_term(o)
        if _trims_unicode_whitespace(t):
            inner = _piece_of_value(cb, cpv, cpv.origins_operand(t['args'][0]), item_param, item_piece, depth + 1)
            if inner and inner[0] == 'line':
                return ('line', inner[1] + 1)
    return None


def _straight_line(cb):
    """blocks of a body in execution order if it has no branch (cleanup edges aside), else None"""
    order, bb, seen = [], 0, set()
    while True:
        if bb in seen:
            return None
        seen.add(bb)
        order.append(bb)
        t = cb.blocks[bb]['term']
        if t['t'] == 'return':
            return order
        if t['t'] == 'switch':
            return None
        succ = [x for x in cb.succs(bb) if not cb.blocks[x]['cleanup']]
        if len(succ) != 1:
            return None
        bb = succ[0]


def _pieces_of_iter(w, b, pv, origins, depth=0):
    """(pieces per line | None, why) of an iterator-valued expression"""
    ors = {strip_casts(o) for o in pv.peel(origins)}
    if len(ors) != 1 or depth > 6:
        return None, 'ambiguous iterator provenance'
    o = next(iter(ors))
    if o[0] != 'call' or o[2]:
        return None, 'iterator comes from %s' % fmt_origin(o, b)
    t = pv.call_term(o)
    p = callee_path(t) or ''
    if p == 'core::str::<impl str>::lines':
        if pv.values_operand(t['args'][0]) == {('param', 1, ())}:
            return [('line', 0)], ''
        return None, 'lines() of something other than the input'
    if p == 'core::str::<impl str>::split_terminator' and len(t['args']) == 2:
        # lines() = split_terminator('\n') with one trailing CR removed per piece; CR is white space, and the piece has to be trimmed at the end anyway
        sep = t['args'][1]
        if pv.values_operand(t['args'][0]) == {('param', 1, ())} and sep.get('o') == 'const' and (sep.get('int') == 10 or sep.get('str') == '\n'):
            return [('line', 0)], ''
        return None, 'split_terminator(..) with another separator or subject'
    if ITER_ID.search(p):
        return _pieces_of_iter(w, b, pv, pv.origins_operand(t['args'][0]), depth + 1)
    if p in ('std::iter::Iterator::map', 'std::iter::Iterator::flat_map'):
        inner, why = _pieces_of_iter(w, b, pv, pv.origins_operand(t['args'][0]), depth + 1)
        if inner is None:
            return None, why
        if len(inner) != 1 or inner[0][0] != 'line':
            return None, 'map/flat_map over an iterator that already yields several pieces per line'
        f = t['args'][1]
        if p.endswith('::map') and f['o'] == 'const' and 'fn' in f:
            fake = {'callee': f['fn']}
            if _trims_unicode_whitespace(fake) or f['fn']['def']['path'] == 'core::str::<impl str>::trim_end':
                return [('line', inner[0][1] + 1)], ''
            return None, 'map(%s)' % f['fn']['def']['path']
        cb = _closure_body(w, pv, f)
        if cb is None or cb.arg_count != 2 or _straight_line(cb) is None:
            return None, 'map/flat_map with a function the evaluator does not follow'
        cpv = Prov(cb)
        ret = cpv._origins_local(0, frozenset())
        if p.endswith('::map'):
            pc = _piece_of_value(cb, cpv, ret, 2, inner[0])
            return ([pc], '') if pc else (None, 'map closure returns something other than the line / its trim_end')
        aggs = {strip_casts(x) for x in cpv.peel(ret)}
        if len(aggs) == 1 and next(iter(aggs))[0] == 'agg' and cpv.agg_rvalue(next(iter(aggs))).get('ak') == 'array':
            out = []
            for op in cpv.agg_rvalue(next(iter(aggs)))['ops']:
                pc = _piece_of_value(cb, cpv, cpv.origins_operand(op), 2, inner[0])
                if pc is None:
                    return None, 'flat_map closure yields an element that is neither the trimmed line nor LF'
                out.append(pc)
            return out, ''
        return None, 'flat_map closure does not return an array of pieces'
    return None, 'iterator adaptor %s' % p


def _fold_pieces(w, b, pv, t):
    """Iterator::fold(iter, String::new()/with_capacity(..), |mut acc, x| { acc.push_str(..); acc.push(..); acc })"""
    inner, why = _pieces_of_iter(w, b, pv, pv.origins_operand(t['args'][0]))
    if inner is None:
        return None, why
    if len(inner) != 1 or inner[0][0] != 'line':
        return None, 'fold over several pieces per line'
    init = {strip_casts(o) for o in pv.peel(pv.origins_operand(t['args'][1]))}
    if not (len(init) == 1 and next(iter(init))[0] == 'call'
            and re.search(r'String::(with_capacity|new)$|String as std::default::Default>::default$', callee_path(pv.call_term(next(iter(init)))) or '')):
        return None, 'fold does not start from an empty String'
    cb = _closure_body(w, pv, t['args'][2])
    order = _straight_line(cb) if cb is not None else None
    if cb is None or cb.arg_count != 3 or order is None:
        return None, 'fold closure is not straight-line code'
    cpv = Prov(cb)
    if {strip_casts(o) for o in cpv.peel(cpv._origins_local(0, frozenset()))} != {('param', 2, ())}:
        return None, 'fold closure does not return its accumulator'
    out = []
    for bb in order:
        tt = cb.blocks[bb]['term']
        if tt['t'] != 'call':
            continue
        pth = callee_path(tt) or ''
        on_acc = any(o == ('ref', (2, ()), ()) for a in tt['args'] for o in cpv.origins_operand(a))
        if not on_acc:
            continue
        if pth in ('std::string::String::push_str', 'std::string::String::push') and len(tt['args']) == 2:
            pc = _piece_of_value(cb, cpv, cpv.origins_operand(tt['args'][1]), 3, inner[0])
            if pc is None:
                return None, 'fold closure appends something that is neither the trimmed line nor LF'
            out.append(pc)
        else:
            return None, 'fold closure modifies the accumulator with %s' % pth
    return out, ''


def _pieces_good(pieces):
    return pieces is not None and len(pieces) == 2 and pieces[0][0] == 'line' and pieces[0][1] >= 1 and pieces[1] == LF


def _describe_pieces(pieces):
    return [('LF' if pc == LF else 'trim_end^%d(line)' % pc[1]) for pc in pieces or []]


def r2_postprocessor_shape(w):
    r = RuleResult('C11.R2', 'post-processor appends exactly trim_end(line)+LF per line of str::lines(input); constant "\\n" for empty input', floor=5)
    r1 = r1_postprocess_on_every_ok(w)
    post = getattr(r1, '_post', None)
    if post is None:
        r.note('no post-processing function on the Ok path (reported by R1): nothing to check')
        r.floor = 0
        return r
    b = post
    pv = Prov(b)
    name = b.short
    if b.arg_count != 1:
        r.bad({'fn': name}, '%s|arity' % name, 'post-processor takes %d arguments, expected the rendered text only' % b.arg_count, b.loc())
        return r
    # accumulator: the String local that receives push_str/push through &mut
    acc = None
    pipeline = False
    for bi, t in b.calls():
        p = callee_path(t) or ''
        if (p in ('std::string::String::push_str', 'std::string::String::push') or (p == 'std::iter::Extend::extend' and 'std::string::String as' in (callee_str(t) or ''))) \
                and t['args']:
            for o in pv.origins_operand(t['args'][0]):
                if o[0] == 'ref' and not o[1][1] and not o[2]:
                    acc = o[1][0]
    for (kind, bi, si, origs) in ok_payload_origins(b, pv):
        for o in origs:
            o = strip_casts(o)
            cons = {'fn': name, 'return_site': 'bb%d' % bi}
            if o[0] == 'call':
                t = pv.call_term(o)
                p = callee_path(t) or ''
                if p.endswith('to_string') or p.endswith('to_owned') or p.endswith('String::from') or p.endswith('::into'):
                    a = pv.origins_operand(t['args'][0])
                    if a == {('const', ('str', '\n'), ())}:
                        # must be on the empty-input edge only
                        if _guarded_by_is_empty(b, pv, bi):
                            r.ok(cons, 'constant "\\n" on the is_empty edge')
                        else:
                            r.bad(cons, '%s|const-return-unguarded' % name, 'constant return is not guarded by input.is_empty()', b.loc(t['span']))
                        continue
                if (re.search(r'String::(with_capacity|new)$', p) or p.endswith('String as std::default::Default>::default')) \
                        and t['dest']['l'] == acc and not t['dest']['proj']:
                    r.ok(cons, 'returns the accumulator')
                    continue
                # the whole text built by an iterator pipeline
                pieces = why = None
                if p == 'std::iter::Iterator::collect' and 'collect::<std::string::String>' in (callee_str(t) or ''):
                    pieces, why = _pieces_of_iter(w, b, pv, pv.origins_operand(t['args'][0]))
                elif p == 'std::iter::Iterator::fold':
                    pieces, why = _fold_pieces(w, b, pv, t)
                if pieces is not None or why:
                    pipeline = True
                    cons2 = dict(cons, pipeline=p.rsplit('::', 1)[-1], pieces_per_line=_describe_pieces(pieces))
                    if _pieces_good(pieces):
                        r.ok(cons2, 'per line of str::lines(input): trim_end(line) then LF, nothing else')
                        r.ok(dict(cons2, part='iteration'), 'the pipeline consumes str::lines(input) to exhaustion (collect / fold)')
                        r.ok(dict(cons2, part='pieces'), 'exactly two pieces per line')
                        r.ok(dict(cons2, part='source'), 'the lines are those of the function\'s own input')
                    else:
                        r.bad(cons2, '%s|push_str-arg' % name, 'the text the post-processor builds per line is %s (%s), expected [trim_end(line), LF]'
                              % (_describe_pieces(pieces), why or 'wrong pieces'), b.loc(t['span']))
                    continue
            r.bad(cons, '%s|return' % name, 'post-processor returns %s: neither the accumulator nor the constant "\\n"' % fmt_origin(o, b), b.loc())
    def const_return_on_empty():
        return any(kind == 'call' and _guarded_by_is_empty(b, pv, bi) for (kind, bi, si, origs) in ok_payload_origins(b, pv)
                   for o in origs if strip_casts(o)[0] == 'call' and pv.call_term(strip_casts(o))['args']
                   and pv.origins_operand(pv.call_term(strip_casts(o))['args'][0]) == {('const', ('str', '\n'), ())})

    def require_empty_answer():
        if const_return_on_empty():
            r.ok({'fn': name, 'empty_input': 'constant return'}, 'the empty text is answered with a single line feed')
        else:
            r.bad({'fn': name, 'empty_input': 'none'}, '%s|empty-input' % name,
                  'for the empty text the post-processor returns the empty string (no line, nothing appended): the output would not end with a line feed', b.loc())
    if acc is None and pipeline:
        require_empty_answer()
        return r
    if acc is None:
        r.bad({'fn': name}, '%s|no-accumulator' % name, 'no String accumulator found', b.loc())
        return r
    # the loop over str::lines(param) - or one `acc.extend(pipeline)` in its place
    loops = cfg.natural_loops(b)
    ext = [(bi, t) for bi, t in b.calls() if callee_path(t) == 'std::iter::Extend::extend' and any(o == ('ref', (acc, ()), ()) for o in pv.origins_operand(t['args'][0]))]
    if ext and not loops:
        others = [(bi, t) for bi, t in b.calls() if (bi, t) not in ext and any(o == ('ref', (acc, ()), ()) for a in t['args'] for o in pv.origins_operand(a))
                  and t['args'] and any(o == ('ref', (acc, ()), ()) for o in pv.origins_operand(t['args'][0])) and 'mut' in b.locals[t['args'][0]['p']['l']]['ty']['s']]
        cons = {'fn': name, 'pipeline': 'extend'}
        if len(ext) != 1 or others:
            r.bad(cons, '%s|acc-use|extend' % name, 'the accumulator is modified by more than one call (%s)' % [callee_path(t) for _, t in ext + others], b.loc())
            return r
        bi, t = ext[0]
        pieces, why = _pieces_of_iter(w, b, pv, pv.origins_operand(t['args'][1]))
        cons['pieces_per_line'] = _describe_pieces(pieces)
        if _pieces_good(pieces):
            r.ok(cons, 'per line of str::lines(input): trim_end(line) then LF, nothing else')
            r.ok(dict(cons, part='iteration'), 'extend consumes the pipeline to exhaustion')
            r.ok(dict(cons, part='source'), 'the lines are those of the function\'s own input')
        else:
            r.bad(cons, '%s|push_str-arg' % name, 'the text the post-processor appends per line is %s (%s), expected [trim_end(line), LF]' % (_describe_pieces(pieces), why or 'wrong pieces'),
                  b.loc(t['span']))
        require_empty_answer()
        return r
    if len(loops) != 1:
        r.bad({'fn': name}, '%s|loops' % name, 'expected exactly one loop, found %d' % len(loops), b.loc())
        return r
    (header, blocks), = loops.items()
    next_t = b.blocks[header]['term']
    np = callee_str(next_t) or ''
    # (a) what the loop iterates: one piece per line of the input (`s.lines()`, `s.lines().map(str::trim_end)`, `s.split_terminator('\n')`)
    item_piece, why_it = None, 'the loop is not driven by Iterator::next'
    if next_t['t'] == 'call' and callee_path(next_t) == 'std::iter::Iterator::next':
        srcs = pv.through(pv.origins_operand(next_t['args'][0]), ITER_ID)
        pcs, why_it = _pieces_of_iter(w, b, pv, srcs) if srcs else (None, 'no iterator provenance')
        if pcs is not None and len(pcs) == 1 and pcs[0][0] == 'line':
            item_piece = pcs[0]
        elif pcs is not None:
            why_it = 'the iterator yields %s per line' % _describe_pieces(pcs)
    cons = {'fn': name, 'loop_header': 'bb%d' % header}
    if item_piece is not None:
        r.ok(cons, 'loop iterates the lines of the input (%s per item)' % _describe_pieces([item_piece])[0])
    else:
        r.bad(cons, '%s|loop-iter' % name, 'the loop does not iterate str::lines(input) (%s; header call: %s)' % (why_it, np[:120]), b.loc(next_t['span']))
        return r

    def piece_of_operand(op, depth=0):
        """piece denoted by a str / char operand inside the loop body: the current item, its trim_end, or LF"""
        ors = {strip_casts(o) for o in pv.peel(pv.origins_operand(op))}
        if len(ors) != 1 or depth > 4:
            return None
        o = next(iter(ors))
        if o[0] == 'call' and o[1][0] == header and o[2] == (('v', 1), ('f', 0)):
            return item_piece
        if o[0] == 'const' and o[1] in (('str', '\n'), ('char', 10)):
            return LF
        if o[0] == 'call' and not o[2] and _trims_unicode_whitespace(pv.call_term(o)):
            inner = piece_of_operand(pv.call_term(o)['args'][0], depth + 1)
            if inner and inner[0] == 'line':
                return ('line', inner[1] + 1)
        return None
    # (b) what is appended, in execution order: the body has to be straight-line from the Some edge back to the header
    sw_bb = b.succs(header)[0] if b.succs(header) else None
    sw = b.blocks[sw_bb]['term'] if sw_bb is not None else None
    body_entry = None
    if sw and sw['t'] == 'switch':
        for val, tgt in sw['targets']:
            if val == 1:
                body_entry = tgt
    cons = {'fn': name, 'loop_body': sorted(blocks)}
    if body_entry is None:
        r.bad(cons, '%s|loop-shape' % name, 'cannot find the Some edge of the loop', b.loc())
        return r
    order, cur, ok_line = [], body_entry, True
    while cur != header:
        order.append(cur)
        succ = [x for x in b.succs(cur) if not b.blocks[x]['cleanup']]
        if len(succ) != 1 or b.blocks[cur]['term']['t'] == 'switch' or cur in order[:-1]:
            ok_line = False
            break
        cur = succ[0]
    if not ok_line:
        r.bad(cons, '%s|skippable' % name, 'the loop body branches: some iteration can skip an append (or append something else)', b.loc())
        return r
    pieces = []
    for bi in order:
        t = b.blocks[bi]['term']
        if t['t'] != 'call' or not t['args']:
            continue
        p = callee_path(t) or ''
        uses_acc = any(o == ('ref', (acc, ()), ()) for a in t['args'] for o in pv.origins_operand(a))
        if not uses_acc:
            continue
        cons2 = {'fn': name, 'call': p, 'bb': bi}
        got = None
        if p in ('std::string::String::push_str', 'std::string::String::push') and len(t['args']) == 2:
            pc = piece_of_operand(t['args'][1])
            got = [pc] if pc else None
        elif p == 'std::iter::Extend::extend' and len(t['args']) == 2:
            # `res.extend([line, "\n"])`
            ors = {strip_casts(o) for o in pv.peel(pv.origins_operand(t['args'][1]))}
            if len(ors) == 1 and next(iter(ors))[0] == 'agg' and pv.agg_rvalue(next(iter(ors))).get('ak') == 'array':
                got = [piece_of_operand(op) for op in pv.agg_rvalue(next(iter(ors)))['ops']]
                got = got if all(got) else None
        if got is None:
            r.bad(cons2, '%s|push_str-arg' % name, 'what `%s` appends to the result in the loop is neither the current line trimmed at the end nor LF' % p.rsplit('::', 1)[-1], b.loc(t['span']))
            return r
        r.ok(cons2, 'appends %s' % _describe_pieces(got))
        pieces += got
    cons = {'fn': name, 'pieces_per_line': _describe_pieces(pieces)}
    if _pieces_good(pieces):
        r.ok(cons, 'every iteration appends trim_end(line) then LF')
    else:
        r.bad(cons, '%s|per-iteration' % name, 'per line the loop appends %s, expected [trim_end(line), LF]' % _describe_pieces(pieces), b.loc())
        return r
    # (c) the accumulator is touched nowhere else, except: created empty, asked `is_empty()`, and given one LF when it is empty after the loop
    fixups = []
    for bi, t in b.calls():
        if bi in blocks or not t['args']:
            continue
        p = callee_path(t) or ''
        if not any(o == ('ref', (acc, ()), ()) for a in t['args'] for o in pv.origins_operand(a)):
            continue
        cons2 = {'fn': name, 'call': p, 'bb': bi}
        if re.search(r'String::is_empty$|String::len$|Deref>?::deref$|::as_str$', p):
            continue
        if p == 'std::string::String::push' and pv.origins_operand(t['args'][1]) == {('const', ('char', 10), ())} and _acc_empty_guard(b, pv, bi, acc):
            fixups.append(bi)
            r.ok(cons2, 'one LF when nothing was appended (empty input)')
            continue
        r.bad(cons2, '%s|acc-use|%s' % (name, p), 'accumulator is modified by `%s` outside the loop' % p, b.loc(t['span']))
    # (d) empty input gives "\n": by the guarded constant return, or by that fix-up
    const_ret = any(kind == 'call' and _guarded_by_is_empty(b, pv, bi) for (kind, bi, si, origs) in ok_payload_origins(b, pv)
                    for o in origs if strip_casts(o)[0] == 'call' and pv.call_term(strip_casts(o))['args']
                    and pv.origins_operand(pv.call_term(strip_casts(o))['args'][0]) == {('const', ('str', '\n'), ())})
    cons = {'fn': name, 'empty_input': 'constant return' if const_ret else ('LF appended when the result is empty' if fixups else 'none')}
    if const_ret or fixups:
        r.ok(cons, 'the empty text is answered with a single line feed')
    else:
        r.bad(cons, '%s|empty-input' % name, 'for the empty text the post-processor returns the empty string: the output would not end with a line feed', b.loc())
    # loop exits only via iterator exhaustion
    exits = [(x, s_) for x in blocks for s_ in b.succs(x) if s_ not in blocks]
    bad_exits = [(x, s_) for (x, s_) in exits if x != sw_bb]
    if bad_exits:
        r.bad({'fn': name, 'exits': bad_exits}, '%s|early-exit' % name, 'the loop can be left before the iterator is exhausted', b.loc())
    else:
        r.ok({'fn': name, 'exits': exits}, 'single exit: iterator exhaustion')
    return r


def _acc_empty_guard(b, pv, bi, acc):
    """block bi is dominated by the true edge of a switch on String::is_empty(&acc)"""
    from paths import BodyView
    v = BodyView(None, b) if False else None
    import cfg as _cfg
    for x, blk in enumerate(b.blocks):
        t = blk['term']
        if t['t'] != 'switch' or t['discr'].get('o') not in ('copy', 'move'):
            continue
        ok = False
        for o in pv.origins_operand(t['discr']):
            if o[0] == 'call' and re.search(r'String::is_empty$', callee_path(pv.call_term(o)) or ''):
                if any(y == ('ref', (acc, ()), ()) for y in pv.origins_operand(pv.call_term(o)['args'][0])):
                    ok = True
        if not ok:
            continue
        for val, tgt in t['targets']:
            pass
        # true edge = otherwise (bool switch lists the 0 target)
        true_tgt = t['otherwise'] if any(val == 0 for val, _ in t['targets']) else None
        if true_tgt is not None and _cfg.edge_dominates(b, x, true_tgt, bi):
            return True
    return False


def _guarded_by_is_empty(b, pv, bi):
    """block bi is dominated by the true edge of a switch on str::is_empty(param 1)"""
    for x, blk in enumerate(b.blocks):
        t = blk['term']
        if t['t'] != 'switch':
            continue
        d = t['discr']
        if d['o'] not in ('copy', 'move'):
            continue
        ors = pv.origins_operand(d)
        if len(ors) != 1:
            continue
        o = next(iter(ors))
        if o[0] == 'call' and (o[1][1] == 'core::str::<impl str>::is_empty'):
            if pv.origins_operand(pv.call_term(o)['args'][0]) != {('param', 1, ())}:
                continue
            true_tgt = t['otherwise']
            if cfg.edge_dominates(b, x, true_tgt, bi):
                return True
    return False


def r3_cli_hands_out_the_result(w):
    """= C15.R2 (CLI): what the command line tool prints or leaves in the file for an accepted input is the library's result, or the input when it is
    byte-equal to it - a weaker notion of `unchanged` (seed C11/6B: `lines().eq(lines())`) lets an input without a final line feed through"""
    from rules import c15
    rs = c15.r2_only_if_changed(w)
    rs.rule = 'C11.R3'
    for f in rs.findings:
        f.rule = 'C11.R3'
        f.key = f.key.replace('C15.R2|', 'C11.R3|', 1)
    return rs


RULES = [r1_postprocess_on_every_ok, r2_postprocessor_shape, r3_cli_hands_out_the_result]
for _f in RULES[:2]:
    _f.needs = ('core',)
r3_cli_hands_out_the_result.needs = ('cli',)
MATRIX_RULES = RULES
