"""C12 - indentation is governed solely by the configured indent unit.

With pretty's contract (a line's indentation is the sum of the enclosing nest amounts unless a
column combinator intervenes):
R1 every nest amount is tab_spaces (or, in the range entry only, the source-derived space count)
R2 column-dependent combinators only in the comment module
R3 tab_spaces flows only into nest amounts: never compared, switched on, or used in arithmetic
R4 the field is written only by Config constructors/builders and the CLI option mapping
"""
import re
from prov import Prov, strip_casts, fmt_origin, place_key
from mirfacts import callee_path, resolved_id
from tyutil import name_projection
from dataflow import iter_uses
from framework import RuleResult, AnchorMissing

META = {
    'explanation': 'Provenance of the amount operand of every DocBuilder::nest call in typstyle-core (E4: backward def-use, through by-value '
                   'parameters to all call sites), a who-may-call rule for the column-dependent combinators (align/hang/indent/column/nesting/'
                   'width), a forward taint from every load of Config.tab_spaces showing it reaches nothing but casts and nest amounts (never a '
                   'comparison, switch or arithmetic), and an inventory of the writers of the field.',
    'decides': 'every formatter-produced indentation step is exactly the configured unit and the number of steps cannot depend on the unit',
    'does_not_decide': 'leading blanks that are literal Space tokens copied at a line start; widths at which wrapping interacts with the unit (excluded by the statement)',
    'trusted_base': ['pretty: a line is indented by the sum of enclosing nest amounts unless align/hang/indent/column/nesting/width intervene',
                     'rustc MIR construction'],
}

UNIT = 'typstyle_core::config::Config.tab_spaces'
CONFIG_ID = 'typstyle_core::config::Config'
COLUMN_COMBINATORS = ('align', 'hang', 'indent', 'column', 'nesting', 'width')


def _is_unit_param_origin(w, b, o):
    """origin is a load of Config.tab_spaces through a parameter chain"""
    o = strip_casts(o)
    if o[0] != 'param':
        return False
    steps, _ = name_projection(w, b.locals[o[1]]['ty'], o[2])
    return bool(steps) and steps[-1] == UNIT


def _callers_of(w, body_id):
    out = []
    for b in w.fn_bodies():
        for bi, t in b.calls():
            if resolved_id(t) == body_id or (t.get('callee') and t['callee']['def']['id'] == body_id):
                out.append((b, bi, t))
    return out


def _derives_from_unit(w, b, pv, operand, depth=0):
    """can the operand's value depend on Config.tab_spaces?  (local provenance; helper results are looked into one level)"""
    for x in pv.origins_operand(operand):
        x = strip_casts(x)
        if _is_unit_param_origin(w, b, x):
            return True
        if x[0] == 'binop':
            rv = b.blocks[x[1][0]]['stmts'][x[1][1]]['rv']
            if _derives_from_unit(w, b, pv, rv['a'], depth + 1) or _derives_from_unit(w, b, pv, rv['b'], depth + 1):
                return True
        if x[0] == 'call' and depth < 2:
            t = pv.call_term(x)
            if any(_derives_from_unit(w, b, pv, a, depth + 1) for a in t['args']):
                return True
    return False


def _amount_ok(w, b, pv, o, depth=0):
    """returns (ok, why)"""
    o = strip_casts(o)
    if _is_unit_param_origin(w, b, o):
        return True, 'Config.tab_spaces'
    if o[0] == 'param' and not o[2] and depth < 3:
        # by-value parameter: every call site must pass the unit
        callers = _callers_of(w, b.id)
        if not callers:
            return False, 'parameter `%s` of %s has no call sites to justify it' % (b.names.get(o[1], o[1]), b.short)
        for (cb, bi, t) in callers:
            cpv = Prov(cb)
            idx = o[1] - 1
            if idx >= len(t['args']):
                return False, 'call site arity mismatch in %s' % cb.short
            for co in cpv.origins_operand(t['args'][idx]):
                ok, why = _amount_ok(w, cb, cpv, co, depth + 1)
                if not ok:
                    return False, 'call site in %s passes %s' % (cb.short, why)
        return True, 'by-value parameter; all %d call sites pass Config.tab_spaces' % len(callers)
    if o[0] == 'const' and o[1][1] == 0:
        return True, 'nest(0): the identity'
    if o[0] == 'binop' and o[1][2].startswith('Mul') and o[2] in ((), (('f', 0),)) and depth < 3:
        # k * unit with k independent of the unit (`levels * tab_spaces`): still a multiple of the unit
        rv = b.blocks[o[1][0]]['stmts'][o[1][1]]['rv']
        sides = []
        for side in (rv['a'], rv['b']):
            so_ = [strip_casts(x) for x in pv.origins_operand(side)]
            sides.append(bool(so_) and all(_amount_ok(w, b, pv, x, depth + 1)[0] and not (x[0] == 'const') for x in so_))
        if sides.count(True) == 1:
            other = rv['b'] if sides[0] else rv['a']
            if not _derives_from_unit(w, b, pv, other):
                return True, 'a count independent of the unit times Config.tab_spaces'
    if o[0] == 'call' and not o[2] and depth < 3:
        # a helper of typstyle-core that returns the unit (`fn indent_unit(&self) -> isize { self.config.tab_spaces as isize }`)
        t = pv.call_term(o)
        cb = w.bodies.get(resolved_id(t))
        if cb is not None and cb.crate is w.core and cb.def_kind in ('Fn', 'AssocFn') and not cb.short.startswith('pretty::DocBuilder'):
            cpv = Prov(cb)
            rets = cpv._origins_local(0, frozenset())
            if rets:
                for ro in rets:
                    ok, why = _amount_ok(w, cb, cpv, ro, depth + 1)
                    if not ok:
                        return False, '%s returns %s' % (cb.short, why)
                return True, 'returned by %s, which returns Config.tab_spaces' % cb.short
    if o[0] == 'param' and o[2] == (('v', 1), ('f', 0)) and b.def_kind != 'Closure' and depth < 3 and b.locals[o[1]]['ty']['s'].startswith('std::option::Option<'):
        # the payload of an `Option<amount>` parameter: every caller passes None or Some(unit)
        callers = _callers_of(w, b.id)
        if not callers:
            return False, 'Option parameter of %s has no call sites' % b.short
        for (cb, bi, t) in callers:
            cpv = Prov(cb)
            for co in cpv.peel(cpv.origins_operand(t['args'][o[1] - 1])):
                co = strip_casts(co)
                if co[0] == 'agg' and cpv.agg_rvalue(co).get('vname') == 'None':
                    continue
                if co[0] == 'agg' and cpv.agg_rvalue(co).get('vname') == 'Some':
                    for xo in cpv.origins_operand(cpv.agg_rvalue(co)['ops'][0]):
                        ok, why = _amount_ok(w, cb, cpv, xo, depth + 1)
                        if not ok:
                            return False, 'call site in %s passes Some(%s)' % (cb.short, why)
                    continue
                return False, 'call site in %s passes %s' % (cb.short, fmt_origin(co, cb))
        return True, 'payload of an Option parameter; all %d call sites pass None or Some(Config.tab_spaces)' % len(callers)
    if o[0] == 'param' and o[1] == 1 and o[2] and b.def_kind == 'Closure' and depth < 3:
        # a captured variable of a closure: judged where the closure is created
        fld = [e for e in o[2] if e[0] == 'f']
        parent = w.bodies.get(b.parent)
        if fld and parent is not None:
            ppv = Prov(parent)
            for blk in parent.blocks:
                for st in blk['stmts']:
                    if st['s'] == 'assign' and st['rv']['r'] == 'agg' and st['rv'].get('ak') == 'closure' and st['rv']['def']['id'] == b.id and fld[0][1] < len(st['rv']['ops']):
                        for co in ppv.peel(ppv.origins_operand(st['rv']['ops'][fld[0][1]])):
                            ok, why = _amount_ok(w, parent, ppv, co, depth + 1)
                            if not ok:
                                return False, 'captured from %s: %s' % (parent.short, why)
                        return True, 'captured from %s, where it is Config.tab_spaces' % parent.short
    return False, fmt_origin(o, b)


def r1_nest_amounts(w):
    r = RuleResult('C12.R1', 'every DocBuilder::nest amount is Config.tab_spaces (range entry: the source-derived space count)', floor=11)
    for b in w.fn_bodies(w.core):
        pv = None
        for bi, t in b.calls():
            p = callee_path(t) or ''
            if not (p.startswith('pretty::DocBuilder') and p.endswith('::nest')):
                continue
            pv = pv or Prov(b)
            origs = pv.origins_operand(t['args'][1])
            cons = {'fn': b.short, 'call': 'nest', 'amount': [fmt_origin(o, b) for o in origs]}
            bad = None
            for o in origs:
                ok, why = _amount_ok(w, b, pv, o)
                if ok:
                    continue
                so = strip_casts(o)
                # range entry: indentation inferred from the source text
                if so[0] == 'call' and not so[2] and _is_range_entry(b) and _counts_source_spaces(w, pv.call_term(so)):
                    continue
                bad = why
            if bad is None:
                r.ok(cons, 'unit')
                # a helper that indents the document it is given (`fn indent(&self, doc) -> Doc { doc.nest(unit) }`): every use of it is a use of nest
                if b.def_kind != 'Closure' and b.locals[0]['ty']['s'].startswith('pretty::DocBuilder') and len(list(b.calls())) <= 3:
                    for (cb, cbi, ct) in _callers_of(w, b.id):
                        r.ok({'fn': cb.short, 'call': 'nest via %s' % b.short.rsplit('::', 1)[-1], 'bb': cbi}, 'unit (through the indenting helper)')
            else:
                r.bad(cons, '%s|nest|%s' % (b.short, _keyify(bad)),
                      'nest amount in %s is not the configured indent unit: %s' % (b.short, bad), b.loc(t['span']))
    return r


def _keyify(s):
    return re.sub(r'@bb\d+', '', re.sub(r'_\d+', '_', s))[:80]


def _is_range_entry(b):
    ret = b.locals[0]['ty']['s']
    return 'std::ops::Range<usize>' in ret and b.j.get('effective_pub')


def _counts_source_spaces(w, t):
    rid = resolved_id(t)
    cb = w.bodies.get(rid)
    if cb is None:
        return False
    # role: (&str, usize) -> usize, pure (no converter calls)
    tys = [cb.locals[i]['ty']['s'] for i in range(0, cb.arg_count + 1)]
    return tys == ['usize', '&str', 'usize']


def r2_column_combinators(w):
    r = RuleResult('C12.R2', 'column-dependent combinators (align/hang/indent/column/nesting/width) only in the comment module', floor=2)
    # role: the comment module = functions reachable from convert_comment
    cc = [b for b in w.core.find('::convert_comment')]
    if len(cc) != 1:
        raise AnchorMissing('convert_comment')
    comment_fns = w.reachable([cc[0].id])
    edges, _ = w.callgraph()
    for b in w.fn_bodies(w.core):
        for bi, t in b.calls():
            p = callee_path(t) or ''
            m = p.rsplit('::', 1)[-1]
            if not (p.startswith('pretty::DocBuilder') or p.startswith('pretty::DocAllocator')) or m not in COLUMN_COMBINATORS:
                continue
            cons = {'fn': b.short, 'combinator': m}
            only_comment = b.id in comment_fns and all((c.id in comment_fns) for (c, _, _) in _callers_of(w, b.id))
            if only_comment:
                r.ok(cons, 'reachable only through convert_comment (comment continuation lines are exempt)')
            else:
                r.bad(cons, '%s|%s' % (b.short, m),
                      'column-dependent combinator `%s` used in %s outside the comment converter: indentation there is no longer a multiple of the unit'
                      % (m, b.short), b.loc(t['span']))
    return r


def _loads_of_unit(w, b):
    """(bi, si, dest_local) of statements reading a place whose last named field is Config.tab_spaces"""
    out = []
    for u in iter_uses(b):
        if u['how'] in ('use', 'cast', 'binop', 'unop', 'agg', 'call-arg', 'switch', 'ref', 'repeat'):
            steps, _ = name_projection(w, b.locals[u['local']]['ty'], u['proj'])
            if steps and steps[-1] == UNIT:
                out.append(u)
    return out


def r3_unit_flows_only_to_nest(w):
    r = RuleResult('C12.R3', 'Config.tab_spaces flows only into nest amounts: never compared, switched on or used in arithmetic', floor=10)
    seen_params = set()
    work = []   # (body, local) tainted locals
    for b in w.fn_bodies(w.core):
        if _is_config_trait_impl(b):
            continue
        for u in _loads_of_unit(w, b):
            _judge_use(w, r, b, u, work, direct=True)
    done = set()
    SOME = (('v', 1), ('f', 0))
    while work:
        item = work.pop()
        b, l = item[0], item[1]
        wrapped = len(item) > 2 and item[2] == 'some'
        if (b.id, l, wrapped) in done:
            continue
        done.add((b.id, l, wrapped))
        for u in iter_uses(b):
            if u['local'] != l:
                continue
            if wrapped:
                # an Option holding the unit (`follow_indent: Option<isize>`): whole moves / arguments hand the Option on, the Some payload is the unit again,
                # its discriminant may be tested (whether to indent at all is not a property of the unit's value)
                if u['proj'] == SOME and u['how'] in ('use', 'cast') and not u['dest'][1]:
                    work.append((b, u['dest'][0]))
                    r.ok({'fn': b.short, 'use': 'payload of Option', 'bb': u['bb']}, 'copy/cast')
                elif not u['proj'] and u['how'] == 'use' and not u['dest'][1]:
                    work.append((b, u['dest'][0], 'some'))
                elif not u['proj'] and u['how'] == 'call-arg':
                    cb = w.bodies.get(resolved_id(u['term']))
                    if cb is not None and cb.crate is w.core:
                        work.append((cb, u['index'] + 1, 'some'))
                    else:
                        r.bad({'fn': b.short, 'use': 'Option<unit> argument', 'bb': u['bb']}, '%s|call|%s' % (b.short, callee_path(u['term'])),
                              'an Option holding the indent unit is passed to `%s` in %s' % (callee_path(u['term']), b.short), b.loc(u['term']['span']))
                elif not u['proj'] and u['how'] == 'discr':
                    continue
                elif u['proj'] == SOME and u['how'] == 'call-arg':
                    _judge_use(w, r, b, dict(u, proj=()), work, direct=False)
                continue
            if u['proj']:
                continue
            _judge_use(w, r, b, u, work, direct=False)
    # derived trait impls on Config (PartialEq/Hash/Debug/...) compare the field: they must not be reachable from formatting
    entries = [x for x in w.fn_bodies(w.core) if x.j.get('effective_pub') and not x.j.get('impl_trait') and x.def_kind != 'Closure'
               and 'String' in x.locals[0]['ty']['s']]
    reach = w.reachable([x.id for x in entries])
    for b in w.fn_bodies(w.core):
        if _is_config_trait_impl(b) and (b.j.get('impl_trait') or {}).get('path') not in ('std::clone::Clone', 'std::default::Default'):
            cons = {'impl': b.short, 'trait': b.j['impl_trait']['path']}
            if b.id in reach:
                r.bad(cons, 'derived|%s' % b.j['impl_trait']['path'],
                      'formatting code reaches %s, which compares/hashes Config.tab_spaces' % b.short, b.loc())
            else:
                r.ok(cons, 'derived impl not reachable from the formatting entries')
    return r


def _impl_trait_chain(w, b):
    """impl-trait paths of b and of the items it is nested in (derive-generated visitors are nested impls)"""
    out = []
    cur = b
    for _ in range(6):
        out.append((cur.j.get('impl_trait') or {}).get('path', ''))
        parent = w.bodies.get(cur.parent) if getattr(cur, 'parent', None) else None
        if parent is None:
            break
        cur = parent
    return ' '.join(out) + ' ' + b.short


def _is_config_trait_impl(b):
    return (b.j.get('impl_self') or {}).get('id') == CONFIG_ID and b.j.get('impl_trait') is not None


def _judge_use(w, r, b, u, work, direct):
    how = u['how']
    cons = {'fn': b.short, 'use': how, 'bb': u['bb']}
    loc = b.loc(b.blocks[u['bb']]['stmts'][u['si']]['span'] if u['si'] is not None else b.blocks[u['bb']]['term']['span'])
    if how in ('use', 'cast'):
        dl, dp = u['dest']
        if dp:
            # stored into a field: allowed only when building a Config (R4 checks writers)
            steps, _ = name_projection(w, b.locals[dl]['ty'], dp)
            if steps and steps[-1] == UNIT:
                r.ok(cons, 'copied into another Config')
                return
            r.bad(cons, '%s|stored' % b.short, 'indent unit stored into %s in %s' % (steps, b.short), loc)
            return
        if how == 'cast' and 'IntToInt' not in u['rv']['kind']:
            r.bad(cons, '%s|cast' % b.short, 'indent unit cast with %s' % u['rv']['kind'], loc)
            return
        work.append((b, dl))
        if dl == 0 and not dp:
            # returned: the flow continues at the destination of every call of this function
            for (cb2, bi2, t2) in _callers_of(w, b.id):
                if not t2['dest']['proj']:
                    work.append((cb2, t2['dest']['l']))
        r.ok(cons, 'copy/cast')
        return
    if how == 'call-arg':
        t = u['term']
        p = callee_path(t) or ''
        if p.startswith('pretty::DocBuilder') and p.endswith('::nest') and u['index'] == 1:
            r.ok(cons, 'nest amount')
            return
        if p.endswith('Clone>::clone') or p.endswith('Clone::clone') or 'impl std::clone::Clone for usize' in p:
            work.append((b, t['dest']['l']))
            r.ok(cons, 'clone')
            return
        rid = resolved_id(t)
        cb = w.bodies.get(rid) or (w.bodies.get(t['callee']['def']['id']) if t.get('callee') else None)
        if cb is not None and not _is_config_trait_impl(cb):
            work.append((cb, u['index'] + 1))
            r.ok(cons, 'passed by value to %s' % cb.short)
            return
        r.bad(cons, '%s|call|%s' % (b.short, p), 'indent unit passed to `%s` in %s: it must only reach nest amounts' % (p, b.short), loc)
        return
    if how == 'agg':
        rv = u['rv']
        if rv['ak'] == 'adt' and rv['adt'] == CONFIG_ID:
            r.ok(cons, 'copied into another Config')
            return
        if rv['ak'] == 'adt' and rv.get('path', '').endswith('option::Option') and rv.get('vname') == 'Some':
            dl, dp = u['dest']
            if not dp:
                work.append((b, dl, 'some'))
                r.ok(cons, 'wrapped in Some(..): followed as an optional indent')
                return
        if rv['ak'] == 'closure' and rv['def']['id'] in w.bodies:
            # captured by a closure: the flow continues at the closure's reads of that captured variable
            cb = w.bodies[rv['def']['id']]
            n = 0
            for cu in iter_uses(cb):
                if cu['local'] == 1 and [e for e in cu['proj'] if e[0] == 'f'][:1] == [('f', u['index'])]:
                    n += 1
                    _judge_use(w, r, cb, cu, work, direct=True)
            r.ok(cons, 'captured by closure %s (%d reads followed)' % (cb.short, n))
            return
        r.bad(cons, '%s|agg' % b.short, 'indent unit stored into an aggregate %s in %s' % (rv.get('path', rv['ak']), b.short), loc)
        return
    if how == 'ref':
        # &config.tab_spaces - follow the reference like a copy (derives / clone)
        dl, dp = u['dest']
        if not dp:
            work.append((b, dl))
            r.ok(cons, 'borrow')
            return
    if how == 'binop' and str(u.get('op', '')).startswith('Mul'):
        # unit * k: fine as long as k does not depend on the unit; the product is followed like the unit itself (R1 judges where it ends up)
        pv_ = Prov(b)
        rv = u['rv']
        other = rv['b'] if (rv['a'].get('p', {}).get('l') == u['local']) else rv['a']
        if not _derives_from_unit(w, b, pv_, other):
            dl, dp = u['dest']
            if not dp:
                work.append((b, dl))
                # MulWithOverflow yields (value, overflowed): the value is read through field 0
                for u2 in iter_uses(b):
                    if u2['local'] == dl and u2['proj'] == (('f', 0),) and u2['how'] in ('use', 'cast') and not u2['dest'][1]:
                        work.append((b, u2['dest'][0]))
            r.ok(cons, 'multiplied by a count that does not depend on the unit')
            return
    if how in ('use', 'cast') and u['proj'] == (('f', 1),):
        return          # the overflow flag of a checked multiplication
    r.bad(cons, '%s|%s' % (b.short, how + ('-' + u.get('op', '') if u.get('op') else '')),
          'indent unit is used in a %s%s in %s: the number of indentation steps or a layout decision can depend on the unit'
          % (how, (' ' + u['op']) if u.get('op') else '', b.short), loc)


def r4_writers(w):
    r = RuleResult('C12.R4', 'Config.tab_spaces is written only by Config constructors/builders and the CLI option mapping', floor=3 if w.cli is not None else 2)
    builders = []
    for b in w.fn_bodies():
        if _is_config_trait_impl(b) and (b.j['impl_trait'] or {}).get('path') != 'std::default::Default':
            continue
        pv = None
        for bi, blk in enumerate(b.blocks):
            if blk['cleanup']:
                continue
            for si, s in enumerate(blk['stmts']):
                if s['s'] != 'assign':
                    continue
                rv = s['rv']
                val = None
                l, pr = place_key(s['p'])
                if pr:
                    steps, _ = name_projection(w, b.locals[l]['ty'], pr)
                    if steps and steps[-1] == UNIT and rv['r'] in ('use', 'cast'):
                        val = rv['op']
                if rv['r'] == 'agg' and rv['ak'] == 'adt' and rv['adt'] == CONFIG_ID:
                    val = rv['ops'][0]
                if val is None:
                    continue
                pv = pv or Prov(b)
                origs = pv.origins_operand(val)
                ret = b.locals[0]['ty']['s']
                cons = {'fn': b.short, 'value': [fmt_origin(o, b) for o in origs]}
                returns_config = ret.split('::')[-1] == 'Config'
                if not returns_config and rv['r'] == 'agg' and origs:
                    # `Config { x, ..other }` anywhere: the unit copied from the same field of another Config is a copy, not a choice
                    def same_field(o_):
                        so_ = strip_casts(o_)
                        if so_[0] == 'call' and so_[2] and b.locals[pv.call_term(so_)['dest']['l']]['ty'].get('id') == CONFIG_ID:
                            st_, _ = name_projection(w, b.locals[pv.call_term(so_)['dest']['l']]['ty'], so_[2])
                            return bool(st_) and st_[-1] == UNIT
                        if so_[0] == 'param' and so_[2]:
                            st_, _ = name_projection(w, b.locals[so_[1]]['ty'], so_[2])
                            return bool(st_) and st_[-1] == UNIT
                        return False
                    if all(same_field(o_) for o_ in origs):
                        r.ok(cons, 'copied from the same field of another Config (struct update)')
                        continue
                if not returns_config and 'serde' in _impl_trait_chain(w, b) and 'Config' in ret:
                    r.ok(cons, 'derive(Deserialize): builds a Config from the caller\'s deserializer')
                    continue
                if not returns_config:
                    r.bad(cons, '%s|writer' % b.short,
                          'Config.tab_spaces is written in %s, which is not a Config constructor/builder (returns %s)' % (b.short, ret), b.loc(s['span']))
                    continue
                good = True
                for o in origs:
                    so = strip_casts(o)
                    if so[0] == 'const':
                        # only the Default impl may choose a constant
                        if (b.j.get('impl_trait') or {}).get('path') == 'std::default::Default':
                            continue
                        good = False
                    elif so[0] == 'param':
                        steps, _ = name_projection(w, b.locals[so[1]]['ty'], so[2])
                        if b.crate is w.cli:
                            if not (steps and steps[-1] == 'typstyle::cli::StyleArgs.tab_width'):
                                good = False
                        else:
                            # builder: from its own parameter (by value) or copied from another Config
                            if so[2] and not (steps and steps[-1] == UNIT):
                                good = False
                    elif so[0] == 'call' and 'Default' in so[1][1] and so[2]:
                        pass   # ..Default::default() remainder
                    else:
                        good = False
                if good:
                    r.ok(cons, 'constructor/builder/option mapping')
                    for o in origs:
                        so = strip_casts(o)
                        if so[0] == 'param' and not so[2] and b.crate is w.core:
                            builders.append((b, so[1]))
                else:
                    r.bad(cons, '%s|value' % b.short, 'Config.tab_spaces is set from %s in %s' % (cons['value'], b.short), b.loc(s['span']))
    # call sites of the builders that take the unit as an argument: the CLI passes its --tab-width option, the library a unit it already holds
    for (bb_, pidx) in builders:
        for (cb, bi, t) in _callers_of(w, bb_.id):
            cpv = Prov(cb)
            origs = cpv.origins_operand(t['args'][pidx - 1])
            cons = {'fn': cb.short, 'builder': bb_.short, 'value': [fmt_origin(o, cb) for o in origs]}
            good = bool(origs)
            for o in origs:
                so = strip_casts(o)
                steps = name_projection(w, cb.locals[so[1]]['ty'], so[2])[0] if so[0] == 'param' else None
                if cb.crate is w.cli:
                    good = good and bool(steps) and steps[-1] == 'typstyle::cli::StyleArgs.tab_width'
                else:
                    good = good and (so[0] == 'param' and (not so[2] or (steps and steps[-1] == UNIT)))
            if good:
                r.ok(cons, 'builder called with the CLI option / a unit the caller already holds')
            else:
                r.bad(cons, '%s|builder-arg' % cb.short, '%s passes %s to %s as the indent unit' % (cb.short, cons['value'], bb_.short), cb.loc(t['span']))
    return r


def _owner(w, b):
    while b.def_kind == 'Closure' and b.parent in w.bodies:
        b = w.bodies[b.parent]
    return b


def _is_text_postprocessor(b):
    """role: str -> String function that never touches the document algebra (the C11 post-processor)"""
    if b.locals[0]['ty']['s'] != 'std::string::String':
        return False
    return not any((callee_path(t) or '').startswith('pretty::') for _, t in b.calls())


SEARCH_ONLY = re.compile(r'<impl str>::(matches|rmatches|match_indices|contains|starts_with|ends_with|find|rfind|split|rsplit|split_once|rsplit_once|split_terminator|'
                         r'trim_matches|trim_start_matches|trim_end_matches|strip_prefix|strip_suffix)$|cmp::PartialEq(<.*>)?>?::(eq|ne)$')


def r5_no_literal_indentation(w):
    r = RuleResult('C12.R5', 'no string literal in typstyle-core carries indentation (line break, tab, or two consecutive blanks)', floor=40)
    from world import iter_operands_stmt
    for b in w.fn_bodies(w.core):
        if b.j.get('impl_trait') and (b.j['impl_trait']['path'].startswith('std::fmt::')):
            continue
        for bi, blk in enumerate(b.blocks):
            if blk['cleanup']:
                continue
            ops = []
            for s in blk['stmts']:
                ops += [(o, s['span']) for o in iter_operands_stmt(s)]
            t = blk['term']
            if t['t'] == 'call':
                p = callee_path(t) or ''
                if 'panic' in p or p.endswith('::expect') or 'fmt::Arguments' in p:
                    continue
                if SEARCH_ONLY.search(p):
                    # a pattern that is searched for / compared with, not text that is emitted
                    for o in t['args']:
                        if o['o'] == 'const' and 'str' in o:
                            r.ok({'fn': b.short, 'literal': o['str'], 'use': p.rsplit('::', 1)[-1]}, 'search pattern, never emitted')
                    continue
                ops += [(o, t['span']) for o in t['args']]
            for o, sp in ops:
                if o['o'] == 'const' and 'str' in o:
                    lit = o['str']
                    cons = {'fn': b.short, 'literal': lit}
                    if lit != '\n' and ('\n' in lit or '\t' in lit or '  ' in lit):
                        r.bad(cons, '%s|literal|%r' % (b.short, lit),
                              'string literal %r in %s carries layout (line break / tab / run of blanks): indentation would not be a multiple of the unit'
                              % (lit, b.short), b.loc(sp))
                    elif lit == '\n' and not _is_text_postprocessor(_owner(w, b)):
                        r.bad(cons, '%s|literal|%r' % (b.short, lit), 'literal line break emitted as text in %s bypasses the renderer\'s indentation' % b.short, b.loc(sp))
                    else:
                        r.ok(cons, 'no embedded layout')
    return r


def r6_verbatim_only_on_request(w):
    """= C07.R3: the statement exempts `@typstyle off` regions, whose continuation lines keep the indentation of the source.  That exemption is the
    user's request only if nothing but the directive marks a node as format-disabled (seed C12/4A: the attribute pass marked math calls with a
    commented row, whose lines then kept their source indentation whatever the unit)."""
    from rules import c07
    rs = c07.r3_marking_pass(w)
    rs.rule = 'C12.R6'
    for f in rs.findings:
        f.rule = 'C12.R6'
        f.key = f.key.replace('C07.R3|', 'C12.R6|', 1)
    return rs


def r7_no_blank_after_hard_break(w):
    """a blank emitted directly after a hard line break is indentation that no `nest` accounts for: one column, whatever the unit.  The flow helper
    adds a space in front of a comment unless it is at the start of a line - a state it keeps itself (seed C12/6A: the flag was set before the call
    that clears it).  Evaluated on <first child, Space, LineComment, Space+nl, LineComment, Space+nl, rest..> at every flow site, from the start."""
    import grammar
    import sites as sm
    from kindflow import Node, Doc
    r = RuleResult('C12.R7', 'flow sites: no blank directly after a hard line break (two line comments in a row after the first child)', floor=12)
    se = sm.SiteEvaluator(w)
    LC, NL, SP = Node('child', 'LineComment'), Node('child', 'Space', True), Node('child', 'Space', False)
    for b, i, kinds in se.converters():
        if not se.has_node_loop(b):
            continue
        for K in kinds:
            if K not in grammar.SHAPES:
                continue
            shape = [e.split('@')[0] for e in grammar.SHAPES[K][-1]]
            ks = [grammar.SLOT_DEFAULT.get(e, e) for e in shape]
            if len(ks) < 2:
                continue
            seq = [Node('child', ks[0]), SP, LC, NL, LC, NL]
            for k in ks[1:]:
                seq += [Node('child', k), SP]
            seq = seq[:-1] + ['END']
            res = sm.evaluate_sequence(w, b, i, K, seq, from_start=True, later_loops_empty=True)
            cons = {'converter': b.short.rsplit('::', 1)[-1], 'parent': K}
            if res is None:
                r.bad(cons, '%s|%s|not-evaluated' % (cons['converter'], K), 'sequence evaluation exceeded its bounds in %s' % b.short)
                continue
            bad = n = 0
            for item in res:
                if not (len(item) > 3 and item[3] and item[3][0] == 'ended' and isinstance(item[3][1], Doc)):
                    continue
                flat = [a for a in item[3][1].flat() if a[0] != 'nil']
                if not any(a[0] == 'hardline' for a in flat):
                    continue
                n += 1
                for x, y in zip(flat, flat[1:]):
                    if x[0] == 'hardline' and y[0] == 'space':
                        bad += 1
                        break
            if not n:
                r.ok(cons, 'not printed by the flow helper on this sequence')
            elif bad:
                r.bad(cons, '%s|%s|blank-after-break' % (cons['converter'], K),
                      '%s (%s node): after the hard line break that ends a line comment the flow helper emits a blank in front of the next comment on %d of %d paths: that '
                      'line is indented by one column more than its nesting, not by a multiple of the unit' % (cons['converter'], K, bad, n), b.loc())
            else:
                r.ok(cons, 'nothing but the nesting indents the line after a line comment (%d paths)' % n)
    return r


RULES = [r1_nest_amounts, r2_column_combinators, r3_unit_flows_only_to_nest, r4_writers, r5_no_literal_indentation, r6_verbatim_only_on_request, r7_no_blank_after_hard_break]
r5_no_literal_indentation.needs = ('core',)
r1_nest_amounts.needs = ('core',)
r2_column_combinators.needs = ('core',)
r3_unit_flows_only_to_nest.needs = ('core',)
r4_writers.needs = ("core",)
r6_verbatim_only_on_request.needs = ("core",)
r7_no_blank_after_hard_break.needs = ("core",)
MATRIX_RULES = RULES
