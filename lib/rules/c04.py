"""C04 - well-formed input never yields output with syntax errors (the two clauses visible in the shape of the code)."""
import re
import grammar
import kindflow as kf
import sites as sm
from sites import run_function, context, atoms_of, evaluate_sequence
from kindflow import Agg, Node, Const, Doc, Text, TOP
from mirfacts import callee_path, resolved_id
from paths import BodyView
from tyutil import adt_lookup
from framework import RuleResult, AnchorMissing
from rules import e2
from rules.e2 import COMMENT, last

META = {
    'explanation': 'E2 abstract evaluation on sequences and on the optional-delimiter helpers: (R1) at every site that emits a comment child, the two-child '
                   'sequence <LineComment, Space-with-line-break> is evaluated with the state of the first iteration carried into the second (all other state '
                   'unknown): a hard line break must be produced before the next token - directly (flow helper, markup lines, math), through a Linebreak item '
                   'that the stylist\'s printer maps to a hard line (chain, plain), or - list stylist - because a line comment forces the never-fold layout in '
                   'which every comment and every item carrying attached comments is followed by a hard line, the only exception being guarded by the '
                   'per-item flag that is false unless the attached comments end with a line comment; (R2) optional delimiters are printed in pairs governed by '
                   'one group, with the lexical mode handed to the body agreeing with the pair ("(" ")" <-> continued code, "{" "}" <-> code), and the wrapper '
                   'returns its body unwrapped only when the mode already was continued code.',
    'decides': 'a line comment can never be followed on its line by a token of the same construct; an optional opening delimiter is printed iff its closing one is, '
               'and the body inside is converted in the mode the delimiters establish; (R3) at the 21 code-mode sites printed by the flow helper, for every child sequence '
               'the grammar allows (a Space between every two children), two tokens that the lexer would read as one when written without whitespace are separated by a '
               'space or a hard break in the returned document; (R4) an expression embedded with `#` in math is converted in code mode',
    'does_not_decide': 'token fusion outside the flow sites (list / chain stylists, markup and math edges, typed-accessor paths), soft breaks outside delimiters, anything '
                       'width-dependent (taken whole the property is a runtime quantity)',
    'trusted_base': ['grammar tables (typst-syntax 0.13.1): a line comment is followed by a Space containing a line break or ends its parent',
                     'pretty: hardline always breaks; a group is flat or broken as a whole', 'rustc MIR construction'],
}

LC = Node('child', 'LineComment')
NL = Node('child', 'Space', True)


def _hard(events):
    return any((e[0] == 'make' and e[1] == 'hardline') for e in events)


def _pushed_variant(events, vname):
    for e in events:
        if e[0] == 'push':
            for x in e[2:]:
                if isinstance(x, Agg) and x.variant == vname:
                    return True
    return False


def _stores(events, field_suffix):
    return [e[2] for e in events if e[0] == 'store' and e[1].endswith(field_suffix)]


def r1_line_comment_discipline(w):
    r = RuleResult('C04.R1', 'a line comment is always followed by a hard line break before the next token (evaluated on <LineComment, Space+nl>)', floor=40)
    se = sm.SiteEvaluator(w)
    n_sites = 0
    list_sites = 0
    list_mech = set()
    for b, i, kinds in se.converters():
        if not se.has_node_loop(b):
            continue
        for K in kinds:
            ch = set(grammar.CHILDREN.get(K, []))
            if 'LineComment' not in ch:
                continue
            res = evaluate_sequence(w, b, i, K, [LC, NL])
            if res is None:
                r.bad({'converter': last(b.short), 'parent': K}, '%s|%s|not-evaluated' % (last(b.short), K), 'sequence evaluation exceeded its bounds in %s' % b.short, b.loc())
                continue
            by_loop = {}
            for loop, steps, assumed in res:
                by_loop.setdefault(loop, []).append((steps, assumed))
            for loop, paths in sorted(by_loop.items()):
                lf = last(loop[0])
                # loops that do not emit the comment at all are scans
                if not any(any(e[0] in ('append', 'push', 'convert') for e in steps[0]) for steps, _ in paths):
                    continue
                if lf == 'convert_code_block' or (lf == 'convert_import' and last(b.short) == 'convert_import'):
                    continue      # flattening loops: the nodes are queued as nodes and judged in the loop that consumes them
                if lf == 'convert_markup_impl':
                    continue      # per-line loop: line-breaking spaces never reach it (collect_markup_repr splits the lines there; its sequence is judged)
                n_sites += 1
                cons = {'converter': last(b.short), 'parent': K, 'loop': '%s:%d' % (lf, loop[1]), 'paths': len(paths)}
                bad = None
                how = set()
                for steps, assumed in paths:
                    s0, s1 = steps[0], steps[1]
                    if _hard(s1):
                        how.add('hardline emitted')
                        continue
                    if any(e[0] == 'convert' and e[1].endswith('convert_space') and isinstance(e[2], Node) and e[2].linebreak for e in s1):
                        how.add('convert_space(Space+nl) [= hardline, C09.R3]')
                        continue
                    if _pushed_variant(s1, 'Linebreak'):
                        how.add('Linebreak item queued [printer maps it to hardline]')
                        continue
                    if any(isinstance(v, (Const, kf.IntGe)) and (getattr(v, 'v', None) or getattr(v, 'n', 0)) for v in _stores(s1, 'MarkupLine.breaks')):
                        how.add('markup line closed with breaks >= 1')
                        continue
                    # the same, with the line built as a value (`MarkupLine { breaks, ..take(&mut current) }`) and queued
                    queued = [x for e in s1 if e[0] == 'push' for x in e[2:] if isinstance(x, Agg) and x.adt.endswith('MarkupLine') and len(x.fields) > 1]
                    if queued and all(isinstance(x.fields[1], (Const, kf.IntGe)) and (getattr(x.fields[1], 'v', None) or getattr(x.fields[1], 'n', 0)) for x in queued):
                        how.add('markup line queued with breaks >= 1')
                        continue
                    if any(isinstance(v, Agg) and v.variant == 'Break' for v in _stores(s1, 'start_bound')) or \
                            any(e[0] == 'store' and e[1].endswith('start_bound') for e in s1):
                        how.add('markup boundary from the space (Break)')
                        continue
                    if lf == 'process_iterable_impl':
                        # list stylist: the comment is queued; the never-fold layout takes care (checked below), provided it is forced by one of
                        # the two redundant mechanisms and the stylist records that the last free comment is a line comment
                        hl = _stores(s0, 'ListStylist.has_line_comment')
                        fs = _stores(s0, 'ListStylist.fold_style')
                        hc = _stores(s0, 'ListStylist.has_comment')
                        fe = _stores(s0, 'ListStylist.free_ends_with_line_comment')
                        mech_a = bool(hl) and all(v == Const(True) for v in hl)
                        mech_b = bool(fs) and isinstance(fs[-1], Agg) and fs[-1].variant == 'Never' and bool(hc) and hc[-1] == Const(True)
                        if (mech_a or mech_b) and fe and fe[-1] == Const(True):
                            how.add('list: never-fold forced by %s; free_ends_with_line_comment set' % ('has_line_comment' if mech_a else 'fold_style=Never + has_comment'))
                            list_mech.add('A' if mech_a else 'B')
                            continue
                        bad = 'the list stylist does not record the line comment (has_line_comment=%s, fold_style=%s, has_comment=%s, free_ends_with_line_comment=%s)' % (hl, fs, hc, fe)
                        break
                    bad = 'no hard line break is produced after the comment (second step events: %s)' % [e[:2] for e in s1][:6]
                    break
                if lf == 'process_iterable_impl':
                    list_sites += 1
                if not bad and lf != 'process_iterable_impl' and any(h.startswith('Linebreak item queued') for h in how):
                    # the terminator is a queued item: no later child may un-queue it again (evaluated on <LineComment, Space+nl, X> for every X)
                    kinds3 = [Node('child', k) for k in sorted(ch) if k not in ('Space',)] + [Node('child', 'Space', True), Node('child', 'Space', False)]
                    res3 = evaluate_sequence(w, b, i, K, [LC, NL, kinds3], with_wholes=True)
                    if res3 is None:
                        bad = 'the three-step evaluation <LineComment, Space+nl, X> exceeded its bounds'
                    else:
                        for loop3, steps3, assumed3, items3 in res3:
                            if loop3 != loop or len(steps3) < 3:
                                continue
                            uq = [e for e in steps3[2] if e[0] == 'unqueue' and isinstance(e[2], Agg) and e[2].variant == 'Linebreak']
                            if uq:
                                bad = 'queues a Linebreak item for the space, but a following %s child removes it again (%s): the comment is no longer terminated' % (
                                    items3[2].kind if len(items3) > 2 else '?', uq[0][1])
                                break
                        else:
                            how.add('no later child un-queues it (%d three-step paths)' % len(res3))
                if bad:
                    r.bad(cons, '%s|%s|%s' % (last(b.short), K, lf),
                          '%s (%s node, loop in %s): after a line comment followed by a line-breaking space %s: the next token would be printed on the comment\'s line and '
                          'be swallowed by it' % (last(b.short), K, lf, bad), b.loc())
                else:
                    r.ok(cons, '; '.join(sorted(how)))
    # converters that iterate a SUB-sequence of the children (edges stripped or peeled off): the line-breaking space after a line comment
    # may be among the excluded children, so the comment can be the last item of the iteration.  Evaluated on <LineComment, END>: in the
    # document the converter returns, a hard line break must come between the comment and the next token (e.g. the closing delimiter).
    n_sub = 0
    for b, i, kinds in se.converters():
        if not se.has_node_loop(b):
            continue
        if not _iterates_subsequence(w, b):
            continue
        for K in kinds:
            if 'LineComment' not in grammar.CHILDREN.get(K, []):
                continue
            n_sub += 1
            # what follows the comment in the source, outside the iterated sub-sequence, is a line-breaking space
            peel = lambda interp, m, f, t, which: [Node('peel', 'Space', True)] if which == 'split_last' else [Node('peel', 'Space', False), None]
            peels = any(re.search(r'::(split_first|split_last)$', callee_path(t) or '') for _, t in b.calls())
            res = evaluate_sequence(w, b, i, K, [LC, 'END'], with_wholes=True, edge_hint={'last': LC}, peel=peel if peels else None, respect_kinds=True)
            cons = {'converter': last(b.short), 'parent': K, 'sequence': '<LineComment, END>'}
            if res is None:
                r.bad(cons, '%s|%s|end|not-evaluated' % (last(b.short), K), 'the <LineComment, END> evaluation of %s exceeded its bounds' % b.short, b.loc())
                continue
            bad = None
            n_paths = 0
            for item in res:
                if not (len(item) > 3 and isinstance(item[3], tuple) and item[3] and item[3][0] == 'ended'):
                    continue
                result = item[3][1]
                if not isinstance(result, Doc):
                    continue
                for toks in _linearise(result):
                    n_paths += 1
                    idx = [k for k, tk in enumerate(toks) if tk[0] == 'conv' and tk[1].endswith('convert_comment') and isinstance(tk[2], Node) and tk[2].kind == 'LineComment']
                    if not idx:
                        continue
                    for tk in toks[idx[-1] + 1:]:
                        if tk[0] == 'hardline':
                            break
                        if tk[0] == 'conv' and isinstance(tk[2], Node) and tk[2].kind == 'Space' and e2.space_leaf_ok(w, tk[1]):
                            # the stripped space handed to a helper that satisfies the Space-leaf contract (hardline iff its text has a line break)
                            if tk[2].linebreak is True:
                                break
                            if tk[2].linebreak is False:
                                continue
                        if tk[0] in ('nil', 'space', 'line', 'line_', 'softline', 'softline_'):
                            continue
                        bad = 'the returned document continues with %s right after the comment (only %s in between)' % (
                            ('`%s`' % tk[1]) if tk[0] == 'lit' else ('another document' if tk[0] == 'top' else tk[0]), [x[0] for x in toks[idx[-1] + 1:toks.index(tk)]] or 'nothing')
                        break
                    if bad:
                        break
                if bad:
                    break
            if bad:
                r.bad(cons, '%s|%s|end' % (last(b.short), K),
                      '%s (%s node) iterates only part of the children; when a line comment is the last child it keeps (the line break after it is among the stripped ones) %s: '
                      'the closing token is printed on the comment\'s line and swallowed by it' % (last(b.short), K, bad), b.loc())
            else:
                r.ok(cons, 'a hard line break follows a final line comment on all %d evaluated layouts' % n_paths)
    if n_sub < 2:
        raise AnchorMissing('converters iterating a sub-sequence of children (found %d)' % n_sub)
    # the evaluation above takes "the space after the comment contains a line break" from the text predicate: it has to be the lexer's notion
    for ok, cons, key, why, loc in e2.linebreak_predicate_obligations(w):
        if ok:
            r.ok(cons, why)
        else:
            r.bad(cons, key, why, loc)
    if n_sites < 30:
        raise AnchorMissing('comment-emitting sites for the sequence rule (found %d)' % n_sites)
    # the flags that force the never-fold layout are latches: once a line comment set them no later child may clear them
    # (evaluated per child kind in the single-iteration table of the list stylist's loop)
    tab = e2.site_table(w)
    latch_fields = ('ListStylist.has_line_comment',) if 'A' in (list_mech or {'A'}) else ()
    resets = {}
    n_latch = 0
    for (fn, parent), outs in tab.items():
        for o in outs or []:
            if not o.loops or last(o.loops[-1][0]) != 'process_iterable_impl':
                continue
            for (fld, val) in o.stores or []:
                if fld.endswith(latch_fields) and latch_fields:
                    n_latch += 1
                    if not (isinstance(val, Const) and val.v is True):
                        resets.setdefault((fld.rsplit('::', 1)[-1], o.item.kind), repr(val))
    cons = {'list_stylist_latches': list(latch_fields), 'stores_seen': n_latch, 'non_true_stores': sorted(map(str, resets))}
    if resets:
        (fld, k), val = sorted(resets.items(), key=str)[0]
        r.bad(cons, 'list-stylist|latch-reset|%s' % fld.rsplit('.', 1)[-1],
              'the list stylist writes %s := %s while processing a %s child: the flag that forces the broken layout after a line comment is not a latch, a later comment (e.g. a block '
              'comment) clears it and the list can be folded onto the line of the line comment' % (fld, val, k))
    elif latch_fields and n_latch:
        r.ok(cons, 'only ever set to true')
    # printers: Linebreak items become hard lines
    for name, variant in (('chain::{impl#0}::print_doc', 'Linebreak'), ('plain::{impl#0}::print_doc', 'Linebreak')):
        bs = w.core.find(name)
        if len(bs) != 1:
            raise AnchorMissing(name)
        b = bs[0]
        v = BodyView(w, b)
        ok = False
        for bi, t in b.calls():
            if (callee_path(t) or '').endswith('DocAllocator::hardline'):
                if any(vals == {variant} for atom, vals, _ in v.guards(bi)):
                    ok = True
        cons = {'printer': last(name.split('::')[0]) + '::print_doc', 'item': variant}
        if ok:
            r.ok(cons, 'the %s arm builds a hardline' % variant)
        else:
            r.bad(cons, '%s|linebreak-arm' % name, 'the %s arm of %s does not produce a hard line break' % (variant, name), b.loc())
    # the per-item flag the printer's exception relies on is the line-comment flag of the free comments *as the comment loop left it*
    for line in _attached_flag_obligations(w):
        ok, cons, key, why, loc = line
        if ok:
            r.ok(cons, why)
        else:
            r.bad(cons, key, why, loc)
    # list stylist printer
    for line in _list_printer_obligations(w, list_mech or {'A'}):
        ok, cons, key, why, loc = line
        if ok:
            r.ok(cons, why)
        else:
            r.bad(cons, key, why, loc)
    return r


def _attached_flag_obligations(w):
    """[(ok, construct, key, why, loc)]: where the list stylist attaches the free comments to the last item it records whether they end with a line
    comment (`after_ends_with_line_comment = free_ends_with_line_comment`); the printer omits the hard break after the last item of a tight list
    only when that flag is false.  The copied value has to be the one the comment loop left: no write to the source flag may come between the entry
    of the attaching function and the read (seed C06/5B: a helper that hands out the free comments also cleared the flag, before it was read).
    Judged on the attaching function with the stylist's own helpers expanded."""
    import inline
    from prov import place_key
    from tyutil import name_projection
    out = []
    SRC, DST = 'free_ends_with_line_comment', 'after_ends_with_line_comment'

    def field_stores(b, suffix):
        res = []
        refs = set()       # locals holding `&mut <place ending in the field>` (a binding of a pattern: `Item::Commented { flag, .. } => *flag = ..`)
        for bi, blk in enumerate(b.blocks):
            for st in blk['stmts']:
                if st['s'] == 'assign' and st['rv'].get('r') == 'ref' and st['rv'].get('p', {}).get('proj') and not st['p']['proj']:
                    l, pr = place_key(st['rv']['p'])
                    steps, _ = name_projection(w, b.locals[l]['ty'], pr)
                    if steps and steps[-1].endswith(suffix):
                        refs.add(st['p']['l'])
        for bi, blk in enumerate(b.blocks):
            if blk['cleanup']:
                continue
            for st in blk['stmts']:
                if st['s'] == 'assign' and st['p']['proj']:
                    if st['p']['l'] in refs and st['p']['proj'] == [{'p': 'deref'}]:
                        res.append((bi, st))
                        continue
                    l, pr = place_key(st['p'])
                    steps, _ = name_projection(w, b.locals[l]['ty'], pr)
                    if steps and steps[-1].endswith(suffix):
                        res.append((bi, st))
        return res
    fns = [b for b in w.fn_bodies(w.core) if b.def_kind != 'Closure' and 'layout::list' in b.short]
    writers = [b for b in fns if field_stores(b, DST) and not b.short.endswith('::new')]
    attach = [b for b in writers if any(st['rv']['r'] == 'use' and st['rv']['op'].get('o') in ('copy', 'move') for _, st in field_stores(b, DST))]
    if not attach:
        if not any(field_stores(b, SRC) for b in fns):
            return out          # the stylist has no such flag (another mechanism): nothing to relate
        out.append((False, {'flag': DST}, 'list-stylist|attached-flag|anchor', 'the function that copies %s into %s was not found' % (SRC, DST), None))
        return out
    for b0 in attach:
        b = inline.inline_body(w, b0, lambda f, t_, d_: f.crate is w.core and 'layout::list' in f.short and f.def_kind in ('Fn', 'AssocFn') and f.id != b0.id, desugar=False)
        v = BodyView(w, b)
        src_writes = {bi for bi, _ in field_stores(b, SRC)}
        for bi, st in field_stores(b, DST):
            if st['rv']['r'] != 'use' or st['rv']['op'].get('o') not in ('copy', 'move'):
                continue
            cons = {'fn': b0.short, 'copies': '%s <- %s' % (DST, SRC)}
            # blocks that read the source flag for this store
            reads = set()
            for o in v.pv.origins_operand(st['rv']['op']):
                d_ = v.describe(o)
                if SRC in d_:
                    reads.add(bi if o[0] != 'field' else bi)
            if not any(SRC in v.describe(o) for o in v.pv.origins_operand(st['rv']['op'])):
                out.append((False, cons, 'list-stylist|attached-flag|source', 'the value stored into %s in %s is not the stylist\'s %s' % (DST, b0.short, SRC), b0.loc()))
                continue
            # the read happens in the block of the copy (or in one that dominates it): is a write to the source flag reachable before it?
            before = set()
            seen, work = set(), [0]
            # forward reachability from the entry that stops at the block of the store: every block on some path entry -> store
            can_reach = set()
            rev = {}
            for x in range(len(b.blocks)):
                for y in b.succs(x):
                    rev.setdefault(y, set()).add(x)
            work = [bi]
            while work:
                x = work.pop()
                if x in can_reach:
                    continue
                can_reach.add(x)
                work.extend(rev.get(x, ()))
            work = [0]
            while work:
                x = work.pop()
                if x in seen or x not in can_reach:
                    continue
                seen.add(x)
                work.extend(b.succs(x))
            clobber = sorted(x for x in src_writes if x in seen and x != bi)
            if clobber:
                out.append((False, cons, 'list-stylist|attached-flag|clobbered',
                            'in %s the stylist\'s %s is written (block(s) %s, e.g. in an expanded helper) on a path before it is copied into the item\'s %s: the item then never '
                            'records that its attached comments end with a line comment, and the hard break after the last item of a tight list is omitted - the closing delimiter '
                            'lands on the comment\'s line' % (b0.short, SRC, clobber[:3], DST), b0.loc()))
            else:
                out.append((True, cons, 'list-stylist|attached-flag', 'the flag is copied as the comment loop left it (no write to it on a path from the entry to the copy)', b0.loc()))
    return out


SUBSEQ = re.compile(r'(slice::<impl \[T\]>::(get|split_first|split_last|split_at)|Index<.*Range.*>>::index|Iterator>?::(position|rposition))$')


def _iterates_subsequence(w, b):
    """does the converter (closures included) cut a sub-range out of a children slice before iterating it?"""
    ids = [b.id] + [x.id for x in w.fn_bodies(w.core) if x.def_kind == 'Closure' and x.id.startswith(b.id + '::')]
    for bid in ids:
        for bi, t in w.bodies[bid].calls():
            p = callee_path(t) or ''
            cs = (t.get('callee') or {}).get('s', '')
            if SUBSEQ.search(p) or SUBSEQ.search(cs):
                if 'SyntaxNode' in cs or 'SyntaxNode' in str([w.bodies[bid].locals[a['p']['l']]['ty']['s'] for a in t['args'] if a['o'] in ('copy', 'move')]):
                    return True
    return False


DELIMS = {'parens': ('(', ')'), 'brackets': ('[', ']'), 'braces': ('{', '}'), 'angles': ('<', '>'), 'double_quotes': ('"', '"'), 'single_quotes': ("'", "'")}


def _linearise(doc, cap=16):
    """print-order token sequences of an abstract document (delimiters of parens()/enclose() materialised; one sequence per choice of
    flat_alt alternatives, at most `cap`)"""
    seqs = [[]]
    for a in doc.atoms:
        if a[0] == 'wrap':
            name = a[1]
            if name == 'enclose':
                parts = [a[3], a[2], a[4]]
            else:
                parts = [a[2]]
            inner = [[]]
            for part in parts:
                sub = _linearise(part, cap) if isinstance(part, Doc) else [[('top',)]]
                inner = [x + y for x in inner for y in sub][:cap]
            if name in DELIMS:
                o, c = DELIMS[name]
                inner = [[('lit', o)] + x + [('lit', c)] for x in inner]
            seqs = [x + y for x in seqs for y in inner][:cap]
        elif a[0] == 'alt':
            subs = []
            for part in a[1:3]:
                subs += _linearise(part, cap) if isinstance(part, Doc) else [[('top',)]]
            seqs = [x + y for x in seqs for y in subs][:cap]
        elif a[0] == 'text':
            x = a[1]
            seqs = [s_ + [('lit', x.v) if isinstance(x, Const) else ('text', x)] for s_ in seqs]
        else:
            seqs = [s_ + [a] for s_ in seqs]
    return seqs


def _list_printer_obligations(w, mechanisms=('A',)):
    out = []
    bs = [x for x in w.core.find('::print_doc') if 'layout::list' in x.short]
    if len(bs) != 1:
        raise AnchorMissing('ListStylist::print_doc')
    b = bs[0]
    a = adt_lookup(w, 'typstyle_core::pretty::layout::list::ListStylist')
    if a is None:
        raise AnchorMissing('ListStylist')
    names = [f['name'] for f in a['variants'][0]['fields']]
    if 'has_line_comment' not in names:
        raise AnchorMissing('ListStylist.has_line_comment')
    fields = [TOP] * len(names)
    if 'A' in mechanisms and 'B' not in mechanisms:
        fields[names.index('has_line_comment')] = Const(True)
    else:
        # mechanism B (alone or at some site): the layout is forced through fold_style; nothing may reset it once a comment was seen
        fields[names.index('fold_style')] = Agg('typstyle_core::pretty::style::FoldStyle', 'Never', [])
        for fb in w.fn_bodies(w.core):
            if 'layout::list' not in fb.short or fb.short.endswith('::new'):
                continue
            fv = BodyView(w, fb)
            for bi, blk in enumerate(fb.blocks):
                for st in blk['stmts']:
                    if st['s'] == 'assign' and st['p']['proj'] and st['rv']['r'] == 'agg' and st['rv'].get('path', '').endswith('FoldStyle') and st['rv']['vname'] != 'Never':
                        from tyutil import name_projection
                        from prov import place_key
                        l, pr = place_key(st['p'])
                        steps, _ = name_projection(w, fb.locals[l]['ty'], pr)
                        if steps and steps[-1].endswith('ListStylist.fold_style') and fb.def_kind != 'Closure' and not fb.short.endswith('with_fold_style'):
                            guarded = any(atom.endswith('ListStylist.has_comment') and vals == {False} for atom, vals, _ in fv.guards(bi))
                            out.append((guarded, {'fn': last(fb.short), 'writes': 'fold_style := %s' % st['rv']['vname']}, 'list-printer|fold-style-reset|%s' % last(fb.short),
                                        'guarded by has_comment == false' if guarded else
                                        '%s can reset fold_style after a line comment forced the never-fold layout' % fb.short, fb.loc()))
    res = run_function(w, b, {1: Agg(a['id'], None, fields)}, max_paths=20000, max_steps=500000)
    if res is None:
        out.append((False, {'printer': 'ListStylist::print_doc'}, 'list-printer|not-evaluated', 'ListStylist::print_doc could not be evaluated within bounds', b.loc()))
        return out
    soft = 0
    missing = 0
    n = 0
    example = None
    for result, events, assumed in res:
        seq = []
        for e in events:
            if e[0] == 'append':
                for at in atoms_of(e[1]):
                    seq.append(at[0] if at[0] != 'top' else 'top:%s' % (at[1] if len(at) > 1 else ''))
        n += 1
        if any(x in ('line', 'line_', 'softline') for x in seq):
            soft += 1
        # every comment payload must be followed by a hardline before the next item
        flags_false = sum(1 for x in assumed if len(x) > 4 and x[3] and re.search(r'Commented\.\d+$', str(x[3])) and not str(x[3]).endswith(('.0', '.1')) and x[4] is False)
        miss_here = 0
        for idx, x in enumerate(seq):
            if x in ('top:Comment.0', 'top:Commented.1'):
                follow = []
                for y in seq[idx + 1:]:
                    if y in ('top:Comment.0', 'top:Commented.0'):
                        break
                    follow.append(y)
                if 'hardline' not in follow:
                    miss_here += 1
        if miss_here > flags_false:
            missing += 1
            example = example or seq
    cons = {'printer': 'ListStylist::print_doc', 'forced_by': sorted(mechanisms), 'paths': n}
    out.append((soft == 0, dict(cons, obligation='never-fold layout'), 'list-printer|soft-layout',
                'with has_line_comment set only the never-fold layout is reachable' if soft == 0 else
                'ListStylist::print_doc can take a foldable layout (soft line breaks) although the list contains a line comment (%d of %d paths)' % (soft, n), b.loc()))
    out.append((missing == 0, dict(cons, obligation='hardline after every comment'), 'list-printer|no-hardline-after-comment',
                'every detached comment and every item with attached comments is followed by a hard line (exception guarded by the item\'s line-comment flag being false)'
                if missing == 0 else
                'in the never-fold layout an item\'s attached comments can be followed directly by the next token or the closing delimiter without a hard line break and '
                'without the item\'s "attached comments end with a line comment" flag being false (%d of %d paths, e.g. %s): `$x // c\\n$` -> `$x // c$`' % (missing, n, example),
                b.loc()))
    # the per-item flag is copied from free_ends_with_line_comment when comments are attached
    ta = [x for x in w.core.find('::try_attach_comments')]
    if len(ta) == 1:
        v = BodyView(w, ta[0])
        good = False
        for bi, blk in enumerate(ta[0].blocks):
            for s in blk['stmts']:
                if s['s'] == 'assign' and s['p']['proj'] and s['rv']['r'] == 'use':
                    d = v.describe_operand(s['rv']['op'])
                    if d.endswith('ListStylist.free_ends_with_line_comment') and ta[0].locals[s['p']['l']]['ty']['s'] in ('&mut bool',):
                        good = True
        cons = {'fn': 'try_attach_comments', 'obligation': 'item flag := free_ends_with_line_comment'}
        flag_needed = any(True for result, events, assumed in res for x in assumed if len(x) > 4 and x[3] and re.search(r'Commented\.[2-9]$', str(x[3])))
        if good or not flag_needed:
            out.append((True, cons, None, 'the flag of the item receives the stylist\'s record of the last free comment' if good else 'no per-item flag is consulted', None))
        else:
            out.append((False, cons, 'list-printer|flag-source', 'the per-item line-comment flag is not set from free_ends_with_line_comment when comments are attached', ta[0].loc()))
    return out


# ------------------------------------------------------------------------------------------------- R2
PAIRS = {('{', '}'): 'Code', ('(', ')'): 'CodeCont'}


def _pair_shape(result):
    """(open literal, close literal, converted modes, in_one_group) of a document built by the optional-paren helper"""
    if not isinstance(result, Doc):
        return None
    flat = result.flat()
    lits = [a[1].v for a in flat if a[0] == 'text' and isinstance(a[1], Const) and a[1].v in ('(', ')', '{', '}', '[', ']')]
    modes = [a[3] for a in flat if a[0] == 'conv']
    # structure: a single group at the root that contains both alternatives and the body
    root_groups = [a for a in result.atoms if a[0] == 'wrap' and a[1] == 'group']
    in_group = False
    alts_ok = False
    if len(result.atoms) == 1 and root_groups:
        inner = root_groups[0][2]
        iflat = inner.flat() if isinstance(inner, Doc) else []
        in_group = all(any(a[0] == 'text' and isinstance(a[1], Const) and a[1].v == l for a in iflat) for l in lits) and any(a[0] == 'conv' for a in iflat)
        alts = _alts(inner)
        alts_ok = len(alts) >= 2 and all(_is_nil(x[2]) for x in alts)
    return lits, modes, in_group, alts_ok


def _alts(d):
    out = []
    if not isinstance(d, Doc):
        return out
    for a in d.atoms:
        if a[0] == 'alt':
            out.append(a)
        elif a[0] == 'wrap':
            for x in a[2:]:
                out += _alts(x)
    return out


def _is_nil(d):
    return isinstance(d, Doc) and all(a[0] == 'nil' for a in d.flat())


def r2_optional_delimiters_paired(w):
    r = RuleResult('C04.R2', 'optional delimiters come in pairs under one group and the body is converted in the mode the pair establishes', floor=10)
    core = w.core
    def one(name):
        bs = [b for b in core.find('::' + name) if b.def_kind != 'Closure']
        if len(bs) != 1:
            raise AnchorMissing(name)
        return bs[0]
    b = one('convert_expr_with_optional_paren')
    binary = Agg('typst_syntax::ast::Expr', 'Binary', [Node('parent', 'Binary')])
    for ub in (True, False):
        for mode in ('Markup', 'Code', 'CodeCont', 'Math'):
            res = run_function(w, b, {2: context(mode, False), 3: binary, 4: Const(ub)})
            cons = {'fn': 'convert_expr_with_optional_paren', 'use_braces': ub, 'ctx.mode': mode}
            if not res:
                r.bad(cons, 'optional_paren|%s|%s|not-evaluated' % (ub, mode), 'could not evaluate convert_expr_with_optional_paren', b.loc())
                continue
            bad = None
            for result, events, assumed in res:
                sh = _pair_shape(result)
                if sh is None:
                    bad = 'result is not a document'
                    break
                lits, modes, in_group, alts_ok = sh
                pair = tuple(lits)
                if pair not in PAIRS:
                    bad = 'delimiters printed are %s' % (lits,)
                elif modes != [PAIRS[pair]]:
                    bad = 'the body is converted in mode %s inside %s%s (expected %s): line breaks inside would %s' % (
                        modes, pair[0], pair[1], PAIRS[pair], 'not be wrapped in parentheses although a newline ends the statement inside braces' if pair[0] == '{' else 'be treated as statement ends')
                elif not in_group or not alts_ok:
                    bad = 'opening and closing delimiter are not alternatives (flat: nothing) governed by the one group that contains the body'
                elif (pair == ('{', '}')) != ub:
                    bad = 'use_braces=%s prints %s' % (ub, pair)
                if bad:
                    break
            if bad:
                r.bad(cons, 'optional_paren|%s|%s' % (ub, mode), 'convert_expr_with_optional_paren(use_braces=%s, mode=%s): %s' % (ub, mode, bad), b.loc())
            else:
                r.ok(cons, '%s with body in %s, one group' % ('{ }' if ub else '( )', 'Code' if ub else 'CodeCont'))
    # break-suppressed contexts and self-delimiting expressions are converted as they are
    res = run_function(w, b, {2: context('Code', True), 3: binary, 4: Const(False)})
    cons = {'fn': 'convert_expr_with_optional_paren', 'break_suppressed': True}
    if res and all(isinstance(x[0], Doc) and not [a for a in x[0].flat() if a[0] == 'text'] for x in res):
        r.ok(cons, 'no optional delimiters when breaks are suppressed')
    else:
        r.bad(cons, 'optional_paren|suppressed', 'optional delimiters are added although line breaks are suppressed', b.loc())
    # parenthesize_if_necessary, instantiated by convert_binary (chain path)
    cb = one('convert_binary')
    for mode in ('Markup', 'Code', 'CodeCont', 'Math'):
        res = run_function(w, cb, {2: context(mode, False), 3: Node('parent', 'Binary')},
                           no_inline=lambda tb: tb.short.endswith('is_chainable_binary') or tb.short.endswith('convert_flow_like'))
        cons = {'fn': 'parenthesize_if_necessary (via convert_binary)', 'ctx.mode': mode}
        chain_paths = [x for x in res or [] if isinstance(x[0], Doc) and any(a[0] == 'conv' and a[1].endswith('convert_binary_chain') for a in x[0].flat())]
        if not chain_paths:
            r.bad(cons, 'parenthesize|%s|not-evaluated' % mode, 'the chain path of convert_binary was not reached in the abstract evaluation', cb.loc())
            continue
        bad = None
        for result, events, assumed in chain_paths:
            flat = result.flat()
            lits = [a[1].v for a in flat if a[0] == 'text' and isinstance(a[1], Const)]
            modes = [a[3] for a in flat if a[0] == 'conv']
            if mode == 'CodeCont':
                if lits or modes != ['CodeCont']:
                    bad = 'in continued-code mode the body must be returned unwrapped in the same mode (got literals %s, modes %s)' % (lits, modes)
            else:
                sh = _pair_shape(result)
                if tuple(lits) != ('(', ')') or modes != ['CodeCont'] or not sh[2] or not sh[3]:
                    bad = 'outside continued-code mode the body must be converted in CodeCont inside optional "(" ")" under one group (got literals %s, modes %s)' % (lits, modes)
            if bad:
                break
        if bad:
            r.bad(cons, 'parenthesize|%s' % mode, 'parenthesize_if_necessary with ctx.mode=%s: %s' % (mode, bad), cb.loc())
        else:
            r.ok(cons, 'unwrapped only in CodeCont; otherwise "(" body@CodeCont ")" in one group')
    return r


def r3_token_separation(w):
    """tokens the lexer would fuse stay separated at the flow sites (lib/tokens.py, rules/tokensep.py)"""
    from rules import tokensep
    return tokensep.rule(w, 'C04.R3')


def r4_hash_mode(w):
    """after `#` in math the printer is in code mode (printer side of the mode simulation of C13.R5)"""
    from rules import c13
    r = RuleResult('C04.R4', 'in math mode the child that follows a `#` is converted in Code mode at every site the printer simulation reaches', floor=6)
    for ok, cons, key, why, loc in c13.printer_hash_mode_obligations(w):
        (r.ok(cons, why) if ok else r.bad(cons, key, why, loc))
    return r


def r5_no_token_dropped(w):
    """= C01.R2: a token that is dropped lets its neighbours touch - `$x^#2;n$` without its `;` reads `#2n` (seed C04/5B); a dropped delimiter or
    separator leaves the rest unparsable"""
    from rules import c01
    rs = c01.r2_no_significant_child_dropped(w)
    rs.rule = 'C04.R5'
    for f in rs.findings:
        f.rule = 'C04.R5'
        f.key = f.key.replace('C01.R2|', 'C04.R5|', 1)
    return rs


RULES = [r1_line_comment_discipline, r2_optional_delimiters_paired, r3_token_separation, r4_hash_mode, r5_no_token_dropped]
for _f in RULES:
    _f.needs = ('core',)
MATRIX_RULES = [r2_optional_delimiters_paired]
EXTRA_CONFIGS = ['core-serde']
