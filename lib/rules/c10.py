"""C10 - literal content is preserved exactly (statically decidable clauses)."""
import re
import cfg
import grammar
import kindflow as kf
import sites as sm
from sites import run_function
from kindflow import Agg, Node, Const, Doc, Text, TOP, Top
from mirfacts import callee_path, resolved_id, resolved_path
from paths import BodyView
from prov import strip_casts
from framework import RuleResult, AnchorMissing
from rules import e2, c08, c11
from rules.e2 import last

META = {
    'explanation': 'E2 evaluation of the literal leaves and of the raw converter plus a taint rule on the rendered text: (R1) every literal kind is routed to a leaf '
                   'converter that emits the token\'s own text with no transformer; (R2) raw text is rebuilt child by child - delimiter, language tag and text lines '
                   'as own text, a trimmed part as exactly a space or a hard line - and every path to that loop passes the edge "block raw, or at most one line" '
                   '(multi-line inline raw is copied verbatim); (R3) no string-transforming function is applied to the rendered text between rendering and the '
                   'public return.',
    'decides': 'literal tokens reach the document byte for byte and nothing downstream is allowed to edit them',
    'does_not_decide': 'the interaction of re-indentation with the dedent rule of raw blocks, fence length adequacy',
    'trusted_base': ['grammar tables (typst-syntax 0.13.1)', 'pretty renders text verbatim', 'rustc MIR construction'],
}

LITERAL_LEAVES = ['Str', 'Int', 'Float', 'Numeric', 'Bool', 'Ident', 'MathIdent', 'MathText', 'MathShorthand', 'Label', 'Link', 'Escape', 'Shorthand', 'SmartQuote', 'Text']
WS = {'space', 'hardline', 'line', 'line_', 'softline', 'softline_'}


def r1_literal_leaves(w):
    r = RuleResult('C10.R1', 'literal leaf kinds are emitted from their own token text with no transformer in between', floor=14)
    for ok, cons, key, why in c08.leaf_converter_obligations(w, LITERAL_LEAVES):
        if ok:
            r.ok(cons, why)
        else:
            r.bad(cons, key, why)
    return r


def _leaf_emits_own_text(w, conv_short):
    b = [x for x in w.fn_bodies(w.core) if x.short == conv_short]
    if not b:
        return False
    b = b[0]
    params = {}
    for i in range(1, b.arg_count + 1):
        s = b.locals[i]['ty']['s']
        if s.startswith('&typst_syntax::SyntaxNode') or grammar.ast_type_name(b.locals[i]['ty']) or s.startswith('impl ') or s == 'T':
            params[i] = Node('parent', None)
    res = run_function(w, b, params, converter_pred=lambda b_: False)
    if not res:
        return False
    for result, events, assumed in res:
        ats = [a for a in (result.flat() if isinstance(result, Doc) else []) if a[0] != 'nil']
        if len(ats) != 1 or ats[0][0] != 'text' or not (isinstance(ats[0][1], Text) and ats[0][1].node.tag == 'parent' and all(v in ('into_text',) for v in ats[0][1].via)):
            return False
    return True


def r2_raw_reconstruction(w):
    r = RuleResult('C10.R2', 'raw: delimiter / language / text lines as own text, trimmed parts as space or hard line, multi-line inline raw verbatim', floor=7)
    gs = [g for g in e2.groups(w) if last(g.fn) == 'convert_raw']
    if len(gs) < 4:
        raise AnchorMissing('convert_raw dispatch groups (found %d)' % len(gs))
    leaf_cache = {}
    for g in gs:
        cons = {'converter': 'convert_raw', 'child': e2._item(g.item), 'paths': len(g.paths)}
        if g.kind == 'RawTrimmed':
            want = 'hardline' if g.item.linebreak else 'space'
            def ws_of(o):
                # whitespace made at the site, or the trimmed part handed to a helper that satisfies the Space-leaf contract
                # (hardline iff the token's own text has a line break, else one space)
                made = [m for m in o.made if m in WS]
                for a in o.atoms:
                    if a[0] == 'conv' and isinstance(a[2], Node) and a[2].tag.startswith('child') and e2.space_leaf_ok(w, a[1]):
                        made.append(want)
                return made
            ok = all(ws_of(o) == [want] for o in g.paths)
            if ok:
                r.ok(cons, 'exactly %s' % want)
            else:
                r.bad(cons, 'convert_raw|RawTrimmed%s' % ('+nl' if g.item.linebreak else '-nl'),
                      'convert_raw maps a trimmed part %s a line break to %s, expected exactly %s' % ('with' if g.item.linebreak else 'without',
                                                                                                        sorted({tuple(o.made) for o in g.paths}), want))
            continue
        bad = None
        for o in g.paths:
            convs = [a for a in o.atoms if a[0] == 'conv']
            if len(convs) != 1 or not (isinstance(convs[0][2], Node) and convs[0][2].tag == 'child'):
                bad = 'emits %s' % list(sm.outcome_summary(o))
                break
            c = convs[0][1]
            if c not in leaf_cache:
                leaf_cache[c] = _leaf_emits_own_text(w, c)
            if not leaf_cache[c]:
                bad = 'routes it to %s, which does not emit the token\'s own text untransformed' % last(c)
                break
            if [m for m in o.made if m in WS]:
                bad = 'creates whitespace %s next to it' % o.made
                break
        if bad:
            r.bad(cons, 'convert_raw|%s' % g.kind, 'convert_raw: a %s child %s: raw text / fence / language tag would change' % (g.kind, bad))
        else:
            r.ok(cons, 'own text through a leaf converter')
    # verbatim guard
    bs = [b for b in w.core.find('::convert_raw') if b.def_kind != 'Closure']
    if len(bs) != 1:
        raise AnchorMissing('convert_raw')
    b = bs[0]
    v = BodyView(w, b)
    loops = [h for h in cfg.natural_loops(b) if b.blocks[h]['term']['t'] == 'call' and (callee_path(b.blocks[h]['term']) or '').endswith('Iterator::next')
             and re.match(r'^std::option::Option<&+typst_syntax::SyntaxNode>$', b.locals[b.blocks[h]['term']['dest']['l']]['ty']['s'])]
    cons = {'converter': 'convert_raw', 'guard': 'block() || lines().count() <= 1 on every path to the child loop'}
    if len(loops) != 1:
        r.bad(cons, 'convert_raw|loop', 'expected one loop over the children of the raw node, found %d' % len(loops), b.loc())
        return r
    h = loops[0]
    # edges that establish "block raw" or "at most one line"
    allowed = set()
    for bi, blk in enumerate(b.blocks):
        t = blk['term']
        if t['t'] != 'switch':
            continue
        atom = v.switch_atom(bi)
        for tgt, label in v.switch_edges(bi):
            vals = v.label_values(bi, label)
            if re.search(r"Raw::<'a>::block|ast::\{impl#\d+\}::block", atom) and 'unop:Not' in atom and vals == {False}:
                allowed.add((bi, tgt))
            elif re.search(r"Raw::<'a>::block|ast::\{impl#\d+\}::block", atom) and 'unop:Not' not in atom and vals == {True}:
                allowed.add((bi, tgt))
            elif atom.startswith('binop:Gt(') and '::count' in atom and '::lines' in atom and atom.endswith(',const:1)') and vals == {False}:
                allowed.add((bi, tgt))
            elif atom.startswith('binop:Ge(') and '::count' in atom and '::lines' in atom and atom.endswith(',const:2)') and vals == {False}:
                allowed.add((bi, tgt))
            elif atom.startswith('binop:Le(') and '::count' in atom and '::lines' in atom and atom.endswith(',const:1)') and vals == {True}:
                allowed.add((bi, tgt))
            elif atom.startswith('binop:Lt(') and '::count' in atom and '::lines' in atom and atom.endswith(',const:2)') and vals == {True}:
                allowed.add((bi, tgt))
    # count must be over Raw::lines of the same node
    lines_ok = any((callee_path(t) or '').endswith("Raw::<'a>::lines") for _, t in b.calls())
    reach = _reach_without(b, 0, allowed)
    if allowed and lines_ok and h not in reach:
        r.ok(cons, 'the child loop is reachable only through %d guarding edge(s)' % len(allowed))
    else:
        r.bad(cons, 'convert_raw|verbatim-guard',
              'the child-by-child reconstruction of a raw node can be reached without passing "block raw" or "at most one line": a multi-line inline raw would be '
              're-indented, which changes its text (inline raw has no dedent rule)', b.loc())
    # and the other side returns the node verbatim
    res = run_function(w, b, {3: Node('parent', 'Raw')}, no_inline=lambda tb: False, loop_items=lambda i_, m, f, t: [])
    verb = any(isinstance(x[0], Doc) and any(a[0] == 'conv' and 'verbatim' in a[1] and isinstance(a[2], Node) and a[2].tag == 'parent' for a in x[0].flat()) for x in res or [])
    cons = {'converter': 'convert_raw', 'verbatim_path': verb}
    if verb:
        r.ok(cons, 'the guarded-out case emits the node verbatim')
    else:
        r.bad(cons, 'convert_raw|verbatim-path', 'no path of convert_raw emits the raw node verbatim', b.loc())
    return r


def _reach_without(b, start, removed_edges):
    seen, work = set(), [start]
    while work:
        x = work.pop()
        if x in seen:
            continue
        seen.add(x)
        for s in b.succs(x):
            if b.blocks[s]['cleanup'] or (x, s) in removed_edges:
                continue
            work.append(s)
    return seen


TRANSFORM = re.compile(r'::(trim|trim_start|trim_end|trim_matches|trim_start_matches|trim_end_matches|strip_prefix|strip_suffix|replace|replacen|to_lowercase|to_uppercase|'
                       r'to_ascii_lowercase|to_ascii_uppercase|split_whitespace|truncate|pop|remove|retain|insert|insert_str|drain|replace_range|escape_debug|escape_default|'
                       r'make_ascii_lowercase|make_ascii_uppercase|nfc|nfd|normalize)$')


def r3_no_transformer_downstream(w):
    r = RuleResult('C10.R3', 'no string-transforming function is applied to the rendered text (which embeds the literals) before the public return', floor=1)
    entry = c11.find_render_entry(w)
    # everything the rendered text flows through after Doc::pretty(..).to_string(): the callee that receives it, transitively
    pv = BodyView(w, entry)
    posts = []
    for bi, t in entry.calls():
        rid = resolved_id(t)
        cb = w.bodies.get(rid)
        if cb is None or cb.crate is not w.core:
            continue
        for a in t['args']:
            for o in pv.pv.through(pv.pv.origins_operand(a), c11.VIEW):
                if o[0] == 'call' and (callee_path(pv.pv.call_term(o)) or '').endswith('to_string'):
                    inner = pv.pv.through(pv.pv.origins_operand(pv.pv.call_term(o)['args'][0]), c11.VIEW)
                    if any(c11._is_pretty_call(pv.pv, x) for x in inner):
                        posts.append(cb)
    n = 0
    seen = set()
    for cb in posts:
        for fid in sorted(w.reachable([cb.id])):
            fb = w.bodies.get(fid)
            if fb is None or fb.crate is not w.core or fid in seen:
                continue
            seen.add(fid)
            # calls, and transformers handed on as function values (`.map(str::trim_end)`)
            uses = [(t['span'], resolved_path(t) or callee_path(t) or '') for bi, t in fb.calls()]
            from world import iter_operands_stmt
            for blk in fb.blocks:
                if blk['cleanup']:
                    continue
                ops = [o for st in blk['stmts'] for o in iter_operands_stmt(st)] + (blk['term'].get('args', []) if blk['term']['t'] == 'call' else [])
                for o in ops:
                    if o.get('o') == 'const' and 'fn' in o:
                        uses.append((blk['term']['span'], o['fn']['def']['path']))
            owner = fb
            while owner.def_kind == 'Closure' and owner.parent in w.bodies:
                owner = w.bodies[owner.parent]
            for span, p in uses:
                if not TRANSFORM.search(p):
                    continue
                n += 1
                m = p.rsplit('::', 1)[-1]
                m = re.sub(r'::<.*$', '', m)
                if m in ('trim_end_matches', 'trim_right', 'trim_right_matches'):
                    m = 'trim_end'          # the same transformation under another spelling
                # keyed by role, not by name or by the closure the call happens to sit in: the same defect under any spelling of the post-processor
                who = 'post-processor' if owner.id == cb.id else owner.short
                r.bad({'fn': fb.short, 'callee': p}, '%s|%s' % (who, m),
                      '`%s` is applied in %s to the rendered text, which embeds string literals and raw text: blanks at the end of a line inside a multi-line string or '
                      'raw block are removed (`"a   \\nb"` loses three blanks)' % (p, fb.short), fb.loc(span))
    # direct transformers in the entry itself
    for bi, t in entry.calls():
        p = resolved_path(t) or callee_path(t) or ''
        if TRANSFORM.search(p):
            n += 1
            r.bad({'fn': entry.short, 'callee': p}, '%s|%s' % (entry.short, p.rsplit('::', 1)[-1]), '`%s` is applied to the rendered text in %s' % (p, entry.short), entry.loc(t['span']))
    r.ok({'render_entry': entry.short, 'post_processing': [last(x.short) for x in posts], 'transformers_found': n}, 'taint scan of the post-rendering data flow')
    return r


def r4_literal_after_hash_keeps_parens(w):
    """= the paren-removal clauses of C01.R4: a word-like literal (number, bool, none, auto) whose redundant parentheses are removed directly after a
    `#` fuses with the text that follows it (`$#(2)x^2$` -> `#2x^2`: the number becomes another literal, seed C10/4B; F15)"""
    from rules import c01
    rs = c01.r4_order_and_disambiguation(w)
    r = RuleResult('C10.R4', 'the parentheses of a word-like literal directly after `#` are kept (the literal would fuse with the following text)', floor=8)
    for inst in rs.instances:
        c = inst.get('construct', {})
        if 'can_omit' in str(c) or 'embedded' in str(c) or 'after_hash' in str(c) or 'hash' in str(c).lower():
            r.instances.append(inst)
    for f in rs.findings:
        if '|can_omit|' in f.key or 'hash' in f.key:
            f.rule = 'C10.R4'
            f.key = f.key.replace('C01.R4|', 'C10.R4|', 1)
            r.findings.append(f)
    return r


RULES = [r1_literal_leaves, r2_raw_reconstruction, r3_no_transformer_downstream, r4_literal_after_hash_keeps_parens]
for _f in RULES:
    _f.needs = ('core',)
MATRIX_RULES = [r1_literal_leaves, r3_no_transformer_downstream]
EXTRA_CONFIGS = ['core-serde']
