"""C01 - formatting preserves the syntax tree (the clauses that are visible in the shape of the code)."""
import re
import grammar
import kindflow as kf
import sites as sm
from sites import run_function, context, atoms_of
from kindflow import Agg, Node, Const, Doc, Text, TOP
from prov import Prov, strip_casts
from mirfacts import callee_path, resolved_id, resolved_path
from paths import BodyView
from tyutil import adt_lookup
from framework import RuleResult, AnchorMissing
from rules import e2, c19
from rules.e2 import COMMENT, last

META = {
    'explanation': 'Kind-directed abstract evaluation (E2: constant propagation over the finite lattice of SyntaxKinds on the MIR of /repo, no execution) '
                   'of every dispatcher and every loop in which a converter walks the children of its node, once per child kind the pinned Typst grammar '
                   'allows: (R1) each variant of Expr/Pattern/Arg/Param/ArrayItem/DictItem/DestructuringItem is routed to the converter of its own payload '
                   'type with that payload, or to the literal spelling of its kind; (R2) no significant child kind is dropped on any evaluated path '
                   '(regenerated delimiters, layout-only droppables and loop-carried state machines are explicit tables with one line of Typst semantics '
                   'each); (R3) every literal emitted for a token kind equals the kind\'s fixed spelling and every own-text emission passes the token\'s '
                   'text untransformed; (R4) the only order-changing operations on nodes are the confirmed three, the flags whose constant absence would '
                   're-classify a construct are not constant, parentheses are removed only around the allowed kinds and never with comments inside, '
                   'optional parentheses are skipped only for self-delimiting expressions, and the table layout reorders arguments only under its guard.',
    'decides': 'R1-R4 on every dispatch site, for every child kind of the pinned grammar',
    'does_not_decide': 'that the conditions under which separators, parentheses and line breaks are chosen are right beyond the listed truth tables (mode tracking, '
                       'token-boundary effects such as `#(1)pt` -> `#1pt`, list-item nesting by indentation); the round trip over all inputs and widths',
    'trusted_base': ['grammar tables transcribed from typst-syntax 0.13.1 (tables/, lib/grammar.py)', 'exemption tables in lib/rules/e2.py (one reason per entry)',
                     'rustc MIR construction', 'pretty renders text verbatim'],
}

DISPATCHERS = ['Expr', 'Pattern', 'Arg', 'Param', 'ArrayItem', 'DictItem', 'DestructuringItem']
LEAF_OK = re.compile(r'convert_trivia(_untyped)?$|convert_verbatim(_untyped)?$')


def _find_dispatcher(w, enum_name):
    """the local function whose parameter is the enum and whose body switches on its discriminant"""
    out = []
    for b in w.fn_bodies(w.core):
        if b.def_kind == 'Closure' or not b.locals[0]['ty']['s'].startswith('pretty::DocBuilder'):
            continue
        for i in range(1, b.arg_count + 1):
            if grammar.ast_type_name(b.locals[i]['ty']) == enum_name:
                # switches on the discriminant of that parameter?
                for blk in b.blocks:
                    t = blk['term']
                    if t['t'] == 'switch' and len(t['targets']) >= 1:
                        for st in blk['stmts']:
                            if st['s'] == 'assign' and st['rv']['r'] == 'discr' and st['rv']['p']['l'] == i and not st['rv']['p']['proj']:
                                out.append((b, i))
    uniq = {}
    for b, i in out:
        uniq[b.id] = (b, i)
    return list(uniq.values())


def r1_total_dispatch(w):
    r = RuleResult('C01.R1', 'every variant of the seven AST enums is routed to the converter of its own payload (or its literal spelling)', floor=75)
    g = grammar.load()
    found = 0
    for en in DISPATCHERS:
        ds = _find_dispatcher(w, en)
        # the dispatcher proper: the one with the most switch targets
        if not ds:
            raise AnchorMissing('dispatcher over %s' % en)
        a = adt_lookup(w, 'typst_syntax::ast::' + en)
        if a is None:
            raise AnchorMissing('ADT table for %s' % en)
        inv = {}
        for k, path in g['variant_of'][en].items():
            inv.setdefault(path[0], []).append(k)
        if en == 'Expr':
            inv.setdefault('Space', ['Space'])
        for (b, i) in ds:
            found += 1
            for var in a['variants']:
                v = var['name']
                kinds = inv.get(v)
                if not kinds:
                    continue
                k = kinds[0]
                # payload value
                ptype = g['enum_payloads'][en][v]
                payload = Node('parent', k)
                if ptype in g['variant_of'] and k in g['variant_of'][ptype]:
                    payload = kf.Interp(w).typed(ptype, Node('parent', k))
                val = Agg('typst_syntax::ast::' + en, v, [payload])
                res = run_function(w, b, {i: val})
                cons = {'dispatcher': last(b.short), 'variant': '%s::%s' % (en, v)}
                if res is None or not res:
                    r.bad(cons, '%s|%s|%s|not-evaluated' % (last(b.short), en, v), 'dispatcher %s could not be evaluated for %s::%s' % (b.short, en, v), b.loc())
                    continue
                bad = None
                for (result, events, assumed) in res:
                    ats = [x for x in atoms_of(result)] if isinstance(result, (Doc, Agg)) else []
                    ats = [x for x in ats if x[0] not in ('nil',)]
                    if len(ats) != 1:
                        bad = 'emits %s' % [sm.summarise_atom(x, Node('child', None)) for x in ats]
                        break
                    x = ats[0]
                    if x[0] == 'conv':
                        n = x[2]
                        if not (isinstance(n, Node) and n.tag == 'parent' and n.kind == k):
                            bad = 'passes another node to %s' % last(x[1])
                            break
                        if LEAF_OK.search(x[1]):
                            continue
                        tb = [tb for tb in w.fn_bodies(w.core) if tb.short == x[1]]
                        tnames = [grammar.ast_type_name(tb[0].locals[j]['ty']) for j in range(1, tb[0].arg_count + 1)] if tb else []
                        tnames = [t for t in tnames if t]
                        want = ptype
                        if tnames and (want in tnames or (want in g['kinds_of'] and any(k in g['kinds_of'].get(t, []) for t in tnames))):
                            continue
                        if not tnames and tb and any(tb[0].locals[j]['ty']['s'].startswith('&typst_syntax::SyntaxNode') for j in range(1, tb[0].arg_count + 1)):
                            continue     # untyped converter: receives the node itself
                        if en in tnames:
                            continue     # the whole enum value is handed on to a function of the same enum (a guard in front of the dispatcher, judged itself)
                        bad = 'routes to %s whose node parameter is %s, not %s' % (last(x[1]), tnames, want)
                        break
                    elif x[0] == 'text':
                        lit = x[1]
                        if isinstance(lit, Const) and lit.v == g['spelling'].get(k):
                            continue
                        if isinstance(lit, Text) and lit.node.tag == 'parent' and not lit.via:
                            continue
                        bad = 'emits text %r, the fixed spelling of %s is %r' % (lit, k, g['spelling'].get(k))
                        break
                    else:
                        bad = 'emits %s' % (x,)
                        break
                if bad:
                    r.bad(cons, '%s|%s|%s' % (last(b.short), en, v),
                          '%s: variant %s::%s (kind %s) %s: the construct would be converted as something else or respelled' % (last(b.short), en, v, k, bad), b.loc())
                else:
                    r.ok(cons, 'routed to its own converter / spelling')
    if found < 7:
        raise AnchorMissing('dispatchers (found %d of 7)' % found)
    return r


def r2_no_significant_child_dropped(w):
    r = RuleResult('C01.R2', 'no significant child kind is dropped at any dispatch loop (regenerated / layout-only / stateful kinds by table)', floor=900)
    g = grammar.load()
    gs = e2.groups(w)
    em = e2.emitting_loops(gs)
    pools = {}
    for (fn, parent, loop), lg in sorted(em.items()):
        for grp in lg:
            k = grp.kind
            if k in COMMENT or k in ('Space', 'Parbreak', 'RawTrimmed'):
                continue      # whitespace-class tokens: C08 (markup), C09 (math) and C10 (raw) decide what they map to
            cons = {'converter': last(fn), 'parent': parent, 'loop': '%s:%d' % (last(loop[0]), loop[1]), 'child': e2._item(grp.item), 'paths': len(grp.paths)}
            emits = [grp.emits_child(o) or bool(_spelling_lits(g, grp, o)) for o in grp.paths]
            if all(emits):
                r.ok(cons, 'emitted on every path')
                continue
            regen = e2.regenerated(grp)
            if regen is not None:
                pool = pools.setdefault(fn, e2.const_pool(w, fn))
                sibling_lits = {l for g2 in lg for o in g2.paths for l in g2.literal(o)}
                if regen in pool or repr(regen) in sibling_lits:
                    r.ok(cons, 'regenerated from the constant %r' % regen)
                else:
                    r.bad(cons, '%s|%s|%s|regen' % (last(fn), parent, k),
                          '%s drops the %s token of a %s node and the literal %r that should re-create it is not among the constants of the converter / stylists'
                          % (last(fn), k, parent, regen))
                continue
            why = e2.droppable(grp, w)
            if why:
                if any(emits) or 'flattening' in why or 'chain' in why or 'empty' in why or 'statements' in why:
                    r.ok(cons, 'droppable: ' + why)
                    continue
            st = e2.stateful(grp)
            if st and any(emits):
                r.ok(cons, 'stateful site (%s): emitted on %d of %d paths' % (st, sum(emits), len(emits)))
                continue
            bad = [o for o, e in zip(grp.paths, emits) if not e]
            r.bad(cons, '%s|%s|%s|%s' % (last(fn), parent, last(loop[0]), k),
                  'a %s child of a %s node is dropped by %s (loop in %s) on %d of %d evaluated paths and no table entry explains it: a token or construct that evaluation can '
                  'see would disappear (last branch assumptions %s)'
                  % (k, parent, last(fn), last(loop[0]), len(bad), len(grp.paths), [((a[3] or a[0]).rsplit('::', 1)[-1], a[4]) for a in bad[0].assumed[-3:] if len(a) > 4]))
    # children may be removed only where the per-kind rules can see it: no element-dropping adaptor in front of a loop over syntax nodes
    for ok, cons, key, why, loc in e2.filter_obligations(w):
        (r.ok(cons, why) if ok else r.bad(cons, key, why, loc))
    # the two parts of an Args node are converted together (the ground on which the filters at the closing parenthesis are confirmed; found F21)
    for ok, cons, key, why, loc in e2.args_pairing_obligations(w):
        (r.ok(cons, why) if ok else r.bad(cons, key, why, loc))
    return r


def _spelling_lits(g, grp, o):
    sp = g['spelling'].get(grp.kind)
    lits = grp.literal(o)
    return [l for l in lits if sp is not None and l == repr(sp)]


ALT_SPELLING = {'In': {'in', 'not in'}}


def r3_spelling(w):
    r = RuleResult('C01.R3', 'literals emitted for token kinds equal the fixed spelling; own-text emissions pass the token text untransformed', floor=150)
    g = grammar.load()
    gs = e2.groups(w)
    for grp in gs:
        k = grp.kind
        sp = g['spelling'].get(k)
        for o in grp.paths:
            for a in o.atoms:
                if a[0] != 'text':
                    continue
                x = a[1]
                cons = {'converter': last(grp.fn), 'parent': grp.parent, 'child': k}
                if isinstance(x, Text):
                    if x.node.tag == grp.item.tag and x.node.kind == k:
                        if x.via and any(v not in ('into_text', 'get') for v in x.via):
                            r.bad(dict(cons, via=list(x.via)), '%s|%s|%s|transformed' % (last(grp.fn), grp.parent, k),
                                  '%s emits the text of a %s token through %s: the token would be respelled' % (last(grp.fn), k, '>'.join(x.via)))
                        else:
                            r.ok(dict(cons, emits='own text'), 'verbatim')
                    continue
                if isinstance(x, Const) and isinstance(x.v, str):
                    if sp is None:
                        continue       # kinds without a fixed spelling: literals here are separators / delimiters of the layout
                    if k in e2.REGENERATED.get(last(grp.fn), {}):
                        continue
                    lit_atoms_for_child = _is_spelling_position(grp, o, a)
                    if not lit_atoms_for_child:
                        continue
                    if x.v == sp or x.v in ALT_SPELLING.get(k, ()):
                        r.ok(dict(cons, literal=x.v), 'fixed spelling')
                    else:
                        r.bad(dict(cons, literal=x.v), '%s|%s|%s|spelling' % (last(grp.fn), grp.parent, k),
                              '%s emits the literal %r for a %s token whose spelling is %r' % (last(grp.fn), x.v, k, sp))
                elif not isinstance(x, (Text, Const)) and sp is not None and not grp.emits_child(o) and len(o.atoms) == 1:
                    r.bad(dict(cons, literal='?'), '%s|%s|%s|unknown-spelling' % (last(grp.fn), grp.parent, k),
                          '%s emits a text of unknown provenance for a %s token (fixed spelling %r): the operator/keyword could be respelled' % (last(grp.fn), k, sp))
    return r


def _is_spelling_position(grp, o, atom):
    """the literal stands for the child itself when the path emits no other representation of the child"""
    if grp.emits_child(o):
        return False
    lits = [a for a in o.atoms if a[0] == 'text' and isinstance(a[1], Const) and a[1].v not in (' ',)]
    return len(lits) == 1 and lits[0] is atom


# ------------------------------------------------------------------------------------------------- R4
LITERAL_KINDS = ['None', 'Auto', 'Bool', 'Int', 'Float', 'Numeric', 'Str']
CAN_OMIT_ALLOWED = set(LITERAL_KINDS) | {'Array', 'Dict', 'Destructuring', 'CodeBlock', 'ContentBlock'}
NO_PAREN_NEEDED_SAFE = {'Parenthesized', 'Code', 'Content', 'FuncCall', 'Array', 'Dict', 'Conditional', 'While', 'For', 'Contextual', 'Closure', 'Raw'}


def _liststyle_fields(w):
    a = None
    for c in w.crates.values():
        for x in c.adts.values():
            if x['id'].endswith('layout::list::ListStyle'):
                a = x
    if a is None:
        raise AnchorMissing('ListStyle')
    return a['id'], [f['name'] for f in a['variants'][0]['fields']]


WORDLIKE = ['Int', 'Float', 'Numeric', 'None', 'Auto', 'Bool']


def _style_args(w, b, **params):
    """abstract ListStyle values handed to print_doc on every path of converter b"""
    captured = []
    sid, fields = _liststyle_fields(w)

    def no_inline(tb):
        return tb.short.endswith('::print_doc') or tb.short.endswith('has_comment_children') or 'get_fold_style' in tb.short or tb.short.startswith('attr::')
    enter = params.pop('enter', ())
    ip = kf.Interp(w, max_depth=12, max_paths=3000, max_steps=150000,
                   converter_pred=(lambda tb: kf.default_converter_pred(tb) and not tb.short.endswith(tuple(enter))) if enter else None)
    ip.no_inline = no_inline
    ip.dedupe_loops = False       # paths that differ only in values computed before a loop must all reach print_doc
    ip.accessor_model = params.pop('accessor_model', None)
    orig_call = ip.call

    def call(m, f, t):
        c = t.get('callee')
        if c and (c['def']['path'] or '').endswith('::print_doc'):
            args = [ip.eval_operand(m, f, a) for a in t['args']]
            for a in args:
                if isinstance(a, Agg) and a.adt == sid:
                    captured.append(dict(zip(fields, a.fields)))
        return orig_call(m, f, t)
    ip.call = call
    ip.loop_items_cb = lambda i_, m, f, t: []
    m = kf.Machine()
    cells = {i: kf.Cell('p%d' % i) for i in range(1, b.arg_count + 1)}
    for i, v in params.get('values', {}).items():
        cells[i].val = v
    m.frames.append(kf.Frame(b, cells))
    try:
        ip.run(m)
    except kf.PathLimit:
        return None
    return captured


def r4_order_and_disambiguation(w):
    r = RuleResult('C01.R4', 'who-may-reorder; disambiguation flags not constant; paren removal / optional-paren truth tables; table reorder guard', floor=40)
    g = grammar.load()
    core = w.core
    # (a) who-may-reorder (shared with C19.R3)
    r19 = c19.r3_nothing_else_depends_on_flag(w)
    for inst in r19.instances:
        if 'op' in inst['construct']:
            r.instances.append(inst)
    for f in r19.findings:
        if '|reorder|' in f.key:
            r.findings.append(f)
    # (b) flags
    def conv(name):
        bs = [b for b in core.find('::' + name) if b.def_kind != 'Closure']
        if len(bs) != 1:
            raise AnchorMissing(name)
        return bs[0]
    def vals(styles, field):
        return [s[field] for s in styles]
    checks = [
        ('convert_array', 'Array', 'add_trailing_sep_single', lambda vs: any(not (isinstance(v, Const) and v.v is False) for v in vs),
         'a one-element array must keep its trailing comma (`(1,)` is an array, `(1)` is not)'),
        ('convert_destructuring', 'Destructuring', 'add_trailing_sep_single', lambda vs: any(not (isinstance(v, Const) and v.v is False) for v in vs),
         'a one-pattern destructuring must keep its trailing comma'),
        ('convert_params', 'Params', 'omit_delim_single', lambda vs: not all(isinstance(v, Const) and v.v is True for v in vs),
         'parameter parentheses may be omitted only for a single simple parameter'),
        ('convert_parenthesized_impl', 'Parenthesized', 'omit_delim_flat', lambda vs: not all(isinstance(v, Const) and v.v is True for v in vs),
         'parentheses may be removed only conditionally'),
    ]
    for (name, kind, field, pred, why) in checks:
        b = conv(name)
        i = [j for j in range(1, b.arg_count + 1) if grammar.ast_type_name(b.locals[j]['ty'])][0]
        styles = _style_args(w, b, values={i: Node('parent', kind)})
        cons = {'converter': name, 'flag': field, 'values': sorted({repr(v) for v in vals(styles or [], field)})}
        if not styles:
            r.bad(cons, '%s|%s|not-evaluated' % (name, field), '%s: no ListStyle reached print_doc in the abstract evaluation' % name, b.loc())
        elif pred(vals(styles, field)):
            r.ok(cons, why)
        else:
            r.bad(cons, '%s|%s|constant' % (name, field), '%s passes the constant %s for ListStyle.%s: %s' % (name, cons['values'], field, why), b.loc())
    # dict delimiter
    b = conv('convert_dict')
    i = [j for j in range(1, b.arg_count + 1) if grammar.ast_type_name(b.locals[j]['ty'])][0]
    styles = _style_args(w, b, values={i: Node('parent', 'Dict')})
    opens = set()
    for s in styles or []:
        d = s['delim']
        if isinstance(d, Agg) and d.fields and isinstance(d.fields[0], Const):
            opens.add(d.fields[0].v)
        else:
            opens.add('?')
    cons = {'converter': 'convert_dict', 'flag': 'delim.0', 'values': sorted(opens)}
    if '(:' in opens and opens <= {'(:', '('}:
        r.ok(cons, 'an empty / all-spread dict keeps `(:`')
    else:
        r.bad(cons, 'convert_dict|delim', 'convert_dict opens with %s: an empty or all-spread dict must open with `(:` (otherwise it reads as an array / parenthesised)' % sorted(opens), b.loc())
    # (c) parentheses are removed only around the allowed kinds and never with comments inside
    b = conv('convert_parenthesized_impl')
    i = [j for j in range(1, b.arg_count + 1) if grammar.ast_type_name(b.locals[j]['ty'])][0]
    n_k = 0
    for k in sorted(g['kinds_of']['Expr']):
        def am(interp, path, args, k=k):
            if path.endswith("Parenthesized::<'a>::expr"):
                return interp.typed('Expr', Node('inner', k))
            return None
        styles = _style_args(w, b, values={i: Node('parent', 'Parenthesized')}, accessor_model=am)
        if not styles:
            continue
        n_k += 1
        vs = vals(styles, 'omit_delim_flat')
        possible = any(not (isinstance(v, Const) and v.v is False) for v in vs)
        cons = {'converter': 'convert_parenthesized_impl', 'inner_kind': k, 'omit_delim_flat': sorted({repr(v) for v in vs})}
        if possible and k not in CAN_OMIT_ALLOWED:
            r.bad(cons, 'can_omit|%s' % k,
                  'parentheses around a %s may be removed (omit_delim_flat can be %s): only literals, arrays, dicts, destructurings and blocks may lose their parentheses '
                  '(an identifier in parentheses is a dict key expression, a binary inside changes grouping)' % (k, cons['omit_delim_flat']), b.loc())
        else:
            r.ok(cons, 'removable' if possible else 'kept')
    if n_k < 40:
        r.bad({'converter': 'convert_parenthesized_impl'}, 'can_omit|not-evaluated', 'paren-removal table could be evaluated for %d kinds only' % n_k, b.loc())
    # (c2) directly after a `#` in markup or math (`#(1)pt`, `$#(1)x$`) a word-like literal keeps its parentheses: the bare token would fuse with text
    #      that follows.  Two stages: (B) what context do the sites that see a `#` hand to the conversion of a Parenthesized child that follows it;
    #      (A) with exactly that context, can the parentheses be omitted.
    from sites import evaluate_sequence
    se = sm.SiteEvaluator(w)
    hash_ctx = {}
    for cb, ci, kinds in se.converters():
        if not se.has_node_loop(cb):
            continue
        for K in kinds:
            if 'Hash' not in grammar.CHILDREN.get(K, []) or 'Parenthesized' not in grammar.CHILDREN.get(K, []):
                continue
            res = evaluate_sequence(w, cb, ci, K, [Node('child', 'Hash'), Node('child', 'Parenthesized')], ctx=context('Markup' if K == 'Markup' else 'Math', None), with_wholes=True, respect_kinds=True,
                                    no_inline=lambda tb, cb=cb: (tb.short.endswith('::print_doc') or tb.short.endswith('collect_markup_repr') or 'get_fold_style' in tb.short
                                                                 or tb.short.startswith('attr::') or tb.short.endswith('has_comment_children')) and tb.id != cb.id)
            for item in res or []:
                loop, steps = item[0], item[1]
                if loop is None or len(steps) < 2:
                    continue
                for e in steps[1]:
                    if e[0] == 'convert' and isinstance(e[2], Node) and e[2].tag == 'child' and e[2].kind == 'Parenthesized':
                        hash_ctx.setdefault((e[1], e[3], e[4], e[5] if len(e) > 5 else ()), set()).add('%s(%s)' % (last(cb.short), K))
    if len(hash_ctx) < 3:
        r.bad({'hash_sites': sorted(map(str, hash_ctx))}, 'can_omit|embedded|sites', 'expected the markup, math, flow and list sites to convert a Parenthesized child after `#`, found %d contexts' % len(hash_ctx))
    by_short = {x.short: x for x in w.fn_bodies(core)}
    ENTER = ('::convert_expr', '::convert_expr_impl', '::convert_parenthesized', '::convert_parenthesized_after_hash', '::convert_parenthesized_inner', '::convert_parenthesized_impl',
             '::convert_pattern', '::convert_arg', '::convert_array_item', '::convert_dict_item')
    for (fn, mode, supp, extra), where in sorted(hash_ctx.items(), key=str):
        fb = by_short.get(fn)
        if fb is None:
            continue
        pi = [j for j in range(1, fb.arg_count + 1) if grammar.ast_type_name(fb.locals[j]['ty'])]
        ic = [j for j in range(1, fb.arg_count + 1) if fb.locals[j]['ty']['s'].endswith('context::Context')]
        if not pi or not ic:
            continue
        tname = grammar.ast_type_name(fb.locals[pi[0]]['ty'])
        for k in WORDLIKE:
            def am2(interp, path, args, k=k):
                if path.endswith("Parenthesized::<'a>::expr"):
                    return interp.typed('Expr', Node('inner', k))
                if path.endswith("Parenthesized::<'a>::pattern"):
                    return interp.typed('Pattern', Node('inner', k))
                return None
            payload = kf.Interp(w).typed(tname, Node('parent', 'Parenthesized')) if tname in g['variant_of'] else Node('parent', 'Parenthesized')
            ctxv = Agg('typstyle_core::pretty::context::Context', None,
                       [Agg('typstyle_core::pretty::context::Mode', mode, []) if mode else TOP, TOP if supp is None else Const(supp)] + [TOP if x is None else Const(x) for x in extra])
            styles = _style_args(w, fb, values={pi[0]: payload, ic[0]: ctxv}, accessor_model=am2, enter=ENTER)
            vs = vals(styles or [], 'omit_delim_flat')
            cons = {'entry': last(fn), 'context_after_hash': {'mode': mode, 'extra_flags': list(extra)}, 'sites': sorted(where), 'inner_kind': k, 'omit_delim_flat': sorted({repr(v) for v in vs})}
            key = 'can_omit|embedded|%s|%s|%s' % (last(fn), mode, k)
            if not styles:
                r.bad(cons, key + '|not-evaluated', 'paren removal after `#` could not be evaluated for a %s handed to %s' % (k, last(fn)), fb.loc())
            elif any(not (isinstance(v, Const) and v.v is False) for v in vs):
                r.bad(cons, key,
                      'the parentheses around a %s literal that directly follows `#` (sites: %s; converted by %s with mode %s, flags %s) can be removed: text that follows fuses with the '
                      'bare token (`#(1)pt` -> `#1pt` is one Numeric, `#(none)x` -> `#nonex` an identifier)' % (k, ', '.join(sorted(where)), last(fn), mode, list(extra)), fb.loc())
            else:
                r.ok(cons, 'kept after `#`')
    # comments inside: omit flag must be false when has_comment_children is true
    def am_lit(interp, path, args):
        if path.endswith("Parenthesized::<'a>::expr"):
            return interp.typed('Expr', Node('inner', 'Int'))
        return None
    styles = _style_with_comment(w, b, i, am_lit)
    cons = {'converter': 'convert_parenthesized_impl', 'has_comment_children': True, 'omit_delim_flat': sorted({repr(v) for v in styles})}
    if styles and all(isinstance(v, Const) and v.v is False for v in styles):
        r.ok(cons, 'parentheses with comments inside are kept')
    else:
        r.bad(cons, 'can_omit|comments', 'parentheses may be removed although the Parenthesized node has comment children (%s): the comment would lose its place or be dropped'
              % cons['omit_delim_flat'], b.loc())
    # (d) optional parentheses are skipped only for self-delimiting expressions
    ipn = [x for x in core.find('::is_paren_needed')]
    if len(ipn) != 1:
        raise AnchorMissing('is_paren_needed')
    a = adt_lookup(w, 'typst_syntax::ast::Expr')
    for var in a['variants']:
        v = var['name']
        res = run_function(w, ipn[0], {1: Agg('typst_syntax::ast::Expr', v, [Node('parent', None)])})
        outs = sorted({repr(x[0]) for x in res or []})
        cons = {'fn': 'is_paren_needed', 'expr': v, 'result': outs}
        not_needed = any(not (isinstance(x[0], Const) and x[0].v is True) for x in res or [(TOP,)])
        if not_needed and v not in NO_PAREN_NEEDED_SAFE:
            r.bad(cons, 'is_paren_needed|%s' % v,
                  'is_paren_needed(%s) can be false: a multi-line %s outside parentheses/braces ends the statement at its first line break' % (v, v), ipn[0].loc())
        else:
            r.ok(cons, 'needs optional parentheses' if not not_needed else 'self-delimiting')
    # (e) the table layout prints named arguments first: sound only when no named argument follows a positional one
    tf = [x for x in core.find('::is_formatable') if x.def_kind != 'Closure']
    if len(tf) != 1:
        raise AnchorMissing('table::is_formatable')
    ok, why = _table_guard(w, tf[0])
    cons = {'fn': 'is_formatable', 'guard': 'named argument after a positional one => not formatable'}
    if ok:
        r.ok(cons, why)
    else:
        r.bad(cons, 'table|named-after-positional', 'the two-pass table layout (named arguments first, then the cells) is applied although %s: arguments would be reordered' % why, tf[0].loc())
    return r


def _style_with_comment(w, b, i, am):
    sid, fields = _liststyle_fields(w)
    captured = []
    ip = kf.Interp(w, max_depth=12, max_paths=3000, max_steps=150000)
    ip.dedupe_loops = False
    ip.accessor_model = am
    ip.no_inline = lambda tb: tb.short.endswith('::print_doc') or 'get_fold_style' in tb.short or tb.short.startswith('attr::')
    orig_call = ip.call
    orig_model = ip.model_extern

    def model(m, f, path, rpath, args, t):
        if path.endswith('Iterator::any') or path.endswith('Iterator>::any'):
            return Const(True)       # has_comment_children(..) == true
        return orig_model(m, f, path, rpath, args, t)
    ip.model_extern = model

    def call(m, f, t):
        c = t.get('callee')
        if c and (c['def']['path'] or '').endswith('::print_doc'):
            for a in [ip.eval_operand(m, f, x) for x in t['args']]:
                if isinstance(a, Agg) and a.adt == sid:
                    captured.append(dict(zip(fields, a.fields))['omit_delim_flat'])
        return orig_call(m, f, t)
    ip.call = call
    ip.loop_items_cb = lambda i_, m, f, t: []
    m = kf.Machine()
    cells = {j: kf.Cell('p%d' % j) for j in range(1, b.arg_count + 1)}
    cells[i].val = Node('parent', 'Parenthesized')
    m.frames.append(kf.Frame(b, cells))
    try:
        ip.run(m)
    except kf.PathLimit:
        return []
    return captured


def _table_guard(w, b):
    """in is_formatable: on the Arg::Named arm, when a positional argument was already seen, the function returns false"""
    v = BodyView(w, b)
    # find `return false` blocks guarded by (discr(arg)==Named) and (discr(pos_arg_index)==Some)
    for bi, blk in enumerate(b.blocks):
        if blk['cleanup']:
            continue
        for s in blk['stmts']:
            if s['s'] == 'assign' and s['p']['l'] == 0 and s['rv']['r'] == 'use' and s['rv']['op'].get('int') == 0:
                gs = v.guards(bi)
                named = any(vals == {'Named'} for atom, vals, _ in gs)
                seen_pos = any(vals == {'Some'} and 'is_some' not in atom for atom, vals, _ in gs) or any(vals == {True} and 'is_some' in atom for atom, vals, _ in gs)
                if named and seen_pos:
                    return True, 'a named argument after a positional one makes the call non-formatable'
    return False, 'is_formatable does not refuse calls with a named argument after a positional one'


def r5_statement_boundaries(w):
    """= C04.R2: optional delimiters are paired and the body is converted in the mode the pair establishes.  Inside optional braces a
    line break ends a statement; a body converted there in continued-code mode is split into several statements (tree change)."""
    from rules import c04
    rs = c04.r2_optional_delimiters_paired(w)
    rs.rule = rs.rule.replace('C04.R2', 'C01.R5')
    for f in rs.findings:
        f.rule = rs.rule
    return rs


def r6_token_separation(w):
    """= C04.R3: tokens that the lexer would fuse stay separated at the flow sites (a fused pair is another token: merged / re-nested constructs)"""
    from rules import tokensep
    return tokensep.rule(w, 'C01.R6')


def r7_hash_mode(w):
    """= C04.R4: after `#` in math the printer is in code mode (a code call printed by the math converters loses / moves its arguments)"""
    from rules import c13
    r = RuleResult('C01.R7', 'in math mode the child that follows a `#` is converted in Code mode at every site the printer simulation reaches', floor=6)
    for ok, cons, key, why, loc in c13.printer_hash_mode_obligations(w):
        (r.ok(cons, why) if ok else r.bad(cons, key, why, loc))
    return r


def _shared(rs, new_id):
    old = rs.rule
    rs.rule = new_id
    for f in rs.findings:
        f.rule = new_id
        f.key = f.key.replace(old + '|', new_id + '|', 1)
    return rs


def r8_comments_swallow_nothing(w):
    """= C04.R1: a line comment that is not followed by a hard break swallows the tokens after it - they disappear from the tree"""
    from rules import c04
    return _shared(c04.r1_line_comment_discipline(w), 'C01.R8')


def r9_significant_whitespace(w):
    """= C09.R1 and C08.R1: in math and in markup a Space is not layout - juxtaposed atoms (`a b` -> `ab`) and prose pieces merge into other tokens,
    a Space turned into a line break (or the reverse) changes paragraph and item structure"""
    from rules import c08, c09
    return [_shared(c09.r1_math_space_mapping(w), 'C01.R9a'), _shared(c08.r1_no_soft_breaks_between_prose(w), 'C01.R9b')]


def r10_item_nesting(w):
    """the printer side of C13.R6: Typst derives the nesting of list / enum / term items from indentation, so the body of an item has to be
    printed inside (at least) one `nest(unit)` - otherwise continuation lines and nested items leave the item"""
    from rules import c13
    r = RuleResult('C01.R10', 'the converters of ListItem / EnumItem / TermItem put the conversion of the body inside a nest(unit)', floor=3)
    nests = c13._printer_item_nests(w)
    for K in c13.ITEM_KINDS:
        cons = {'item': K, 'nest_wrappers_around_body': nests.get(K)}
        if nests.get(K) is None:
            r.bad(cons, 'item-nest|%s|not-evaluated' % K, 'the conversion of a %s could not be evaluated' % K)
        elif nests[K] >= 1:
            r.ok(cons, 'the body is indented %d unit(s) below the marker' % nests[K])
        else:
            r.bad(cons, 'item-nest|%s' % K, 'the body of a %s is not printed inside a nest(unit): continuation lines and nested items start at the marker\'s column and '
                  'leave the item (Typst derives item nesting from indentation)' % K)
    return r


def r11_import_sort_guarded(w):
    """= C19.R1: "every configuration" includes reordering of import items - the one reordering the printer performs keeps the meaning only behind its
    guards (two items binding the same name must keep their order: the later binding wins; seed C01/5B)"""
    from rules import c19
    return _shared(c19.r1_guarded_sort(w), 'C01.R11')


RULES = [r1_total_dispatch, r2_no_significant_child_dropped, r3_spelling, r4_order_and_disambiguation, r5_statement_boundaries, r6_token_separation, r7_hash_mode,
         r8_comments_swallow_nothing, r9_significant_whitespace, r10_item_nesting, r11_import_sort_guarded]
for _f in RULES:
    _f.needs = ('core',)
MATRIX_RULES = [r2_no_significant_child_dropped]
EXTRA_CONFIGS = ['core-serde']
