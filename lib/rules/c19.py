"""C19 - import items are reordered only on request, and then only permuted."""
import re
import grammar
import cfg
import effects
from prov import Prov, strip_casts, place_key
from mirfacts import callee_path, resolved_id, resolved_path, callee_str
from paths import BodyView
from tyutil import name_projection, adt_lookup
from dataflow import iter_uses
from framework import RuleResult, AnchorMissing

META = {
    'explanation': 'Guarded-by and who-may-touch rules over the MIR of typstyle-core: the single order-changing call on the import item list is '
                   'dominated by the conjunction {Config.reorder_import_items, all-items-are-not-comments, no-duplicate-bound-name}; the duplicate test '
                   'can answer "no duplicates" only if every ImportItemPath/RenamedImportItem name was inserted into a set without collision; between '
                   'construction and consumption the list is touched only by iter / in-place sort / into_iter (so the output is a permutation); the flag '
                   'is read at exactly one site, defaults to false in Config::default and on the command line, and no other order-changing operation on '
                   'syntax nodes exists besides the two chain reversals.',
    'decides': 'off => source order (no other reordering exists); on => a permutation gated on the three stated conditions; nothing else depends on the flag',
    'does_not_decide': 'that the duplicate test covers every way two items bind one name (nested paths with equal last segment are covered: name() is the bound name)',
    'trusted_base': ['slice::sort_by_key permutes', 'HashSet::insert returns false iff the value was present', 'clap derive', 'rustc MIR construction'],
}

FLAG = 'typstyle_core::config::Config.reorder_import_items'
SORTS = {'sort', 'sort_by', 'sort_by_key', 'sort_unstable', 'sort_unstable_by', 'sort_unstable_by_key', 'sort_by_cached_key',
         'sorted', 'sorted_by', 'sorted_by_key', 'sorted_unstable'}
LEN_CHANGING = re.compile(r'::(push|pop|remove|swap_remove|insert|dedup|dedup_by|dedup_by_key|retain|retain_mut|truncate|clear|drain|extend|append|'
                          r'split_off|resize|extend_from_slice|extract_if)$')


def syntax_kind_names(w):
    a = adt_lookup(w, 'typst_syntax::kind::SyntaxKind')
    if a is None:
        for c in w.crates.values():
            for x in c.adts.values():
                if x['path'].endswith('SyntaxKind') and x['crate'] == 'typst_syntax':
                    a = x
    if a is None:
        raise AnchorMissing('typst_syntax::SyntaxKind in the ADT tables')
    return {v['discr']: v['name'] for v in a['variants']}


SINKS = re.compile(r'::(push|push_back|push_front|extend|insert|collect|collect_vec|append|concat|intersperse|sort\w*|fold|for_each|unzip|partition|from_iter|chain|zip)$')


def _search_only(w, b):
    """the function (with its closures) neither builds a collection nor produces a document: whatever order it visits nodes in cannot reach the output"""
    ret = b.locals[0]['ty']['s']
    if 'DocBuilder' in ret or 'Vec<' in ret or 'SmallVec' in ret:
        return False
    own = [x for x in w.bodies.values() if x.id == b.id or x.id.startswith(b.id + '::{closure')]
    for x in own:
        for _, t in x.calls():
            pth = resolved_path(t) or callee_path(t) or ''
            if SINKS.search(pth) or pth.startswith(('pretty::', 'typstyle_core::pretty::')) and not pth.startswith(('pretty::util::', 'typstyle_core::pretty::util::')):
                return False
            cb = w.bodies.get(resolved_id(t))
            if cb is not None and cb.crate is w.core and not cb.short.startswith('pretty::util::') and cb.id not in {y.id for y in own}:
                return False
    return True


def order_changing_calls(w, crate):
    out = []
    for b in w.fn_bodies(crate):
        for bi, t in b.calls():
            p = resolved_path(t) or callee_path(t) or ''
            m = p.rsplit('::', 1)[-1]
            if m in effects.ORDER_CHANGING and ('slice' in p or 'Vec' in p or 'vec::' in p or 'Itertools' in p or 'Iterator' in p or 'VecDeque' in p):
                # an iterator over numbers (`(0..n).rev()`: index arithmetic) carries no nodes: nothing of the tree is reordered
                self_ty = ((t.get('callee') or {}).get('self_ty') or {}).get('s', '') or (b.locals[t['args'][0]['p']['l']]['ty']['s'] if t['args'] and t['args'][0].get('o') in ('move', 'copy') else '')
                if m == 'rev' and re.match(r'^(&mut )?std::ops::Range(Inclusive)?<(usize|u\d+|i\d+|isize)>$', self_ty):
                    continue
                if m == 'rev' and _search_only(w, b):
                    continue          # a backwards *search* (`for (i, n) in xs.iter().enumerate().rev() { if .. { end = i; break } }`): nothing is collected or emitted
                out.append((b, bi, t, p, m))
    return out


def _sort_site(w):
    sites = [(b, bi, t, p, m) for (b, bi, t, p, m) in order_changing_calls(w, w.core) if m in SORTS]
    return sites


def r1_guarded_sort(w):
    r = RuleResult('C19.R1', 'the import sort is dominated by {flag, all items non-comment, no duplicate bound name}; the duplicate test is sound', floor=8)
    sites = _sort_site(w)
    if not sites:
        # nothing sorts: reordering can never happen - the "on" half of the statement is violated
        raise AnchorMissing('no sort call on import items found in typstyle-core')
    kinds = syntax_kind_names(w)
    flag_in_caller = _FLAG_IN_CALLER.setdefault(id(w), set())
    for (b0, bi0, t0, p, m) in sites:
        # the function with its boolean helpers expanded (a condition moved into `fn should_sort(..) -> bool` is the same condition); the duplicate
        # test - the helper that fills a set - stays a call and is judged on its own
        b, bi, t = _sort_view(w, b0, bi0, t0)
        v = BodyView(w, b)
        # the sorted collection
        coll = v.pv.through(v.pv.origins_operand(t['args'][0]), re.compile(r'DerefMut>::deref_mut$|DerefMut::deref_mut$|::as_mut_slice$|Deref>::deref$'))
        gs = v.guards_ext(bi)
        have = {'flag': None, 'nocomment': None, 'nodup': None}
        others = []
        for g in gs:
            atom, vals, sw = g
            if atom == 'field:' + FLAG:
                have['flag'] = have['flag'] or (vals == {True})
                continue
            # call atoms: inspect the call itself
            matched = False
            for o in v.pv.peel(v.pv.origins_operand(v.guard_operand(g))):
                if o[0] != 'call':
                    continue
                ct = v.pv.call_term(o)
                cp = resolved_path(ct) or callee_path(ct) or ''
                if cp.endswith('Iterator>::all') or cp.endswith('Iterator::all'):
                    same = _same_collection(v, ct['args'][0], coll)
                    pred_ok, why = _all_pred_rejects_comments(w, v, ct)
                    if same and pred_ok:
                        have['nocomment'] = have['nocomment'] or (vals == {True})
                        matched = True
                    else:
                        others.append('all(..) over %s with predicate: %s' % ('the item list' if same else 'another collection', why))
                        matched = True
                if cp.endswith('Iterator>::any') or cp.endswith('Iterator::any'):
                    # !items.any(is_comment)
                    same = _same_collection(v, ct['args'][0], coll)
                    pred_ok, why = _any_pred_accepts_comments(w, v, ct)
                    if same and pred_ok:
                        have['nocomment'] = have['nocomment'] or (vals == {False})
                        matched = True
                    else:
                        others.append('any(..) over %s with predicate: %s' % ('the item list' if same else 'another collection', why))
                        matched = True
                rid = resolved_id(ct)
                fb = w.bodies.get(rid)
                if fb is not None and fb.locals[0]['ty']['s'] == 'bool' and fb.def_kind == 'Fn':
                    same = _same_collection(v, ct['args'][0], coll) if ct['args'] else False
                    ok, why = _dup_check_sound(w, fb, kinds)
                    if same and ok:
                        have['nodup'] = have['nodup'] or (vals == ({False} if _dup_inverted(w, fb) else {True}))
                        matched = True
                    elif not matched:
                        others.append('%s: %s' % (fb.short, why))
                        matched = True
            if not matched:
                others.append(atom)
        if not have['flag']:
            # the flag conjunct may sit in the caller (`let order = if flag && .. { Sorted } else { Source }`)
            cv = _caller_view(w, b0, t0)
            if cv is not None:
                for atom2, vals2, sw2 in cv[2].guards_ext(cv[1]):
                    if atom2 == 'field:' + FLAG and vals2 == {True}:
                        have['flag'] = True
                        flag_in_caller.add(cv[0].id)
        for k, label in (('flag', 'Config.reorder_import_items is true'), ('nocomment', 'every item is a non-comment node'),
                         ('nodup', 'no two items bind the same name')):
            cons = {'fn': b.short, 'sort': m, 'condition': label}
            if have[k]:
                r.ok(cons, 'dominating guard present')
            else:
                r.bad(cons, '%s|missing-guard|%s' % (b.short, k),
                      'the import sort in %s is not guarded by "%s" (%s)%s' % (b.short, label, 'guard has the wrong polarity' if have[k] is False else 'no such dominating condition',
                                                                               ('; unrecognised guards: %s' % others) if others else ''), b.loc(t['span']))
        # sort key must be a pure function of the item (no external state)
        for a in t['args'][1:]:
            for o in v.pv.peel(v.pv.origins_operand(a)):
                if o[0] == 'agg' and v.pv.agg_rvalue(o).get('ak') == 'closure':
                    rv = v.pv.agg_rvalue(o)
                    cons = {'fn': b.short, 'sort_key_closure_captures': len(rv['ops'])}
                    if len(rv['ops']) == 0:
                        r.ok(cons, 'key closure captures nothing: order depends on the items only')
                    else:
                        r.bad(cons, '%s|key-captures' % b.short, 'the sort key closure captures state', b.loc(t['span']))
    # "imports that contain comments keep their order": the comment-free condition covers every child of the import statement
    seen_keys = set()
    for ok, cons, key, why, loc in comment_coverage_obligations(w):
        if ok:
            r.ok(cons, why)
        elif key not in seen_keys:
            seen_keys.add(key)
            r.bad(cons, key, why, loc)
    # the duplicate test itself, instance per obligation
    for (b0, bi0, t0, p, m) in sites:
        b, bi, t = _sort_view(w, b0, bi0, t0)
        v = BodyView(w, b)
        for g in v.guards_ext(bi):
            for o in v.pv.peel(v.pv.origins_operand(v.guard_operand(g))):
                if o[0] == 'call':
                    fb = w.bodies.get(resolved_id(v.pv.call_term(o)))
                    if fb is not None and fb.locals[0]['ty']['s'] == 'bool' and fb.def_kind == 'Fn':
                        for line in _dup_check_obligations(w, fb, kinds):
                            ok, cons, why = line
                            if ok:
                                r.ok(cons, why)
                            else:
                                r.bad(cons, '%s|dup|%s' % (fb.short, cons.get('obligation')), why, fb.loc())
    return r


_SORT_VIEW = {}
_CALLER_VIEW = {}
_FLAG_IN_CALLER = {}


def _caller_view(w, b0, t0):
    """(body, block of the sort call, view) of the unique caller of the sort's function with that function (and the boolean helper predicates)
    expanded into it - a conjunct of the sort's guard hoisted into the caller and handed on as a parameter (bool or a two-variant enum) is then a
    guard carried by a constructed value (guards_ext).  None when the sort's function has not exactly one call site."""
    key = (id(w), b0.id)
    if key not in _CALLER_VIEW:
        import inline
        from rules import c05
        res = None
        callers = [(cb, bi, t) for cb in w.fn_bodies(w.core) for bi, t in cb.calls() if resolved_id(t) == b0.id]
        if len(callers) == 1 and callers[0][0].id != b0.id:
            cb = callers[0][0]

            def pred(f, t_, d_):
                return f.id == b0.id or (f.crate is w.core and f.locals[0]['ty']['s'] == 'bool' and f.def_kind == 'Fn' and not c05.is_recursive(w, f)
                                         and not _tests_comment_kinds(w, f) and 'duplication' not in f.short)
            nb = inline.inline_body(w, cb, pred, desugar=False)
            if b0.id in nb.inlined:
                for bi, t in nb.calls():
                    if (callee_path(t) or '') == (callee_path(t0) or '') and t.get('span') == t0.get('span'):
                        res = (nb, bi, BodyView(w, nb))
        _CALLER_VIEW[key] = res
    return _CALLER_VIEW[key]


def _sort_view(w, b, bi, t):
    """(body, block, term) of the sort call in the body with its boolean helper functions expanded"""
    key = (id(w), b.id, bi)
    if key not in _SORT_VIEW:
        import inline
        from rules import c05

        def fills_a_set(cb):
            own = [x for x in w.bodies.values() if x.id == cb.id or x.id.startswith(cb.id + '::{closure')]
            return any(re.search(r'::insert$', callee_path(t2) or '') and re.search(r'Hash|BTree', callee_str(t2) or callee_path(t2) or '') for x in own for _, t2 in x.calls())

        def pred(cb, t_, depth):
            return cb.crate is w.core and cb.locals[0]['ty']['s'] == 'bool' and not c05.is_recursive(w, cb) and not fills_a_set(cb) and not _tests_comment_kinds(w, cb)
        nb = inline.inline_body(w, b, pred, desugar=False)
        # the block index of the call is unchanged (blocks are only appended), unless the sort itself was in an expanded part
        _SORT_VIEW[key] = (nb, bi, nb.blocks[bi]['term'])
    return _SORT_VIEW[key]


def _any_pred_accepts_comments(w, v, ct):
    """the function / closure passed to any() is the comment-kind test itself"""
    for a in ct['args'][1:]:
        if a.get('o') == 'const' and 'fn' in a:
            fb = w.bodies.get(a['fn']['def']['id'])
            if fb is not None and _tests_comment_kinds(w, fb):
                return True, 'comment-kind test'
            return False, 'function %s is not the comment-kind test' % a['fn']['def']['path']
        for o in v.pv.peel(v.pv.origins_operand(a)):
            if o[0] == 'fnitem':
                fb = w.bodies.get(o[1])
                if fb is not None and _tests_comment_kinds(w, fb):
                    return True, 'comment-kind test'
            if o[0] == 'agg' and v.pv.agg_rvalue(o).get('ak') == 'closure':
                cb = w.bodies.get(v.pv.agg_rvalue(o)['def']['id'])
                if cb is None:
                    return False, 'closure body not found'
                cv = BodyView(w, cb)
                ret = cv.pv.peel(cv.pv._origins_local(0, frozenset()))
                if len(ret) == 1 and next(iter(ret))[0] == 'call':
                    fb = w.bodies.get(resolved_id(cv.pv.call_term(next(iter(ret)))))
                    if fb is not None and _tests_comment_kinds(w, fb):
                        return True, 'comment-kind test'
                return False, 'closure is not the comment-kind test'
    return False, 'no predicate argument'


def _same_collection(v, operand, coll):
    src = v.pv.through(v.pv.origins_operand(operand), re.compile(r'Deref>::deref$|Deref::deref$|::iter$|::as_slice$|IntoIterator.*into_iter$|DerefMut>::deref_mut$|Iterator>?::(copied|cloned|by_ref)$'))
    return bool(src) and src == coll


def _all_pred_rejects_comments(w, v, ct):
    """the closure passed to all() returns !is_comment(node): structural check - it negates a call that
    compares the node's kind against both comment kinds"""
    for a in ct['args'][1:]:
        for o in v.pv.peel(v.pv.origins_operand(a)):
            if o[0] == 'agg' and v.pv.agg_rvalue(o).get('ak') == 'closure':
                cb = w.bodies.get(v.pv.agg_rvalue(o)['def']['id'])
                if cb is None:
                    return False, 'closure body not found'
                cv = BodyView(w, cb)
                ret = cv.pv._origins_local(0, frozenset())
                if len(ret) != 1:
                    return False, 'closure has several return values'
                o2 = next(iter(ret))
                if o2[0] != 'unop' or o2[1][2] != 'Not':
                    return False, 'closure result is not a negation'
                rv = cb.blocks[o2[1][0]]['stmts'][o2[1][1]]['rv']
                inner = cv.pv.peel(cv.pv.origins_operand(rv['a']))
                for x in inner:
                    if x[0] == 'call':
                        fb = w.bodies.get(resolved_id(cv.pv.call_term(x)))
                        if fb is not None and _tests_comment_kinds(w, fb):
                            return True, 'negated comment-kind test'
                return False, 'negated value is not a comment-kind test'
    return False, 'no closure argument'


def _tests_comment_kinds(w, fb):
    """fb(node) -> bool returns true exactly on a switch over SyntaxNode::kind listing LineComment and BlockComment"""
    kinds = syntax_kind_names(w)
    v = BodyView(w, fb)
    for bi, blk in enumerate(fb.blocks):
        t = blk['term']
        if t['t'] == 'switch':
            atom = v.switch_atom(bi)
            if 'kind' in atom:
                by = {}
                for val, tgt in t['targets']:
                    by.setdefault(tgt, set()).add(kinds.get(val))
                for tgt, ks in by.items():
                    if ks == {'LineComment', 'BlockComment'}:
                        # that target assigns true
                        la = [s for s in fb.blocks[tgt]['stmts'] if s['s'] == 'assign' and s['p']['l'] == 0]
                        if la and la[-1]['rv']['r'] == 'use' and la[-1]['rv']['op'].get('int') == 1:
                            return True
    return False


def _dup_check_iterator_form(w, fb, kinds):
    """the duplicate test written as `items.iter().filter_map(<bound name of an item>).all(|name| seen.insert(name))`; None when fb has another shape.
    `all` stops at and answers false for the first `false` of its predicate, answers true after the last item: with the predicate being the insert itself
    the three control-flow obligations of the loop form hold by the contract of Iterator::all."""
    v = BodyView(w, fb)
    rets = {strip_casts(o) for o in v.pv.peel(v.pv._origins_local(0, frozenset()))}
    if len(rets) == 1 and next(iter(rets))[0] == 'unop' and next(iter(rets))[1][2] == 'Not':
        # `!names.all(|n| seen.insert(n))`: the same test answering "has duplicates" (the caller's polarity is checked at the guard, see _dup_inverted)
        o_ = next(iter(rets))
        rets = {strip_casts(o) for o in v.pv.peel(v.pv.origins_operand(fb.blocks[o_[1][0]]['stmts'][o_[1][1]]['rv']['a']))}
    if len(rets) != 1 or next(iter(rets))[0] != 'call':
        return None
    at = v.pv.call_term(next(iter(rets)))
    if not re.search(r'Iterator>?::all$', callee_path(at) or '') or len(at['args']) != 2:
        return None
    out = []

    def closure_of(op):
        for o in v.pv.peel(v.pv.origins_operand(op)):
            if o[0] == 'agg' and v.pv.agg_rvalue(o).get('ak') == 'closure':
                return w.bodies.get(v.pv.agg_rvalue(o)['def']['id'])
        return None
    pb = closure_of(at['args'][1])
    cons = {'fn': fb.short, 'obligation': 'single-insert', 'form': 'filter_map(bound name).all(insert)'}
    ok_pred = False
    if pb is not None:
        ins = [(bi, t) for bi, t in pb.calls() if (callee_path(t) or '').endswith('::insert') and re.search(r'HashSet|BTreeSet', callee_str(t) or callee_path(t) or '')]
        pv2 = BodyView(w, pb)
        if len(ins) == 1 and len(list(pb.calls())) == 1 and not any(blk['term']['t'] == 'switch' for blk in pb.blocks if not blk['cleanup']):
            it = ins[0][1]
            val = {strip_casts(o) for o in pv2.pv.peel(pv2.pv.origins_operand(it['args'][1]))}
            ret = {strip_casts(o) for o in pv2.pv.peel(pv2.pv._origins_local(0, frozenset()))}
            ok_pred = val == {('param', 2, ())} and ret == {('call', (ins[0][0], callee_path(it) or ''), ())}
    if not ok_pred:
        out.append((False, cons, 'the predicate of all(..) in %s is not exactly `|name| set.insert(name)`' % fb.short))
        return out
    out.append((True, cons, 'the predicate of all(..) is the HashSet::insert of the name itself'))
    for ob, why in (('false-only-after-collision', '`false` exactly when an insert reports a collision (Iterator::all)'),
                    ('collision-returns-false', 'all(..) stops at the first collision'), ('true-after-exhaustion', '`true` only after every item was visited (Iterator::all)')):
        out.append((True, {'fn': fb.short, 'obligation': ob}, why))
    # the names: filter_map over the items with a closure that yields the bound name of every item kind that binds one
    srcs = v.pv.peel(v.pv.origins_operand(at['args'][0]))
    fm = [v.pv.call_term(o) for o in srcs if o[0] == 'call' and re.search(r'Iterator>?::filter_map$', callee_path(v.pv.call_term(o)) or '')]
    if len(fm) != 1 or len(srcs) != 1:
        out.append((False, {'fn': fb.short, 'obligation': 'kind-dispatch'}, 'the names do not come from one filter_map over the items'))
        return out
    base = v.pv.through(v.pv.origins_operand(fm[0]['args'][0]), re.compile(r'::iter$|IntoIterator.*into_iter$|Deref>::deref$|Deref::deref$|::as_slice$'))
    if not (base and all(o[0] == 'param' and not o[2] for o in base)):
        out.append((False, {'fn': fb.short, 'obligation': 'kind-dispatch'}, 'filter_map does not run over the item list handed to %s' % fb.short))
        return out
    fop = fm[0]['args'][1]
    cb = closure_of(fop)
    node_param = 2
    if cb is None and fop.get('o') == 'const' and 'fn' in fop:
        cb = w.bodies.get(fop['fn']['def']['id'])
        node_param = 1
    if cb is None:
        out.append((False, {'fn': fb.short, 'obligation': 'kind-dispatch'}, 'the function that yields the names was not found'))
        return out
    out += _name_extraction_obligations(w, fb, cb, node_param)
    return out


def _name_extraction_obligations(w, fb, cb, node_param):
    """the function / closure that maps an item node to its bound name: evaluated per item kind (every name-binding kind yields Some on every path,
    whatever the dispatch looks like: a match on the kind, a chain of `if let Some(x) = node.cast()`, `cast().map(..)`), and by provenance the payload of
    every Some it builds is name() of a plain item / new_name() of a renamed one"""
    from sites import run_function
    from kindflow import Node as KNode, Agg as KAgg
    import inline
    out = []
    for k in ('ImportItemPath', 'RenamedImportItem'):
        cons = {'fn': fb.short, 'obligation': 'item-kind-inserted', 'kind': k}
        try:
            res = run_function(w, cb, {node_param: KNode('parent', k)}, converter_pred=lambda tb: False)
        except Exception as e:
            res = None
        if not res:
            out.append((False, cons, 'the name extraction %s could not be evaluated for %s items' % (cb.short, k)))
            continue
        vals = [r_[0] for r_ in res]
        if all(isinstance(x, KAgg) and x.adt.endswith('Option') and x.variant == 'Some' for x in vals):
            out.append((True, cons, 'an item of kind %s always yields a name (%d paths evaluated)' % (k, len(vals))))
        else:
            out.append((False, cons, 'an item of kind %s can be left out of the name set (the extraction answers None / something unknown on some path)' % k))
    from rules import c05
    db = inline.inline_body(w, cb, lambda tb, t_, d: tb.crate is w.core and tb.short.startswith('pretty::import::') and not c05.is_recursive(w, tb))
    dv = BodyView(w, db)
    names, typed_ok = set(), True
    n_some = 0
    for bi, blk in enumerate(db.blocks):
        if blk['cleanup']:
            continue
        for st in blk['stmts']:
            if st['s'] == 'assign' and st['rv']['r'] == 'agg' and st['rv'].get('vname') == 'Some' and st['rv'].get('path', '').endswith('option::Option') \
                    and db.locals[st['p']['l']]['ty']['s'].startswith('std::option::Option<&') and 'str' in db.locals[st['p']['l']]['ty']['s']:
                n_some += 1
                ors = dv.pv.through(dv.pv.origins_operand(st['rv']['ops'][0]), re.compile(r'Ident::<.*>::as_str$|::as_str$|Deref>::deref$|::get$'))
                for o in ors:
                    if o[0] != 'call':
                        names.add(o[0])
                        continue
                    p_ = callee_path(dv.pv.call_term(o)) or ''
                    nm = p_.rsplit('::', 1)[-1]
                    names.add(nm)
                    if not ((nm == 'name' and 'ImportItemPath' in p_) or (nm == 'new_name' and 'RenamedImportItem' in p_)):
                        typed_ok = False
    cons = {'fn': fb.short, 'obligation': 'inserted-value', 'from': sorted(names), 'some_sites': n_some}
    if n_some and names and names <= {'name', 'new_name'} and typed_ok:
        out.append((True, cons, 'the set holds bound names only'))
    else:
        out.append((False, cons, 'the value inserted into the set is not the bound name: %s' % sorted(names)))
    return out


def _dup_inverted(w, fb):
    """the duplicate test answers true for `has duplicates` (`!names.all(insert)`) instead of `all names distinct`"""
    v = BodyView(w, fb)
    rets = {strip_casts(o) for o in v.pv.peel(v.pv._origins_local(0, frozenset()))}
    return len(rets) == 1 and next(iter(rets))[0] == 'unop' and next(iter(rets))[1][2] == 'Not'


def _dup_check_obligations(w, fb, kinds):
    """yields (ok, construct, why) for the duplicate-name test"""
    alt = _dup_check_iterator_form(w, fb, kinds)
    if alt is not None:
        return alt
    v = BodyView(w, fb)
    out = []
    # (a set whose insert answers `false` iff the value was present: HashSet or BTreeSet)
    inserts = [(bi, t) for bi, t in fb.calls() if re.search(r'(HashSet::<T, S, A>|BTreeSet::<T, A>|BTreeSet::<T>)::insert$', callee_path(t) or '') or
               ((resolved_path(t) or '').endswith('::insert') and re.search(r'HashSet|BTreeSet', callee_str(t) or ''))]
    if len(inserts) != 1:
        out.append((False, {'fn': fb.short, 'obligation': 'single-insert'}, 'expected exactly one HashSet::insert in %s, found %d' % (fb.short, len(inserts))))
        return out
    ins_bb, ins_t = inserts[0]
    loops = cfg.natural_loops(fb)
    if len(loops) != 1:
        out.append((False, {'fn': fb.short, 'obligation': 'single-loop'}, 'expected exactly one loop in %s' % fb.short))
        return out
    (h, blocks), = loops.items()
    # 1. false is returned only on the failed-insert edge, and the failed-insert edge always returns false
    sw = fb.blocks[ins_bb]['term']['target']
    st = fb.blocks[sw]['term']
    false_tgt = true_tgt = None
    if st['t'] == 'switch':
        for tgt, label in v.switch_edges(sw):
            if v.label_values(sw, label) == {False}:
                false_tgt = tgt
            if v.label_values(sw, label) == {True}:
                true_tgt = tgt
    ret_false, ret_true = [], []
    for bi, blk in enumerate(fb.blocks):
        if blk['cleanup']:
            continue
        for s in blk['stmts']:
            if s['s'] == 'assign' and s['p']['l'] == 0 and not s['p']['proj'] and s['rv']['r'] == 'use' and 'int' in s['rv']['op']:
                (ret_true if s['rv']['op']['int'] else ret_false).append(bi)
    cons = {'fn': fb.short, 'obligation': 'false-only-after-collision', 'return_false_blocks': ret_false}
    if false_tgt is not None and ret_false and all(cfg.edge_dominates(fb, sw, false_tgt, x) for x in ret_false):
        out.append((True, cons, '`false` is returned only after HashSet::insert reported a collision'))
    else:
        out.append((False, cons, '%s can answer "duplicates" without a failed HashSet::insert' % fb.short))
    cons = {'fn': fb.short, 'obligation': 'collision-returns-false'}
    if false_tgt is not None and not cfg.paths_avoiding(fb, false_tgt, {h} | set(ret_true), set(ret_false)):
        out.append((True, cons, 'a collision always ends in `return false`'))
    else:
        out.append((False, cons, 'after a name collision %s can continue or return true: duplicates would be sorted' % fb.short))
    # 2. `true` only after the loop is exhausted
    cons = {'fn': fb.short, 'obligation': 'true-after-exhaustion', 'return_true_blocks': ret_true}
    none_edge = None
    hsw = fb.succs(h)[0]
    for tgt, label in v.switch_edges(hsw):
        if 'None' in v.label_values(hsw, label):
            none_edge = tgt
    if ret_true and none_edge is not None and all(cfg.edge_dominates(fb, hsw, none_edge, x) or x == none_edge for x in ret_true) \
            and all(x not in blocks for x in ret_true):
        out.append((True, cons, '`true` is returned only after every item was visited'))
    else:
        out.append((False, cons, '%s can answer "no duplicates" before all items were visited' % fb.short))
    # 3. every item kind that binds a name reaches the insert, with the bound name
    want = {'ImportItemPath': 'name', 'RenamedImportItem': 'new_name'}
    kind_sw = None
    for bi in sorted(blocks):
        t = fb.blocks[bi]['term']
        if t['t'] == 'switch' and 'kind' in v.switch_atom(bi) and 'discr' in v.switch_atom(bi):
            kind_sw = bi
    if kind_sw is None:
        out.append((False, {'fn': fb.short, 'obligation': 'kind-dispatch'}, 'no dispatch on the item kind found in %s' % fb.short))
        return out
    t = fb.blocks[kind_sw]['term']
    by_kind = {kinds.get(val): tgt for val, tgt in t['targets']}
    for k, accessor in want.items():
        cons = {'fn': fb.short, 'obligation': 'item-kind-inserted', 'kind': k}
        tgt = by_kind.get(k)
        if tgt is None:
            out.append((False, cons, 'items of kind %s are not examined by the duplicate test: `import "m": a, x as a` could be sorted' % k))
            continue
        # inside the arm of kind k a cast::<T>() with k in kinds(T) cannot fail: its None edge is infeasible
        infeasible = set()
        for bi in cfg.reachable_from(fb, tgt, stop={ins_bb, h}):
            ct = fb.blocks[bi]['term']
            if ct['t'] != 'call':
                continue
            mm = re.search(r"SyntaxNode::cast::<'?[^,>]*,?\s*typst_syntax::ast::(\w+)", callee_str(ct) or '')
            if not mm or k not in grammar.load()['kinds_of'].get(mm.group(1), []):
                continue
            nb = ct.get('target')
            if nb is not None and fb.blocks[nb]['term']['t'] == 'switch':
                for e_tgt, label in v.switch_edges(nb):
                    if 'None' in v.label_values(nb, label):
                        infeasible.add(e_tgt)
        if cfg.paths_avoiding(fb, tgt, {h}, {ins_bb} | infeasible):
            out.append((False, cons, 'an item of kind %s can skip the HashSet::insert' % k))
            continue
        # the name inserted on this path comes from the right accessor
        acc_calls = [bi for bi, ct in fb.calls() if (callee_path(ct) or '').endswith('::' + accessor) and k in (callee_path(ct) or '')]
        ok = any((bi in cfg.reachable_from(fb, tgt, stop={ins_bb})) for bi in acc_calls)
        if ok:
            out.append((True, cons, 'inserted under its bound name (%s())' % accessor))
        else:
            out.append((False, cons, 'the name inserted for %s does not come from %s()' % (k, accessor)))
    # the inserted value flows from those accessors only
    ors = v.pv.through(v.pv.origins_operand(ins_t['args'][1]), re.compile(r'Ident::<.*>::as_str$|::as_str$|Deref>::deref$|::get$'))
    names = sorted({(callee_path(v.pv.call_term(o)) or '').rsplit('::', 1)[-1] if o[0] == 'call' else o[0] for o in ors})
    cons = {'fn': fb.short, 'obligation': 'inserted-value', 'from': names}
    if set(names) <= {'name', 'new_name'} and names:
        out.append((True, cons, 'the set holds bound names only'))
    else:
        out.append((False, cons, 'the value inserted into the set is not the bound name: %s' % names))
    return out


def _dup_check_sound(w, fb, kinds):
    obs = _dup_check_obligations(w, fb, kinds)
    bad = [why for ok, _, why in obs if not ok]
    return (not bad), '; '.join(bad)


def r2_permutation(w):
    r = RuleResult('C19.R2', 'between construction and consumption the item list is touched only by iter / in-place sort / into_iter', floor=3)
    for (b, bi, t, p, m) in _sort_site(w):
        v = BodyView(w, b)
        coll = v.pv.through(v.pv.origins_operand(t['args'][0]), re.compile(r'DerefMut>::deref_mut$|DerefMut::deref_mut$|::as_mut_slice$'))
        locals_ = {o[1] for o in coll if o[0] == 'param' and not o[2]} | {o[1][0] for o in coll if o[0] == 'ref'}
        if not locals_:
            r.bad({'fn': b.short}, '%s|collection' % b.short, 'cannot identify the sorted collection (%s)' % sorted(v.describe(o) for o in coll), b.loc(t['span']))
            continue
        for l in locals_:
            for u in iter_uses(b):
                if u['local'] != l:
                    continue
                cons = {'fn': b.short, 'list': b.names.get(l, '_%d' % l), 'use': u['how'], 'bb': u['bb']}
                if u['how'] == 'ref':
                    # where does the borrow go?
                    dl = u['dest'][0]
                    for u2 in iter_uses(b):
                        if u2['local'] != dl:
                            continue
                        if u2['how'] == 'call-arg':
                            cp = resolved_path(u2['term']) or callee_path(u2['term']) or ''
                            cons2 = dict(cons, callee=cp)
                            if LEN_CHANGING.search(cp):
                                r.bad(cons2, '%s|list-modified|%s' % (b.short, cp.rsplit('::', 1)[-1]),
                                      'the import item list is modified by `%s` in %s: the output items are no longer a permutation of the source items' % (cp, b.short),
                                      b.loc(u2['term']['span']))
                            else:
                                r.ok(cons2, 'length-preserving access')
                        elif u2['how'] in ('use', 'ref'):
                            r.ok(cons, 'reborrow')
                elif u['how'] in ('use', 'call-arg'):
                    if u['how'] == 'call-arg':
                        cp = resolved_path(u['term']) or callee_path(u['term']) or ''
                        if LEN_CHANGING.search(cp):
                            r.bad(dict(cons, callee=cp), '%s|list-modified|%s' % (b.short, cp.rsplit('::', 1)[-1]), 'list modified by %s' % cp, b.loc(u['term']['span']))
                            continue
                    r.ok(cons, 'moved to its consumer')
    return r


def _cfg_field_index(w):
    cfg_adt = adt_lookup(w, 'typstyle_core::config::Config')
    return [f['name'] for f in cfg_adt['variants'][0]['fields']].index('reorder_import_items')


def r3_nothing_else_depends_on_flag(w):
    r = RuleResult('C19.R3', 'flag read at one site; Config::default and the CLI default are false; no other order-changing operation on nodes', floor=5 if w.cli is not None else 4)
    core = w.core
    loads = []
    for b in w.fn_bodies(core):
        if (b.j.get('impl_self') or {}).get('id') == 'typstyle_core::config::Config':
            continue
        for u in iter_uses(b):
            if u['how'] in ('use', 'switch', 'binop', 'unop', 'call-arg', 'agg', 'ref', 'cast'):
                steps, _ = name_projection(w, b.locals[u['local']]['ty'], u['proj'])
                if steps and steps[-1] == FLAG:
                    if u['how'] == 'agg' and u['rv'].get('adt') == 'typstyle_core::config::Config' and _cfg_field_index(w) == u['index']:
                        continue          # `Config { .., ..other }`: the flag of one Config copied into the same field of another is not a decision
                    loads.append((b, u))
    sort_fns = {b.id for (b, _, _, _, _) in _sort_site(w)}
    # boolean helpers of the sort's guard (expanded into the sort site by R1) read the flag on the sort's behalf
    for (b_, bi_, t_, _p, _m) in _sort_site(w):
        sort_fns |= set(getattr(_sort_view(w, b_, bi_, t_)[0], 'inlined', ()))
    # a caller of the sort's function that reads the flag only to build the guard it hands on (established by R1 on the caller view)
    for (b_, bi_, t_, _p, _m) in _sort_site(w):
        cv = _caller_view(w, b_, t_)
        if cv is not None and any(a == 'field:' + FLAG and vs == {True} for a, vs, _ in cv[2].guards_ext(cv[1])):
            sort_fns.add(cv[0].id)
    for (b, u) in loads:
        cons = {'fn': b.short, 'reads': 'Config.reorder_import_items', 'how': u['how']}
        if b.id in sort_fns:
            r.ok(cons, 'the guarded sort')
        else:
            r.bad(cons, '%s|flag-read' % b.short, 'Config.reorder_import_items is also read in %s: something other than the item order depends on the flag' % b.short,
                  b.loc())
    if len([1 for (b, u) in loads if b.id in sort_fns]) != 1:
        r.bad({'loads': len(loads)}, 'flag-read-count', 'expected exactly one read of the flag at the sort site, found %d' % len(loads))
    # the switch on the flag only selects whether to sort: the flag's true region contains no converter call
    # Config::default
    dflt = [b for b in w.fn_bodies(core) if (b.j.get('impl_self') or {}).get('id') == 'typstyle_core::config::Config'
            and (b.j.get('impl_trait') or {}).get('path') == 'std::default::Default']
    if len(dflt) != 1:
        raise AnchorMissing('Default impl of Config')
    cfg_adt = adt_lookup(w, 'typstyle_core::config::Config')
    idx = [f['name'] for f in cfg_adt['variants'][0]['fields']].index('reorder_import_items')
    for blk in dflt[0].blocks:
        for s in blk['stmts']:
            if s['s'] == 'assign' and s['rv']['r'] == 'agg' and s['rv'].get('adt') == 'typstyle_core::config::Config':
                op = s['rv']['ops'][idx]
                cons = {'fn': dflt[0].short, 'reorder_import_items': op.get('int')}
                if op['o'] == 'const' and op.get('int') == 0:
                    r.ok(cons, 'library default is off')
                else:
                    r.bad(cons, 'default-on', 'Config::default() does not set reorder_import_items to false', dflt[0].loc(s['span']))
    # CLI default (clap builder chain of the flag)
    if w.cli is not None:
        from rules.cli_common import Cli
        c = Cli(w)
        d = clap_default(c, 'reorder_import_items')
        cons = {'clap_arg': 'reorder_import_items', 'default_value_t': d}
        if d == ('bool', 0) or d == 'absent':
            r.ok(cons, 'command-line default is off')
        else:
            r.bad(cons, 'cli-default', 'the --reorder-import-items option does not default to false (%s)' % (d,))
    # who-may-reorder: every other order-changing call in the crate
    known = {('pretty::code_chain', 'reverse'): 'innermost-last chain walk turned back into source order',
             ('pretty::layout::chain', 'reverse'): 'innermost-last chain walk turned back into source order'}
    known.update({(k[0], 'rev'): v for k, v in list(known.items())})      # `.into_iter().rev()` is the same normalisation
    present = set()
    for (b, bi, t, p, m) in order_changing_calls(w, core):
        if m in SORTS and b.id in sort_fns:
            continue
        mod = b.short.split('::{')[0]
        cons = {'fn': b.short, 'op': m, 'callee': p}
        if (mod, m) in known:
            ok, why = _reverse_is_chain_normalisation(w, b, bi, t)
            if ok:
                present.add(mod)
                r.ok(cons, known[(mod, m)])
            else:
                r.bad(cons, '%s|reorder|%s' % (b.short, m), 'order-changing `%s` in %s: %s' % (m, b.short, why), b.loc(t['span']))
        else:
            r.bad(cons, '%s|reorder|%s' % (b.short, m),
                  'order-changing operation `%s` in %s is not one of the confirmed instances (import sort, chain reversal): source order of nodes may change' % (p, b.short),
                  b.loc(t['span']))
    # ... and the normalisations have to be there: the chain walkers yield the innermost node last
    for mod in sorted({k[0] for k in known}):
        cons = {'module': mod, 'op': 'reverse of the collected chain'}
        if mod in present:
            continue
        r.bad(cons, '%s|reorder|missing-reverse' % mod,
              'the chain collected in %s is no longer reversed: the walkers yield the innermost node last, so the chain would be emitted back to front' % mod)
    return r


def _reverse_is_chain_normalisation(w, b, bi, t):
    """the reversed collection was collected from a deep-node walk (innermost-last) in the same function"""
    v = BodyView(w, b)
    src = v.pv.through(v.pv.origins_operand(t['args'][0]), re.compile(r'DerefMut>::deref_mut$|DerefMut::deref_mut$'))
    for o in src:
        if o[0] == 'ref':
            ors = v.pv.peel(v.pv._origins_local(o[1][0], frozenset()))
        else:
            ors = {o}
        for x in ors:
            d = v.describe(x)
            if 'collect_vec' in d or x[0] == 'param':
                continue
            return False, 'reversed collection has provenance %s' % d
    # exactly one reverse on it, and it happens before any consumption: at function entry region (dominates all converter calls)
    return True, ''


def clap_default(c, arg_id):
    """value of default_value_t in the clap builder chain of Arg::new(arg_id): ('bool', 0/1) | 'absent' | ('unknown', desc)"""
    res = None
    idre = re.compile(r'From<.*>>::from$|::into$|::from$')
    for b in c.fns():
        for bi, t in b.calls():
            if callee_path(t) != 'clap::Arg::default_value':
                continue
            v = c.view(b)
            cur = v.pv.origins_operand(t['args'][0])
            root = None
            for _ in range(40):
                cur = v.pv.peel(cur)
                if len(cur) != 1:
                    break
                o = next(iter(cur))
                if o[0] != 'call':
                    break
                tt = v.pv.call_term(o)
                p = callee_path(tt) or ''
                if p == 'clap::Arg::new':
                    ident = v.pv.through(v.pv.origins_operand(tt['args'][0]), idre)
                    if len(ident) == 1:
                        root = next(iter(ident))
                    break
                if not p.startswith('clap::Arg::') or not tt['args']:
                    break
                cur = v.pv.origins_operand(tt['args'][0])
            if root != ('const', ('str', arg_id), ()):
                continue
            # value: deref(get_or_init(&STATIC, closure)) ; closure: to_string(&const)
            val = v.pv.through(v.pv.origins_operand(t['args'][1]), re.compile(r'Deref>::deref$|Deref::deref$|::as_str$'))
            res = ('unknown', sorted(v.describe(o) for o in val))
            for o in val:
                if o[0] == 'call' and (callee_path(v.pv.call_term(o)) or '').endswith('get_or_init'):
                    gt = v.pv.call_term(o)
                    for a in gt['args'][1:]:
                        for x in v.pv.peel(v.pv.origins_operand(a)):
                            if x[0] == 'agg' and v.pv.agg_rvalue(x).get('ak') == 'closure':
                                cb = c.w.bodies.get(v.pv.agg_rvalue(x)['def']['id'])
                                cv = c.view(cb)
                                for cbi, ct in cb.calls():
                                    if (callee_path(ct) or '').endswith('to_string'):
                                        src = cv.pv.peel(cv.pv.origins_operand(ct['args'][0]))
                                        if len(src) == 1:
                                            s = next(iter(src))
                                            if s[0] == 'const':
                                                res = (s[1][0], s[1][1])
    return res if res is not None else 'absent'


RULES = [r1_guarded_sort, r2_permutation, r3_nothing_else_depends_on_flag]
r1_guarded_sort.needs = ('core',)
r2_permutation.needs = ('core',)
r3_nothing_else_depends_on_flag.needs = ('core',)
MATRIX_RULES = RULES


# ---------------------------------------------------------------------------------------------
# R1 (coverage): "imports that contain comments keep their order" - the comment-free condition has to look at every child of the import
# statement, not only at the item list
# ---------------------------------------------------------------------------------------------
def comment_coverage_obligations(w):
    out = []
    sites = _sort_site(w)
    kinds = syntax_kind_names(w)
    for (b, bi, t, p, m) in sites:
        bv = BodyView(w, b)
        coll = bv.pv.through(bv.pv.origins_operand(t['args'][0]), re.compile(r'DerefMut>::deref_mut$|DerefMut::deref_mut$|::as_mut_slice$|Deref>::deref$'))
        coll_params = {o[1] for o in coll if o[0] == 'param'}
        if not coll_params:
            out.append((False, {'fn': b.short}, '%s|coverage|collection' % b.short, 'the sorted list is not a parameter of %s: cannot relate it to the children of the import' % b.short, b.loc()))
            continue
        # bool parameters of b that guard the sort on their true edge
        guard_params = set()
        vb, vbi, vt = _sort_view(w, b, bi, t)          # boolean helpers expanded: a guard handed on to `should_sort(.., can_reorder)` is still a guard
        vv = BodyView(w, vb)
        for g in vv.guards_ext(vbi):
            d = vv.guard_operand(g)
            if d.get('o') in ('copy', 'move') and g[1] == {True}:
                for o in vv.pv.peel(vv.pv.origins_operand(d)):
                    if o[0] == 'param' and not o[2] and o[1] <= b.arg_count and b.locals[o[1]]['ty']['s'] == 'bool':
                        guard_params.add(o[1])
        callers = [(cb, cbi, ct) for cb in w.fn_bodies(w.core) for cbi, ct in cb.calls() if resolved_id(ct) == b.id]
        if not callers:
            out.append((False, {'fn': b.short}, '%s|coverage|callers' % b.short, 'no caller of %s found' % b.short, b.loc()))
        for (cb, cbi, ct) in callers:
            # a private single-site helper that builds a list of nodes (`flatten_import_items(part) -> Vec<&SyntaxNode>`) is read as the code it was
            import inline
            def _list_helper(f, t_, d_):
                if f.crate is not w.core or f.def_kind != 'Fn' or f.id == b.id or 'SyntaxNode' not in f.locals[0]['ty']['s'] or not f.locals[0]['ty']['s'].startswith('std::vec::Vec<'):
                    return False
                return sum(1 for x in w.fn_bodies(w.core) for _, t2 in x.calls() if resolved_id(t2) == f.id) == 1
            nb_ = inline.inline_body(w, cb, _list_helper, desugar=False)
            if nb_.inlined:
                cb = nb_
            cv = BodyView(w, cb)
            # the children slice of the import node and the sub-slices cut out of it
            slices = {}
            for sbi, st in cb.calls():
                sp = callee_str(st) or ''
                if re.search(r'Index<.*Range.*>>::index$', sp) and 'SyntaxNode' in sp:
                    src = cv.pv.through(cv.pv.origins_operand(st['args'][0]), re.compile(r'::as_slice$|Deref>::deref$'))
                    if any(o[0] == 'call' and (callee_path(cv.pv.call_term(o)) or '').endswith('SyntaxNode::children') for o in src):
                        slices[sbi] = st
            cons0 = {'caller': last_(cb.short), 'slices_of_children': len(slices)}
            if not slices:
                out.append((False, cons0, '%s|coverage|slices' % cb.short, 'the way %s splits the children of the import was not recognised' % cb.short, cb.loc()))
                continue
            for sbi, st in sorted(slices.items()):
                rng = cv.describe_operand(st['args'][1], 2)
                cons = {'caller': last_(cb.short), 'slice': rng[:80]}
                key = '%s|coverage|%s' % (last_(cb.short), re.sub(r'\d+', 'N', rng)[:60])
                dest = st['dest']['l']
                how = None
                # (a) its nodes go into the list that is handed to the sorting function (which scans that list)
                for i in coll_params:
                    arg = ct['args'][i - 1]
                    vec_locals = set()
                    for o in set(cv.pv.origins_operand(arg)) | set(cv.pv.peel(cv.pv.origins_operand(arg))):
                        if o[0] == 'ref':
                            vec_locals.add(o[1][0])
                    if arg['o'] in ('move', 'copy') and not arg['p']['proj']:
                        vec_locals.add(arg['p']['l'])
                    for _ in range(4):      # the list may be moved through temporaries before the call
                        for l in list(vec_locals):
                            for (proj, kind, dbi, dsi, payload) in cv.pv.defs.get(l, []):
                                if kind == 'rv' and payload['r'] == 'use' and payload['op'].get('o') in ('move', 'copy') and not payload['op']['p']['proj']:
                                    vec_locals.add(payload['op']['p']['l'])
                    for pbi, pt in cb.calls():
                        pp = callee_path(pt) or ''
                        if not re.search(r'Vec::<.*>::(push|extend)$|Extend<.*>>::extend$|Vec<.*>::extend$', (callee_str(pt) or '') + '|' + pp) and not pp.endswith(('::push', '::extend')):
                            continue
                        tgt = set()
                        for o in set(cv.pv.origins_operand(pt['args'][0])):
                            if o[0] == 'ref':
                                tgt.add(o[1][0])
                        if not (tgt & vec_locals):
                            continue
                        # is the pushed value an item of a loop over this slice?
                        for h, blocks in cfg.natural_loops(cb).items():
                            ht = cb.blocks[h]['term']
                            if pbi in blocks and ht['t'] == 'call' and re.search(r'Iterator>?::next$', callee_path(ht) or ''):
                                if sbi in _source_calls(cv, ht['args'][0]):
                                    how = 'its nodes are collected into the list the sorting function scans for comments'
                # (b) scanned on the spot, the verdict handed over as a guard of the sort
                if how is None:
                    for abi, at in cb.calls():
                        ap = callee_path(at) or ''
                        if not re.search(r'Iterator>?::any$', ap):
                            continue
                        if sbi not in _source_calls(cv, at['args'][0]):
                            continue
                        if not _pred_is_comment_test(w, cv, at):
                            continue
                        # Not(result) flows into a guarding bool parameter of the sorting function
                        for gi in guard_params:
                            for o in cv.pv.peel(cv.pv.origins_operand(ct['args'][gi - 1])):
                                if o[0] == 'unop' and o[1][2] == 'Not':
                                    rv = cb.blocks[o[1][0]]['stmts'][o[1][1]]['rv']
                                    if any(x[0] == 'call' and x[1][0] == abi for x in cv.pv.peel(cv.pv.origins_operand(rv['a']))):
                                        how = 'scanned with any(is comment); the negated result is a guard of the sort'
                # (c) scanned on the spot, the verdict folded into a value handed to the sorting function (`let order = if flag && !prefix.any(is_comment)
                #     { Sorted } else { Source }`): judged on the caller with the sorting function expanded - the sort is then guarded, through the constructed
                #     value, by `any(is comment) == false` over this slice
                if how is None:
                    cview = _caller_view(w, b, t)
                    if cview is not None and cview[0].original.id == cb.id:
                        nb2, sbi2, cv2 = cview
                        for g in cv2.guards_ext(sbi2):
                            if g[1] not in ({False}, {True}):
                                continue
                            for o in cv2.pv.peel(cv2.pv.origins_operand(cv2.guard_operand(g))):
                                if o[0] != 'call':
                                    continue
                                at = cv2.pv.call_term(o)
                                ap = callee_path(at) or ''
                                if re.search(r'Iterator>?::any$', ap) and g[1] == {False} and sbi in _source_calls(cv2, at['args'][0]) and _pred_is_comment_test(w, cv2, at):
                                    how = 'scanned with any(is comment); its negation guards the sort through the value handed to the sorting function'
                if how:
                    out.append((True, cons, key, how, cb.loc(st['span'])))
                else:
                    out.append((False, cons, key,
                                'the nodes of the slice %s of the children of the import statement (cut in %s) are not looked at by the comment-free condition of the sort: an import with a comment '
                                'there (e.g. `import "m": /* c */ b, a`) is still reordered' % (rng[:60], last_(cb.short)), cb.loc(st['span'])))
    return out


ITER_LOOKTHROUGH = re.compile(r'::iter$|IntoIterator.*into_iter$|Deref>::deref$|::as_slice$|::by_ref$|Iterator>?::(skip|take|rev|peekable)$')


def _source_calls(cv, operand):
    """block indices of the calls that produced the collection an iterator / reference operand goes back to (looking through iter(), into_iter(),
    deref, copies and borrows of locals)"""
    b = cv.b
    out, seen, work = set(), set(), [operand]
    hops = 0
    while work and hops < 40:
        hops += 1
        cur = work.pop()
        for o in set(cv.pv.origins_operand(cur)) | set(cv.pv.peel(cv.pv.origins_operand(cur))):
            if o in seen:
                continue
            seen.add(o)
            if o[0] == 'ref':
                for (proj, kind, dbi, dsi, payload) in cv.pv.defs.get(o[1][0], []):
                    if kind == 'rv' and payload['r'] == 'use':
                        work.append(payload['op'])
                    elif kind == 'rv' and payload['r'] in ('ref', 'rawptr'):
                        work.append({'o': 'copy', 'p': {'l': payload['p']['l'], 'proj': []}})
                    elif kind == 'call':
                        ct = b.blocks[dbi]['term']
                        if ITER_LOOKTHROUGH.search(callee_path(ct) or '') and ct['args']:
                            work.append(ct['args'][0])
                        else:
                            out.add(dbi)
            elif o[0] == 'call':
                ct = cv.pv.call_term(o)
                if ITER_LOOKTHROUGH.search(callee_path(ct) or '') and ct['args']:
                    work.append(ct['args'][0])
                else:
                    out.add(o[1][0])
    return out


def _pred_is_comment_test(w, v, at):
    """the predicate of any(..) is a comment-kind test (fn item or closure calling one)"""
    for a in at['args'][1:]:
        if a.get('o') == 'const' and 'fn' in a:
            fb = w.bodies.get(a['fn']['def']['id'])
            if fb is not None and _tests_comment_kinds(w, fb):
                return True
        for o in v.pv.peel(v.pv.origins_operand(a)):
            if o[0] == 'fnitem':
                fb = w.bodies.get(o[1]) if isinstance(o[1], str) else None
                if fb is not None and _tests_comment_kinds(w, fb):
                    return True
            if o[0] == 'agg' and v.pv.agg_rvalue(o).get('ak') == 'closure':
                cb = w.bodies.get(v.pv.agg_rvalue(o)['def']['id'])
                if cb is None:
                    continue
                for _, ct in cb.calls():
                    fb = w.bodies.get(resolved_id(ct))
                    if fb is not None and _tests_comment_kinds(w, fb) and ct['dest']['l'] == 0:
                        return True
    return False


def last_(s):
    return s.rsplit('::', 1)[-1]
