"""Shared E2 (kindflow) layer for the token-conservation properties C01, C04, C06, C08, C09, C10."""
import re
import grammar
from sites import SiteEvaluator, outcome_summary
from framework import AnchorMissing

COMMENT = {'LineComment', 'BlockComment'}
SPACEY = {'Space'}
EXPRS = set(grammar.CODE_EXPR) | set(grammar.MATH_EXPR) | set(grammar.MARKUP_EXPR)

_CACHE = {}


def site_table(w):
    key = w.facts_dir
    if key not in _CACHE:
        se = SiteEvaluator(w)
        tab = se.evaluate_all()
        if se.errors:
            raise AnchorMissing('kindflow could not evaluate %s (path limit): the dispatch code changed shape beyond the evaluator\'s bounds' % se.errors[:3])
        if len(tab) < 40:
            raise AnchorMissing('only %d dispatch converters found (expected >= 40)' % len(tab))
        _CACHE[key] = tab
    return _CACHE[key]


class Group:
    """all evaluated paths of one (converter, parent kind, loop, child kind[+linebreak])"""

    def __init__(self, fn, parent, loop, depth, item):
        self.fn, self.parent, self.loop, self.depth, self.item = fn, parent, loop, depth, item
        self.paths = []

    @property
    def kind(self):
        return self.item.kind

    def summaries(self):
        return {outcome_summary(o) for o in self.paths}

    def emits_child(self, o):
        """the child itself reaches an accumulator on this path: converted / own text / comment / queued as a node"""
        for a in outcome_summary(o):
            if a.endswith('(child)') or a.startswith('owntext(child'):
                return True
        for n in o.pushed:
            if not isinstance(n, tuple) and getattr(n, 'kind', None) == self.item.kind and getattr(n, 'tag', None) == self.item.tag:
                return True
        return False

    def literal(self, o):
        return [a[4:-1] for a in outcome_summary(o) if a.startswith('lit(')]

    def short(self):
        return '%s[%s] loop %s:%d child %s' % (self.fn.rsplit('::', 1)[-1], self.parent, self.loop[0].rsplit('::', 1)[-1], self.loop[1], _item(self.item))


def _item(n):
    return n.kind + ('' if n.linebreak is None else ('+nl' if n.linebreak else '-nl'))


def groups(w):
    out = {}
    for (fn, parent), outs in site_table(w).items():
        for o in outs or []:
            key = (fn, parent, o.loop, len(o.items), o.item.kind, o.item.linebreak)
            g = out.get(key)
            if g is None:
                g = out[key] = Group(fn, parent, o.loop, len(o.items), o.item)
            g.paths.append(o)
    return list(out.values())


def loops_of(gs):
    """{(fn, parent, loop): [groups]}"""
    out = {}
    for g in gs:
        out.setdefault((g.fn, g.parent, g.loop), []).append(g)
    return out


def emitting_loops(gs):
    """loops in which at least one child kind reaches an accumulator (the others only scan)"""
    out = {}
    for key, lg in loops_of(gs).items():
        if any(any(g.emits_child(o) for o in g.paths) for g in lg):
            out[key] = lg
    return out


# ---------------------------------------------------------------------------------------------------------------------
# tables (each entry: reason).  Keys use the last path segment of converter / loop function.
# ---------------------------------------------------------------------------------------------------------------------
# delimiters / separators that the converter re-creates from constants instead of copying the token
REGENERATED = {
    'convert_array': {'LeftParen': '(', 'RightParen': ')', 'Comma': ',', 'Hash': '#'},
    'convert_dict': {'LeftParen': '(', 'RightParen': ')', 'Comma': ',', 'Colon': '(:'},
    'convert_destructuring': {'LeftParen': '(', 'RightParen': ')', 'Comma': ','},
    'convert_params': {'LeftParen': '(', 'RightParen': ')', 'Comma': ','},
    'convert_parenthesized_impl': {'LeftParen': '(', 'RightParen': ')'},
    'convert_parenthesized_args': {'LeftParen': '(', 'RightParen': ')', 'Comma': ','},
    'convert_parenthesized_args_as_list': {'LeftParen': '(', 'RightParen': ')', 'Comma': ','},
    'convert_args_in_math': {'LeftParen': '(', 'RightParen': ')'},
    'convert_code_block': {'LeftBrace': '{', 'RightBrace': '}'},
    'convert_import': {'LeftParen': '(', 'RightParen': ')', 'Comma': ','},
    'convert_equation': {'Dollar': '$'},
    'convert_binary_chain': {'Not': 'not in'},
}
# kinds a loop may legitimately not emit, with the Typst-semantics reason
DROPPABLE = [
    # (converter, loop, kinds, reason)
    ('convert_code_block', 'process_iterable_impl', {'Semicolon'},
     'a `;` only separates statements; every statement is put on its own line (FoldStyle::Never unless there is at most one expression)'),
    ('convert_code_block', 'convert_code_block', {'Code'}, 'the Code node is replaced by its children (flattening loop)'),
    ('convert_import', 'convert_import', {'ImportItems'}, 'the ImportItems node is replaced by its children (flattening loop)'),
    ('convert_equation', 'process_iterable_impl', {'Math'}, 'an empty Math node has nothing to print (the closure returns None only when it has no children)'),
    ('convert_list_item_like', 'convert_flow_like_iter', {'Markup'}, 'an empty Markup body has nothing to print (guard: children().next().is_some())'),
    ('convert_dot_chain', 'process', EXPRS | {'MathIdent', 'Args'},
     'chain layout: the left operand / callee of every chain node is itself the next node of the resolved chain, converted by the outer loop or the fallback converter'),
    ('convert_binary_chain', 'process', EXPRS,
     'chain layout: the left operand of a same-precedence Binary is itself the next node of the resolved chain; the right operand is emitted once the operator was seen'),
]
# loop-carried state machines: a kind may be skipped on the paths where the machine is in another state, but must be emitted on some path
STATEFUL = [
    ('convert_closure', 'convert_flow_like_iter', 'LookAhead { Name, Params, Body } decides which child is expected next'),
    ('convert_for_loop', 'convert_flow_like_iter', 'LookAhead { Pattern, Iterable, Body } decides which child is expected next'),
    ('convert_binary_chain', 'process', 'seen_op separates the left operand (next chain node) from the right operand'),
    ('convert_dot_chain', 'process', 'seen_op separates the target (next chain node) from the field name'),
]


def last(s):
    return s.rsplit('::', 1)[-1]


def regenerated(g):
    return REGENERATED.get(last(g.fn), {}).get(g.kind)


def droppable(g):
    for (c, l, kinds, why) in DROPPABLE:
        if last(g.fn) == c and last(g.loop[0]) == l and g.kind in kinds:
            return why
    return None


def stateful(g):
    for (c, l, why) in STATEFUL:
        if last(g.fn) == c and last(g.loop[0]) == l:
            return why
    return None


def const_pool(w, fn_short):
    """string literals of a converter, its closures and the layout stylists"""
    out = set()
    from world import iter_operands_stmt
    for b in w.fn_bodies(w.core):
        owner = b
        while owner.def_kind == 'Closure' and owner.parent in w.bodies:
            owner = w.bodies[owner.parent]
        if not (owner.short == fn_short or owner.short.startswith('pretty::layout::')):
            continue
        for blk in b.blocks:
            ops = []
            for s in blk['stmts']:
                ops += list(iter_operands_stmt(s))
            if blk['term']['t'] == 'call':
                ops += blk['term']['args']
            for o in ops:
                if o['o'] == 'const' and 'str' in o:
                    out.add(o['str'])
    return out
