"""Shared E2 (kindflow) layer for the token-conservation properties C01, C04, C06, C08, C09, C10."""
import re
import grammar
from sites import SiteEvaluator, outcome_summary, run_function
from kindflow import Node, Doc
from framework import AnchorMissing

COMMENT = {'LineComment', 'BlockComment'}
SPACEY = {'Space'}
EXPRS = set(grammar.CODE_EXPR) | set(grammar.MATH_EXPR) | set(grammar.MARKUP_EXPR)

_CACHE = {}


def site_table(w):
    key = w.facts_dir
    if key not in _CACHE:
        se = SiteEvaluator(w)
        tab = se.evaluate_all()
        if se.errors:
            raise AnchorMissing('kindflow could not evaluate %s (path limit): the dispatch code changed shape beyond the evaluator\'s bounds' % se.errors[:3])
        if len(tab) < 40:
            raise AnchorMissing('only %d dispatch converters found (expected >= 40)' % len(tab))
        _CACHE[key] = tab
    return _CACHE[key]


class Group:
    """all evaluated paths of one (converter, parent kind, loop, child kind[+linebreak])"""

    def __init__(self, fn, parent, loop, depth, item):
        self.fn, self.parent, self.loop, self.depth, self.item = fn, parent, loop, depth, item
        self.paths = []

    @property
    def kind(self):
        return self.item.kind

    def summaries(self):
        return {outcome_summary(o) for o in self.paths}

    def emits_child(self, o):
        """the child itself reaches an accumulator on this path: converted / own text / comment / queued as a node"""
        for a in outcome_summary(o):
            if a.endswith('(child)') or a.startswith('owntext(child'):
                return True
        for n in o.pushed:
            if not isinstance(n, tuple) and getattr(n, 'kind', None) == self.item.kind and getattr(n, 'tag', None) == self.item.tag:
                return True
        return False

    def literal(self, o):
        return [a[4:-1] for a in outcome_summary(o) if a.startswith('lit(')]

    def short(self):
        return '%s[%s] loop %s:%d child %s' % (self.fn.rsplit('::', 1)[-1], self.parent, self.loop[0].rsplit('::', 1)[-1], self.loop[1], _item(self.item))


def _item(n):
    return n.kind + ('' if n.linebreak is None else ('+nl' if n.linebreak else '-nl'))


def groups(w):
    out = {}
    for (fn, parent), outs in site_table(w).items():
        for o in outs or []:
            key = (fn, parent, o.loop, len(o.items), o.item.kind, o.item.linebreak)
            g = out.get(key)
            if g is None:
                g = out[key] = Group(fn, parent, o.loop, len(o.items), o.item)
            g.paths.append(o)
    return list(out.values())


def loops_of(gs):
    """{(fn, parent, loop): [groups]}"""
    out = {}
    for g in gs:
        out.setdefault((g.fn, g.parent, g.loop), []).append(g)
    return out


def emitting_loops(gs):
    """loops in which at least one child kind reaches an accumulator (the others only scan)"""
    out = {}
    for key, lg in loops_of(gs).items():
        if any(any(g.emits_child(o) for o in g.paths) for g in lg):
            out[key] = lg
    return out


# ---------------------------------------------------------------------------------------------------------------------
# tables (each entry: reason).  Keys use the last path segment of converter / loop function.
# ---------------------------------------------------------------------------------------------------------------------
# delimiters / separators that the converter re-creates from constants instead of copying the token
REGENERATED = {
    'convert_array': {'LeftParen': '(', 'RightParen': ')', 'Comma': ',', 'Hash': '#'},
    'convert_dict': {'LeftParen': '(', 'RightParen': ')', 'Comma': ',', 'Colon': '(:'},
    'convert_destructuring': {'LeftParen': '(', 'RightParen': ')', 'Comma': ','},
    'convert_params': {'LeftParen': '(', 'RightParen': ')', 'Comma': ','},
    'convert_parenthesized_impl': {'LeftParen': '(', 'RightParen': ')'},
    'convert_parenthesized_args': {'LeftParen': '(', 'RightParen': ')', 'Comma': ','},
    'convert_parenthesized_args_as_list': {'LeftParen': '(', 'RightParen': ')', 'Comma': ','},
    'convert_args_in_math': {'LeftParen': '(', 'RightParen': ')'},
    'convert_code_block': {'LeftBrace': '{', 'RightBrace': '}'},
    'convert_import': {'LeftParen': '(', 'RightParen': ')', 'Comma': ','},
    'convert_equation': {'Dollar': '$'},
    'convert_binary_chain': {'Not': 'not in'},
}
# kinds a loop may legitimately not emit, with the Typst-semantics reason
DROPPABLE = [
    # (converter, loop, kinds, reason)
    ('convert_code_block', 'process_iterable_impl', {'Semicolon'},
     'a `;` only separates statements; every statement is put on its own line (FoldStyle::Never unless there is at most one expression)'),
    ('convert_code_block', 'convert_code_block', {'Code'}, 'the Code node is replaced by its children (flattening loop)'),
    ('convert_import', 'convert_import', {'ImportItems'}, 'the ImportItems node is replaced by its children (flattening loop)'),
    ('convert_equation', 'process_iterable_impl', {'Math'}, 'an empty Math node has nothing to print (the closure returns None only when it has no children)'),
    ('convert_list_item_like', 'convert_flow_like_iter', {'Markup'}, 'an empty Markup body has nothing to print (guard: children().next().is_some())'),
    ('convert_dot_chain', 'process', EXPRS | {'MathIdent', 'Args'},
     'chain layout: the left operand / callee of every chain node is itself the next node of the resolved chain, converted by the outer loop or the fallback converter'),
    ('convert_binary_chain', 'process', EXPRS,
     'chain layout: the left operand of a same-precedence Binary is itself the next node of the resolved chain; the right operand is emitted once the operator was seen'),
]
# loop-carried state machines: a kind may be skipped on the paths where the machine is in another state, but must be emitted on some path
STATEFUL = [
    ('convert_closure', 'convert_flow_like_iter', 'LookAhead { Name, Params, Body } decides which child is expected next'),
    ('convert_for_loop', 'convert_flow_like_iter', 'LookAhead { Pattern, Iterable, Body } decides which child is expected next'),
    ('convert_binary_chain', 'process', 'seen_op separates the left operand (next chain node) from the right operand'),
    ('convert_dot_chain', 'process', 'seen_op separates the target (next chain node) from the field name'),
]


def last(s):
    return s.rsplit('::', 1)[-1]


def regenerated(g):
    return REGENERATED.get(last(g.fn), {}).get(g.kind)


def droppable(g, w=None):
    for (c, l, kinds, why) in DROPPABLE:
        if last(g.fn) == c and last(g.loop[0]) == l and g.kind in kinds:
            return why
    # a flattening loop moved into a helper of the converter (`flatten_import_items(part) -> Vec<&SyntaxNode>`): the wrapper node is replaced by its
    # children there - accepted when that function hands `children()` of a node to `extend` (the evidence the table entry stands for)
    if w is not None:
        for (c, l, kinds, why) in DROPPABLE:
            if 'flattening loop' in why and last(g.fn) == c and g.kind in kinds and last(g.loop[0]) != l:
                from mirfacts import callee_path
                from paths import BodyView
                fb = [b for b in w.fn_bodies(w.core) if b.short == g.loop[0]]
                for b in fb:
                    v = BodyView(w, b)
                    for bi, t in b.calls():
                        if re.search(r'::extend$', callee_path(t) or '') and len(t['args']) > 1:
                            if any(o[0] == 'call' and (callee_path(v.pv.call_term(o)) or '').endswith('SyntaxNode::children') for o in v.pv.peel(v.pv.origins_operand(t['args'][1]))):
                                return why + ' [the loop sits in %s, which extends the list with the children of the wrapper]' % last(g.loop[0])
    return None


def stateful(g):
    for (c, l, why) in STATEFUL:
        if last(g.fn) == c and last(g.loop[0]) == l:
            return why
    return None


def const_pool(w, fn_short):
    """string literals of a converter, its closures and the layout stylists"""
    out = set()
    from world import iter_operands_stmt
    for b in w.fn_bodies(w.core):
        owner = b
        while owner.def_kind == 'Closure' and owner.parent in w.bodies:
            owner = w.bodies[owner.parent]
        if not (owner.short == fn_short or owner.short.startswith('pretty::layout::')):
            continue
        for blk in b.blocks:
            ops = []
            for s in blk['stmts']:
                ops += list(iter_operands_stmt(s))
            if blk['term']['t'] == 'call':
                ops += blk['term']['args']
            for o in ops:
                if o['o'] == 'const' and 'str' in o:
                    out.add(o['str'])
    return out


# ---------------------------------------------------------------------------------------------
# the text predicates the evaluator treats as given: "has a line break" / "number of line breaks" of a whitespace token
# ---------------------------------------------------------------------------------------------
def _is_newline_fn(op):
    return op.get('o') == 'const' and 'fn' in op and op['fn']['def']['path'].endswith('is_newline') and op['fn']['def'].get('crate') == 'typst_syntax'


def _newline_test_closure(w, cid):
    """closure(&char | char) -> bool is exactly `typst_syntax::is_newline(c)`"""
    from mirfacts import callee_path
    cb = w.bodies.get(cid)
    if cb is None:
        return False
    calls = [t for _, t in cb.calls()]
    if len(calls) != 1 or not (callee_path(calls[0]) or '').endswith('typst_syntax::is_newline'):
        return False
    t = calls[0]
    return t['dest']['l'] == 0 and not t['dest']['proj'] and not any(blk['term']['t'] == 'switch' for blk in cb.blocks)


def linebreak_predicate_obligations(w):
    """[(ok, construct, key, why, loc)]: StrExt::has_linebreak(s) <=> s contains a character the Typst lexer treats as a line break;
    StrExt::count_linebreaks(s) = number of line breaks the lexer sees in s (a CR LF pair is one).
    The whitespace rules abstract a Space / Parbreak / RawTrimmed token by "contains a line break or not" and emit count_linebreaks() hard breaks; the
    tokens themselves are cut by the lexer, so the predicate has to be the lexer's own notion of a line break: with a narrower one (LF only) the
    line break that ends a line comment is not recognised (`// c<CR>b`), with a per-character count CR LF doubles every blank line."""
    from paths import BodyView
    from mirfacts import callee_path
    from prov import strip_casts
    out = []
    core = w.core
    fns = {}
    for b in w.fn_bodies(core):
        if b.def_kind != 'Closure' and (b.j.get('impl_trait') or {}).get('path', '').endswith('StrExt') and b.short.rsplit('::', 1)[-1] in ('has_linebreak', 'count_linebreaks'):
            fns[b.short.rsplit('::', 1)[-1]] = b
    for name in ('has_linebreak', 'count_linebreaks'):
        b = fns.get(name)
        cons = {'fn': 'StrExt::' + name}
        if b is None:
            out.append((False, cons, 'strext|%s|missing' % name, 'text predicate StrExt::%s not found (the evaluator models it by name): fail closed' % name, None))
            continue
        v = BodyView(w, b)
        selfish = lambda a: all(o[0] == 'param' and o[1] == 1 for o in v.pv.peel(v.pv.origins_operand(a)))

        def newline_char_count(operand):
            """operand = self.chars().filter(|c| is_newline(c)).count()"""
            for o in v.pv.peel(v.pv.origins_operand(operand)):
                o = strip_casts(o)
                if o[0] != 'call' or not re.search(r'Iterator>?::count$', callee_path(v.pv.call_term(o)) or ''):
                    return False
                for x in v.pv.peel(v.pv.origins_operand(v.pv.call_term(o)['args'][0])):
                    if x[0] != 'call':
                        return False
                    ft = v.pv.call_term(x)
                    if not re.search(r'Iterator>?::filter$', callee_path(ft) or ''):
                        return False
                    src = v.pv.peel(v.pv.origins_operand(ft['args'][0]))
                    if not (src and all(y[0] == 'call' and (callee_path(v.pv.call_term(y)) or '').endswith('<impl str>::chars') and selfish(v.pv.call_term(y)['args'][0]) for y in src)):
                        return False
                    cid = None
                    for y in v.pv.peel(v.pv.origins_operand(ft['args'][1])):
                        if y[0] == 'agg' and v.pv.agg_rvalue(y).get('ak') == 'closure':
                            cid = v.pv.agg_rvalue(y)['def']['id']
                    if not (cid and _newline_test_closure(w, cid)):
                        return False
            return True

        def crlf_pair_count(operand):
            """operand = self.matches("\r\n").count()"""
            for o in v.pv.peel(v.pv.origins_operand(operand)):
                o = strip_casts(o)
                if o[0] != 'call' or not re.search(r'Iterator>?::count$', callee_path(v.pv.call_term(o)) or ''):
                    return False
                for x in v.pv.peel(v.pv.origins_operand(v.pv.call_term(o)['args'][0])):
                    if x[0] != 'call':
                        return False
                    mt = v.pv.call_term(x)
                    if not ((callee_path(mt) or '').endswith('<impl str>::matches') and selfish(mt['args'][0]) and mt['args'][1].get('o') == 'const'
                            and mt['args'][1].get('s') in ('"\\r\\n"', "'\\r\\n'", '"\r\n"', "'\r\n'")):
                        return False
            return True
        ors = {strip_casts(o) for o in v.pv.peel(v.pv._origins_local(0, frozenset()))}
        ok, why = False, 'returns %s' % sorted(v.describe(o) for o in ors)
        def newline_pred(op):
            if _is_newline_fn(op):
                return True
            for y in v.pv.peel(v.pv.origins_operand(op)):
                if y[0] == 'agg' and v.pv.agg_rvalue(y).get('ak') == 'closure' and _newline_test_closure(w, v.pv.agg_rvalue(y)['def']['id']):
                    return True
            return False

        def self_chars(op):
            src = v.pv.peel(v.pv.origins_operand(op))
            return bool(src) and all(y[0] == 'call' and not y[2] and (callee_path(v.pv.call_term(y)) or '').endswith('<impl str>::chars') and selfish(v.pv.call_term(y)['args'][0])
                                     for y in src)
        if name == 'has_linebreak':
            if len(ors) == 1 and list(ors)[0][0] == 'call':
                t = v.pv.call_term(list(ors)[0])
                p_ = callee_path(t) or ''
                if p_.endswith('<impl str>::contains') and selfish(t['args'][0]) and newline_pred(t['args'][1]):
                    ok, why = True, 'self.contains(typst_syntax::is_newline)'
                elif re.search(r'Iterator>?::any$', p_) and self_chars(t['args'][0]) and newline_pred(t['args'][1]):
                    ok, why = True, 'self.chars().any(typst_syntax::is_newline)'
                elif re.search(r'Option::<T>::is_some$', p_):
                    # self.find(is_newline).is_some() / self.chars().find|position(is_newline).is_some()
                    inner = v.pv.peel(v.pv.origins_operand(t['args'][0]))
                    if len(inner) == 1 and next(iter(inner))[0] == 'call':
                        it = v.pv.call_term(next(iter(inner)))
                        ip_ = callee_path(it) or ''
                        if ip_.endswith('<impl str>::find') and selfish(it['args'][0]) and newline_pred(it['args'][1]):
                            ok, why = True, 'self.find(typst_syntax::is_newline).is_some()'
                        elif re.search(r'Iterator>?::(find|position)$', ip_) and self_chars(it['args'][0]) and newline_pred(it['args'][1]):
                            ok, why = True, 'self.chars().%s(typst_syntax::is_newline).is_some()' % ip_.rsplit('::', 1)[-1]
                elif (callee_path(t) or '').endswith('<impl str>::contains'):
                    why = 'self.contains(%s): not the lexer\'s set of line-break characters' % t['args'][1].get('s', '?')
        else:
            if len(ors) == 1 and list(ors)[0][0] == 'binop' and list(ors)[0][1][2].startswith('Sub'):
                o = list(ors)[0]
                rv = b.blocks[o[1][0]]['stmts'][o[1][1]]['rv']
                if newline_char_count(rv['a']) and crlf_pair_count(rv['b']):
                    ok, why = True, 'count of line-break characters minus count of CR LF pairs'
                else:
                    why = 'a difference, but not (line-break characters) - (CR LF pairs)'
            elif len(ors) == 1 and list(ors)[0][0] == 'call':
                why = 'a plain per-character count (%s): a CR LF pair would count twice, or only some of the lexer\'s line-break characters are counted' % v.describe(list(ors)[0])
        if ok:
            out.append((True, cons, 'strext|%s' % name, why, b.loc()))
        else:
            out.append((False, cons, 'strext|%s' % name,
                        'StrExt::%s is not "%s" (%s): line breaks copied from a space / paragraph break would differ from the line breaks of the source, or the line break that '
                        'ends a line comment would not be recognised' % (name, 'contains a line break of the Typst lexer' if name == 'has_linebreak' else
                                                                     'number of line breaks of the Typst lexer, CR LF counted once', why), b.loc()))
    return out


_SPACE_LEAF = {}


def space_leaf_ok(w, fn_short):
    """does the function map a Space node to exactly hardline (its text has a line break) / space (it has none)?  Any helper the converters hand a
    Space node to is judged this way (the Space leaf converter of R3, or an extracted helper taking the untyped node), whatever its name."""
    key = (id(w), fn_short)
    if key in _SPACE_LEAF:
        return _SPACE_LEAF[key]
    _SPACE_LEAF[key] = False
    bs = [b for b in w.fn_bodies(w.core) if b.short == fn_short and b.def_kind != 'Closure']
    if len(bs) != 1:
        return False
    b = bs[0]
    ps = [j for j in range(1, b.arg_count + 1) if grammar.ast_type_name(b.locals[j]['ty']) or b.locals[j]['ty']['s'].startswith('&typst_syntax::SyntaxNode')
          or b.locals[j]['ty']['s'].startswith("&'a typst_syntax::SyntaxNode")]
    if len(ps) != 1:
        return False
    for nl, want in ((True, 'hardline'), (False, 'space')):
        try:
            res = run_function(w, b, {ps[0]: Node('parent', 'Space', nl)}, converter_pred=lambda tb: False)
        except Exception:
            return False
        outs = set()
        for result, events, assumed in res or []:
            outs.add(tuple(a[0] for a in result.flat() if a[0] != 'nil') if isinstance(result, Doc) else ('?',))
        if outs != {(want,)}:
            return False
    _SPACE_LEAF[key] = True
    return True


# ---------------------------------------------------------------------------------------------------------------------
# who may filter the children: the dispatch rules feed every child kind the grammar allows to a loop; an iterator adaptor that drops
# elements *before* the loop (seed C09/4B: `filter_map` removing the Space in front of a comment) is invisible to them.  Every
# element-dropping adaptor applied to an iterator over syntax nodes in the printer is an instance; the confirmed ones are listed with
# the reason why what they drop is not lost.
# ---------------------------------------------------------------------------------------------------------------------
DROPPING_ADAPTOR = re.compile(r'Iterator>?::(filter|filter_map|skip_while|take_while|step_by|map_while|skip|take)$')
FILTER_ALLOWED = {
    # (function, adaptor): (count, reason)
    ('get_parenthesized_args_untyped', 'skip_while'): (1, 'children up to the opening parenthesis: the callee / trailing-block part is handled by the caller'),
    ('get_parenthesized_args_untyped', 'take_while'): (1, 'children from the closing parenthesis on: trailing content blocks are converted by convert_additional_args'),
    ('get_parenthesized_args', 'filter_map'): (1, 'typed view of the arguments, used for decisions (table layout, single-argument forms) - the emitting loops iterate the untyped children'),
    ('convert_additional_args', 'skip_while'): (1, 'skips the parenthesised part, which convert_parenthesized_args has emitted'),
    ('convert_additional_args', 'filter_map'): (1, 'after the closing parenthesis the grammar admits content blocks only (no trivia between trailing blocks)'),
    ('convert_parenthesized_args', 'filter'): (1, 'counts the arguments (a decision, nothing is emitted from it)'),
    ('convert_parenthesized_args', 'take'): (1, 'the arguments inside the parentheses (decision: is there exactly one and of which kind)'),
    ('convert_parenthesized_args::{closure#0}', 'take_while'): (1, 'children before the closing parenthesis (the iterator the list stylist walks; trailing blocks follow separately)'),
    ('convert_table', 'filter_map'): (2, 'named / positional arguments of a table the predicate found comment-free and spread-free (is_formatable_table, judged by C06.R2)'),
    ('convert_table', 'take_while'): (1, 'children before the closing parenthesis'),
    ('convert_table', 'filter'): (1, 'positional arguments (cells); named ones are emitted by the loop before'),
    ('try_convert_dot_chain_plain', 'skip'): (1, 'length estimate of the chain (a decision; the emitting loop walks the whole chain)'),
}


REDUCERS = re.compile(r'Iterator>?::(count|any|all|position|rposition|sum|product|min|max|min_by_key|max_by_key|is_sorted)$|ExactSizeIterator>?::len$')
PASS_ADAPTORS = re.compile(r'Iterator>?::(map|rev|enumerate|peekable|by_ref|copied|cloned|filter|filter_map|skip_while|take_while|skip|take|step_by|map_while|inspect|chain|zip)$')


def _only_reduced(b, t, depth=0):
    """the iterator this adaptor call returns is consumed by a pure reducer (count / any / all / position / sum ..), possibly through further adaptors:
    a decision is computed from it, no element of it reaches an emitting loop"""
    from mirfacts import callee_path
    if t['dest']['proj'] or depth > 5:
        return False
    return _local_only_reduced(b, t['dest']['l'], depth)


def _local_only_reduced(b, d, depth):
    from mirfacts import callee_path
    uses = []
    for blk in b.blocks:
        if blk['cleanup']:
            continue
        for st in blk['stmts']:
            if st['s'] == 'assign' and _mentions_local(st['rv'], d):
                uses.append(('stmt', st))
        tt = blk['term']
        if tt['t'] == 'call' and any(a.get('o') in ('move', 'copy') and a['p']['l'] == d for a in tt['args']):
            uses.append(('call', tt))
        elif tt['t'] not in ('call', 'drop') and _mentions_local(tt, d):
            uses.append(('term', tt))
    if len(uses) == 1 and uses[0][0] == 'stmt' and depth <= 5:
        st = uses[0][1]
        rv = st['rv']
        # `&mut it` (reducers like `all` / `any` / `position` take the iterator by reference) or a plain move into another local
        if not st['p']['proj'] and ((rv.get('r') == 'ref' and not rv['p']['proj'] and rv['p']['l'] == d) or
                                    (rv.get('r') == 'use' and rv['op'].get('o') in ('move', 'copy') and not rv['op']['p']['proj'] and rv['op']['p']['l'] == d)):
            return _local_only_reduced(b, st['p']['l'], depth + 1)
        return False
    if len(uses) != 1 or uses[0][0] != 'call':
        return False
    ut = uses[0][1]
    p = callee_path(ut) or ''
    if not (ut['args'] and ut['args'][0].get('o') in ('move', 'copy') and ut['args'][0]['p']['l'] == d):
        return False
    if REDUCERS.search(p):
        return True
    if PASS_ADAPTORS.search(p):
        return _only_reduced(b, ut, depth + 1)
    return False


def _mentions_local(x, l):
    if isinstance(x, dict):
        if 'l' in x and 'proj' in x and isinstance(x['l'], int):
            return x['l'] == l
        return any(_mentions_local(v, l) for k, v in x.items() if k not in ('span', 'ty', 'callee', 'fn_span'))
    if isinstance(x, list):
        return any(_mentions_local(v, l) for v in x)
    return False


def filter_obligations(w):
    """[(ok, construct, key, why, loc)] for every element-dropping adaptor over syntax nodes in the printer"""
    from mirfacts import callee_path
    out = []
    seen = {}
    decisions = []
    for b in w.fn_bodies(w.core):
        if not (b.short.startswith('pretty::') or b.short.startswith('partial::')):
            continue
        for bi, t in b.calls():
            p = callee_path(t) or ''
            if not DROPPING_ADAPTOR.search(p) or not t['args'] or t['args'][0]['o'] not in ('copy', 'move'):
                continue
            ty = b.locals[t['args'][0]['p']['l']]['ty']['s']
            if not ('SyntaxNode' in ty or 'typst_syntax::ast::' in ty or 'LinkedNode' in ty):
                continue
            fn = re.sub(r'^.*\{impl#\d+\}::', '', b.short).rsplit('::', 1)[-1] if '{closure' not in b.short else \
                re.sub(r'^.*\{impl#\d+\}::', '', b.short).split('::', 0)[0]
            fn = re.sub(r'^pretty::\w+::', '', fn)
            ad = p.rsplit('::', 1)[-1]
            if _only_reduced(b, t):
                decisions.append((b, t, ad))
                continue
            seen.setdefault((fn, ad), []).append((b, t))
    for b, t, ad in decisions:
        out.append((True, {'fn': b.short, 'adaptor': ad, 'line_hint': t['span']['line']}, 'filter|decision', 'the filtered iterator is only counted / tested (a decision; nothing is printed from it)', b.loc(t['span'])))
    for (fn, ad), insts in sorted(seen.items()):
        allowed = FILTER_ALLOWED.get((fn, ad))
        for n, (b, t) in enumerate(insts):
            cons = {'fn': b.short, 'adaptor': ad, 'line_hint': t['span']['line']}
            if allowed and n < allowed[0]:
                out.append((True, cons, 'filter|%s|%s' % (fn, ad), 'confirmed: ' + allowed[1], b.loc(t['span'])))
            else:
                out.append((False, cons, 'filter|%s|%s' % (fn, ad),
                            '%s applies `%s` to an iterator over syntax nodes: the elements it removes never reach the loop that prints the children, so the '
                            'per-kind dispatch rules cannot see them being dropped (a token, comment or space can disappear here); not one of the confirmed filters'
                            % (b.short, ad), b.loc(t['span'])))
    return out


# ---------------------------------------------------------------------------------------------------------------------
# an Args node has two parts: the parenthesised list and the trailing content blocks.  The filters above drop the second part from the loops that
# print the first one on the ground that `convert_additional_args` prints it; that ground is an obligation of every caller (found F21: the set rule
# called the parenthesised-part converter alone, `#set text(red)[hello]` lost `[hello]`).
# ---------------------------------------------------------------------------------------------------------------------
def args_pairing_obligations(w):
    """[(ok, construct, key, why, loc)]: every call of a converter of the parenthesised part of an Args node is followed, on every path to the
    caller's return, by a call of the converter of the trailing content blocks.  Roles: the trailing-part converter is the function over an Args
    node that applies skip_while + filter_map(cast ContentBlock) to its children; parenthesised-part converters are the functions over an Args /
    FuncCall node that cut the children at the closing parenthesis (take_while, directly or through the shared helper) and return a document."""
    import cfg
    from mirfacts import callee_path, resolved_id
    core = w.core
    fns = [b for b in w.fn_bodies(core) if b.def_kind != 'Closure' and b.short.startswith('pretty::')]

    def own(b):
        return [b] + [x for x in w.fn_bodies(core) if x.def_kind == 'Closure' and x.id.startswith(b.id + '::{closure')]

    def has_call(b, rx):
        return any(re.search(rx, callee_path(t) or '') for x in own(b) for _, t in x.calls())

    def node_param(b, names):
        return any(any(n in b.locals[i]['ty']['s'] for n in names) for i in range(1, b.arg_count + 1))
    returns_doc = lambda b: b.locals[0]['ty']['s'].startswith('pretty::DocBuilder')
    cutters = {b.id for b in fns if not returns_doc(b) and has_call(b, r'Iterator>?::take_while$') and has_call(b, r'Iterator>?::skip_while$')}     # get_parenthesized_args_untyped
    trailing = [b for b in fns if returns_doc(b) and node_param(b, ['ast::Args']) and has_call(b, r'Iterator>?::skip_while$') and not has_call(b, r'Iterator>?::take_while$')]
    paren = [b for b in fns if returns_doc(b) and node_param(b, ['ast::Args', 'ast::FuncCall']) and b not in trailing and
             (has_call(b, r'Iterator>?::take_while$') or any(resolved_id(t) in cutters for x in own(b) for _, t in x.calls()))]
    out = []
    if len(trailing) != 1 or not paren:
        out.append((False, {'trailing_part_converters': [last(b.short) for b in trailing], 'parenthesised_part_converters': [last(b.short) for b in paren]},
                    'args-pairing|anchor', 'the converters of the two parts of an Args node were not found by role', None))
        return out
    tid = trailing[0].id
    pids = {b.id for b in paren}
    for cb in w.fn_bodies(core):
        if cb.id in pids or cb.id == tid:
            continue
        pcalls = [(bi, t) for bi, t in cb.calls() if resolved_id(t) in pids]
        if not pcalls:
            continue
        tblocks = {bi for bi, t in cb.calls() if resolved_id(t) == tid}
        # a closure hands its result to the function that created it: the pairing is then the creator's duty only if the creator calls the trailing part
        for bi, t in pcalls:
            cons = {'caller': cb.short, 'converts_parenthesised_part_with': last(w.bodies[resolved_id(t)].short)}
            rets = [x for x, blk in enumerate(cb.blocks) if blk['term']['t'] == 'return']
            reach = cfg.reachable_avoiding(cb, bi, tblocks) if hasattr(cfg, 'reachable_avoiding') else None
            if reach is None:
                # plain forward reachability that does not enter the blocks calling the trailing-part converter
                seen, work = set(), [bi]
                while work:
                    x = work.pop()
                    if x in seen or (x in tblocks and x != bi):
                        continue
                    seen.add(x)
                    for s_ in cb.succs(x):
                        if not cb.blocks[s_]['cleanup']:
                            work.append(s_)
                reach = seen
            if any(r_ in reach for r_ in rets):
                out.append((False, cons, 'args-pairing|%s|%s' % (last(cb.short) if cb.def_kind != 'Closure' else cb.short.split('::')[-2] + '::closure', cons['converts_parenthesised_part_with']),
                            '%s converts the parenthesised part of an Args node with %s but can return without converting the trailing content blocks of the same node (%s): '
                            '`f(x)[body]` would lose `[body]`' % (cb.short, cons['converts_parenthesised_part_with'], last(trailing[0].short)), cb.loc(t['span'])))
            else:
                out.append((True, cons, 'args-pairing|ok', 'every path to the return also converts the trailing content blocks', cb.loc(t['span'])))
    return out
