"""C17 - formatting is a pure, deterministic function of text and configuration.

Static argument (E1): within typstyle-core's own code there is nothing through which one call can
influence another or the environment can influence a call.
"""
import effects, selftest
from framework import RuleResult, AnchorMissing

META = {
    'explanation': 'Effect analysis over the resolved call graph of typstyle-core (MIR of /repo, every call terminator '
                   'resolved with Instance::try_resolve; closures and fn items are call-graph nodes): the effect closure of every '
                   'publicly reachable function contains no ambient-authority callee (fs/io/env/time/process/thread/net/sync/random), '
                   'no callee from a crate or std module outside the frozen table, no hash-order-dependent container operation; the crate '
                   'defines no static mut / interior-mutable static / thread_local / unsafe block; all formatter state is constructed '
                   'inside each public entry and the public handle holds only Config; Typstyle and Config are Send+Sync. '
                   'A positive-example crate (selftest/c17_positive.rs) containing each forbidden construct is analysed by the same '
                   'detectors on every run and must be flagged.',
    'decides': 'no cross-call or environment influence through typstyle-core\'s own code, for every schedule and history',
    'does_not_decide': 'determinism of typst_syntax::parse and pretty::render themselves (dependency boundary; typst-syntax keeps a '
                       'global FileId interner and typst_timing scopes that do not feed back into parse results)',
    'trusted_base': ['rustc name/type resolution and MIR construction', 'typst_syntax::Source::detached/parse is a deterministic function of the text',
                     'pretty::Doc::pretty is a deterministic function of the document and width',
                     'frozen effect table of std modules and dependency crates (lib/effects.py)'],
}


def public_roots(w, crate):
    roots = []
    for b in w.fn_bodies(crate):
        j = b.j
        if b.def_kind in ('Fn', 'AssocFn') and j.get('effective_pub'):
            if 'serde' in (j.get('impl_trait') or {}).get('path', ''):
                continue      # Serialize / Deserialize of Config (feature `serde`): drives the caller's (de)serializer, not part of formatting
            roots.append(b)
    return roots


def _closure(w, crate):
    roots = public_roots(w, crate)
    if len(roots) < 5:
        raise AnchorMissing('public API of %s (found %d public functions)' % (crate.name, len(roots)))
    reach = w.reachable([b.id for b in roots])
    return roots, reach


def r1_no_ambient(w):
    r = RuleResult('C17.R1', 'no ambient-authority or unknown-crate callee in the effect closure of the public API', floor=150)
    roots, reach = _closure(w, w.core)
    for bid in sorted(reach):
        b = w.bodies[bid]
        for (bi, t, path, c) in w.extern_calls(bid):
            if c is not None and c.get('def', {}).get('local'):
                continue       # local tuple-struct / variant constructor used as a function
            if path == '<indirect>':
                r.bad({'fn': b.short, 'callee': path}, '%s|indirect' % b.short,
                      'call through a function pointer: callee unknown, effect closure cannot be established',
                      b.loc(t['span'] if t else None))
                continue
            cls, why = effects.classify_ambient(path)
            cons = {'fn': b.short, 'callee': path}
            if cls == 'pure':
                r.ok(cons, 'pure by table')
            else:
                r.bad(cons, '%s|%s' % (b.short, path),
                      '%s callee `%s` (%s) reachable from the public API via %s' % (cls, path, why, b.short),
                      b.loc(t['span'] if t else None))
    # positive example
    pw = selftest.positive_world('c17_positive')
    pc = pw.crates['c17_positive']
    flagged = False
    for (bi, t, path, c) in pw.extern_calls(pc.one('::ambient').id):
        if effects.classify_ambient(path)[0] == 'ambient':
            flagged = True
    if not flagged:
        r.bad({'selftest': 'c17_positive::ambient'}, 'selftest', 'detector failed to flag std::fs call in the positive example')
    else:
        r.note('positive example flagged (std::fs::read_to_string in selftest/c17_positive.rs)')
    r.note('%d public roots, %d bodies in the effect closure' % (len(roots), len(reach)))
    return r


def _shared_state_findings(crate):
    out = []
    for s in crate.items['statics']:
        reasons = []
        if s['mutable']:
            reasons.append('static mut')
        if not s['freeze']:
            reasons.append('interior mutability (type is not Freeze: contains UnsafeCell)')
        if s['thread_local']:
            reasons.append('thread_local')
        if reasons:
            out.append(('static', s['def']['path'], ', '.join(reasons), '%s:%s' % (s['span']['file'], s['span']['line'])))
    for u in crate.items['unsafe_blocks']:
        out.append(('unsafe', u['owner'].split('::', 1)[-1], 'unsafe block', '%s:%s' % (u['span']['file'], u['span']['line'])))
    for b in crate.bodies.values():
        for blk in b.blocks:
            for s in blk['stmts']:
                if s['s'] == 'assign' and s['rv']['r'] == 'tls':
                    out.append(('tls-ref', b.short, 'thread-local access', b.loc(s['span'])))
    return out


def r2_no_shared_state(w):
    r = RuleResult('C17.R2', 'no static mut / interior-mutable static / thread_local / unsafe block in typstyle-core', floor=1)
    n_static = len(w.core.items['statics'])
    for (kind, name, why, loc) in _shared_state_findings(w.core):
        r.bad({'item': name, 'kind': kind}, '%s|%s' % (kind, name), '%s `%s`: %s' % (kind, name, why), loc)
    for s in w.core.items['statics']:
        if not (s['mutable'] or not s['freeze'] or s['thread_local']):
            r.ok({'static': s['def']['path']}, 'immutable Freeze static')
    r.ok({'crate': 'typstyle_core', 'statics': n_static, 'unsafe_blocks': len(w.core.items['unsafe_blocks'])},
         'crate-wide scan of statics, thread-local references and unsafe blocks')
    pw = selftest.positive_world('c17_positive')
    found = _shared_state_findings(pw.crates['c17_positive'])
    kinds = {(k, n.split('::')[0] if k == 'static' else k) for (k, n, _, _) in found}
    names = {n for (k, n, _, _) in found}
    need = ['COUNTER', 'SHARED']
    missing = [n for n in need if n not in names]
    if missing or not any(k == 'unsafe' and 'unsafe_block' in n for (k, n, _, _) in found) \
            or not any('thread_local' in why for (_, _, why, _) in found):
        r.bad({'selftest': 'c17_positive'}, 'selftest', 'detector missed constructs in the positive example: %s / %s' % (missing, found))
    else:
        r.note('positive example: %d constructs flagged (static mut, Mutex static, thread_local!, unsafe block)' % len(found))
    return r


def r3_no_hash_order(w):
    r = RuleResult('C17.R3', 'hash containers are only queried (get/insert/entry/contains), never iterated', floor=3)
    roots, reach = _closure(w, w.core)
    for bid in sorted(reach):
        b = w.bodies[bid]
        for (bi, t, path, c) in w.extern_calls(bid):
            if not effects.HASH_ONLY.search(path):
                # also catch iteration through a generic adaptor whose Self type is a hash container
                s = (c or {}).get('s', '') if c else ''
                if not effects.HASH_ONLY.search(s):
                    continue
                path = s
            cons = {'fn': b.short, 'callee': path}
            if effects.is_hash_order(path):
                r.bad(cons, '%s|%s' % (b.short, effects.method_name(path)),
                      'hash-order-dependent operation `%s` in %s: iteration order of a hash container can leak into the output' % (path, b.short),
                      b.loc(t['span'] if t else None))
            else:
                r.ok(cons, 'order-independent query')
    pw = selftest.positive_world('c17_positive')
    pc = pw.crates['c17_positive']
    hit = any(effects.is_hash_order(p) or effects.is_hash_order((c or {}).get('s', '')) for (_, _, p, c) in pw.extern_calls(pc.one('::hash_order').id))
    if not hit:
        r.bad({'selftest': 'c17_positive::hash_order'}, 'selftest', 'detector failed to flag HashMap::keys in the positive example')
    else:
        r.note('positive example flagged (HashMap::keys)')
    return r


PLAIN = ('usize', 'bool', 'u8', 'u16', 'u32', 'u64', 'isize', 'i32', 'i64', 'f32', 'f64', 'char')


def r4_per_call_state(w):
    r = RuleResult('C17.R4', 'formatter state is per call: handle holds only Config; entries take self/&self; state built inside each entry', floor=6)
    core = w.core
    adts = {a['path']: a for a in core.adts.values() if a['local']}
    if 'Typstyle' not in adts or 'config::Config' not in adts and 'Config' not in adts:
        raise AnchorMissing('struct Typstyle / Config')
    cfg = adts.get('config::Config') or adts.get('Config')
    for f in cfg['variants'][0]['fields']:
        cons = {'struct': 'Config', 'field': f['name'], 'ty': f['ty']['s']}
        if f['ty']['s'] in PLAIN:
            r.ok(cons, 'plain scalar')
        else:
            r.bad(cons, 'Config.%s' % f['name'], 'Config field `%s: %s` is not a plain scalar: configuration could carry state' % (f['name'], f['ty']['s']))
    for f in adts['Typstyle']['variants'][0]['fields']:
        cons = {'struct': 'Typstyle', 'field': f['name'], 'ty': f['ty']['s']}
        if f['ty']['s'] in ('config::Config', 'Config') or f['ty']['s'] in PLAIN:
            r.ok(cons, 'configuration only')
        else:
            r.bad(cons, 'Typstyle.%s' % f['name'],
                  'Typstyle field `%s: %s` outlives a call: per-call state (attribute store, printer, arena) or a cache stored in the handle '
                  'lets one call observe another' % (f['name'], f['ty']['s']))
    # public methods of Typstyle: receiver not &mut
    n_entries = 0
    for b in core.bodies.values():
        if b.promoted is not None or b.def_kind != 'AssocFn':
            continue
        j = b.j
        if (j.get('impl_self') or {}).get('s') != 'Typstyle' or not j.get('effective_pub') or j.get('impl_trait'):
            continue
        if b.arg_count == 0:
            continue
        recv = b.locals[1]['ty']
        cons = {'method': b.short, 'receiver': recv['s']}
        if recv['k'] == 'ref' and recv['mut'] and recv['t']['s'] == 'Typstyle':
            r.bad(cons, 'recv|%s' % b.short, 'public method %s takes &mut self: the handle can be mutated by a call' % b.short, b.loc())
        else:
            r.ok(cons, 'self / &self / no receiver')
        # entries that return text must build their own AttrStore + PrettyPrinter
        ret = b.locals[0]['ty']['s']
        if 'String' in ret and b.short.split('::')[-1] != 'new':
            n_entries += 1
    # every text-returning public entry reaches AttrStore::new and PrettyPrinter::new, which builds Arena::new
    text_entries = [b for b in core.bodies.values() if b.promoted is None and b.def_kind in ('Fn', 'AssocFn')
                    and b.j.get('effective_pub') and 'String' in b.locals[0]['ty']['s']
                    and not b.j.get('impl_trait')]
    if len(text_entries) < 4:
        raise AnchorMissing('text-returning public entries (found %d)' % len(text_entries))
    attr_new = [b for b in core.find('::new') if (b.j.get('impl_self') or {}).get('s') == 'attr::AttrStore']
    pp_new = [b for b in core.find('::new') if (b.j.get('impl_self') or {}).get('s', '').startswith('pretty::PrettyPrinter')]
    if not attr_new or not pp_new:
        raise AnchorMissing('AttrStore::new / PrettyPrinter::new')
    arena_built = any('pretty::Arena' in p and p.endswith('::new') for (_, _, p, _) in w.extern_calls(pp_new[0].id))
    for b in text_entries:
        reach = w.reachable([b.id])
        cons = {'entry': b.short}
        if attr_new[0].id in reach and pp_new[0].id in reach and arena_built:
            r.ok(cons, 'constructs AttrStore, PrettyPrinter and Arena inside the call')
        else:
            r.bad(cons, 'percall|%s' % b.short,
                  'public entry %s does not construct its own AttrStore/PrettyPrinter/Arena (reach: attr=%s printer=%s arena=%s)'
                  % (b.short, attr_new[0].id in reach, pp_new[0].id in reach, arena_built), b.loc())
    # PrettyPrinter / AttrStore fields: no reference-counted or shared handles
    for name in ('pretty::PrettyPrinter', 'attr::AttrStore'):
        a = adts.get(name)
        if not a:
            raise AnchorMissing(name)
        for f in a['variants'][0]['fields']:
            cons = {'struct': name, 'field': f['name'], 'ty': f['ty']['s']}
            bad = [x for x in ('Rc<', 'Arc<', 'Mutex', 'RwLock', 'static', 'OnceLock', 'LazyLock', 'Atomic') if x in f['ty']['s']]
            if bad:
                r.bad(cons, '%s.%s' % (name, f['name']), 'per-call structure holds a shared handle: %s' % f['ty']['s'])
            else:
                r.ok(cons, 'owned value')
    return r


def r5_send_sync(w):
    r = RuleResult('C17.R5', 'Typstyle and Config are Send + Sync (auto-trait facts computed by rustc)', floor=2)
    seen = 0
    for a in w.core.items['adts_local']:
        if a['def']['path'] in ('Typstyle', 'config::Config', 'Config'):
            seen += 1
            cons = {'type': a['def']['path'], 'send': a['send'], 'sync': a['sync']}
            if a['send'] is True and a['sync'] is True:
                r.ok(cons, 'Send + Sync')
            else:
                r.bad(cons, a['def']['path'], '%s is not Send+Sync (send=%s sync=%s): concurrent use does not even type-check or relies on interior state'
                      % (a['def']['path'], a['send'], a['sync']))
    if seen < 2:
        raise AnchorMissing('Typstyle / Config in the local ADT table')
    return r


def r6_cli_prints_the_result(w):
    """= C16.R3: across processes the result a user sees is what the CLI writes to standard output.  It depends on nothing but text and options
    only if the library result reaches stdout through `print!("{}")` unfiltered - an environment-sensitive stream (seed C17/4A: `anstream::stdout()`
    strips escape sequences depending on NO_COLOR / CLICOLOR_FORCE / whether stdout is a terminal) makes identical calls in two processes differ."""
    from rules import c16
    rs = c16.r3_bytes_out(w)
    rs.rule = 'C17.R6'
    for f in rs.findings:
        f.rule = 'C17.R6'
        f.key = f.key.replace('C16.R3|', 'C17.R6|', 1)
    return rs


def r7_inputs_do_not_affect_each_other(w):
    """= C15.R4: in one run of the command line tool the result for an input does not depend on the other inputs - a batch loop that a failing
    input can end (seed C17/6B: `map_while(Result::ok)`) leaves the inputs after it unprocessed"""
    from rules import c15
    rs = c15.r4_error_isolation(w)
    rs.rule = 'C17.R7'
    for f in rs.findings:
        f.rule = 'C17.R7'
        f.key = f.key.replace('C15.R4|', 'C17.R7|', 1)
    return rs


RULES = [r1_no_ambient, r2_no_shared_state, r3_no_hash_order, r4_per_call_state, r5_send_sync, r6_cli_prints_the_result, r7_inputs_do_not_affect_each_other]
for _f in RULES[:5]:
    _f.needs = ('core',)
r6_cli_prints_the_result.needs = ('cli', 'core')
r7_inputs_do_not_affect_each_other.needs = ('cli',)
MATRIX_RULES = RULES
