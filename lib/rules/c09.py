"""C09 - whitespace in math is neither created, removed nor converted (statically decidable clauses)."""
import re
import grammar
import kindflow as kf
import sites as sm
from sites import run_function, context, atoms_of
from kindflow import Agg, Node, Const, Doc, Text, TOP
from framework import RuleResult, AnchorMissing
from rules import e2
from rules.e2 import last

META = {
    'explanation': 'E2 abstract evaluation of the math converters: (R1) in the Math loop and in the body loop of MathDelimited a Space child without a line '
                   'break yields exactly a space, one with a line break exactly a hard line (not a soft break that a flat group renders as a space), never '
                   'nothing, and no other child kind produces a whitespace document; the first/last inner Space of a MathDelimited (peeled off with '
                   'split_first/split_last) is mapped by its own text; (R2) every converter call made from the Math converter receives a break-suppressed '
                   'context; (R3) the Space leaf converter yields exactly {hardline | space} selected by the line-break test on the node\'s own text.',
    'decides': 'no math atom pair gains or loses a separating whitespace token in the non-exempt constructs, a line break there stays a line break, optional breaks '
               'are suppressed below Math',
    'does_not_decide': 'the equation-edge logic (block vs inline padding), the exempt constructs (call arguments, attach/frac/root), anything inside the renderer',
    'trusted_base': ['grammar tables (typst-syntax 0.13.1)', 'pretty: space/hardline render as one blank / one line break', 'rustc MIR construction'],
}

WS = {'space', 'hardline', 'line', 'line_', 'softline', 'softline_'}


space_leaf_ok = e2.space_leaf_ok


def _conv_space(w, o):
    return any(a[0] == 'conv' and isinstance(a[2], Node) and a[2].tag.startswith('child') and space_leaf_ok(w, a[1]) for a in o.atoms)


def r1_math_space_mapping(w):
    r = RuleResult('C09.R1', 'Math / MathDelimited: Space-nl -> space, Space+nl -> hardline, never dropped; nothing else creates whitespace', floor=55)
    gs = e2.groups(w)
    sites = [g for g in gs if (last(g.fn) == 'convert_math' and last(g.loop[0]) == 'convert_math') or
             (last(g.fn) == 'convert_math_delimited' and last(g.loop[0]) == 'convert_flow_like_iter')]
    if len(sites) < 40:
        raise AnchorMissing('Math / MathDelimited dispatch groups (found %d)' % len(sites))
    for g in sites:
        cons = {'converter': last(g.fn), 'parent': g.parent, 'child': e2._item(g.item), 'paths': len(g.paths)}
        if g.kind == 'Space':
            want = 'hardline' if g.item.linebreak else 'space'
            bad = None
            for o in g.paths:
                made = list(o.made)
                if _conv_space(w, o) and not [m for m in made if m in WS]:
                    continue       # delegated to the Space leaf converter (R3)
                ws = [m for m in made if m in WS]
                if ws == [want]:
                    continue
                bad = 'maps it to %s' % (ws or 'nothing')
                break
            if bad:
                r.bad(cons, '%s|%s|Space%s' % (last(g.fn), g.parent, '+nl' if g.item.linebreak else '-nl'),
                      '%s: a math Space %s a line break %s, expected exactly %s: %s' % (
                          last(g.fn), 'with' if g.item.linebreak else 'without', bad, want,
                          'a soft break is rendered as a plain space when the enclosing group fits' if g.item.linebreak else 'juxtaposition and spacing mean different things in math'))
            else:
                r.ok(cons, 'exactly %s' % want)
        else:
            # no whitespace document may be created for other kinds (flow helper's own space_before/after logic is excluded for MathDelimited: items are tight)
            extra = set()
            for o in g.paths:
                for m in o.made:
                    if m in WS:
                        extra.add(m)
            if g.kind in ('LineComment', 'BlockComment', 'Hash'):
                continue      # comments are spaced by the flow helper; `#` precedes embedded code
            if extra:
                r.bad(cons, '%s|%s|%s|creates-space' % (last(g.fn), g.parent, g.kind),
                      '%s creates whitespace (%s) while emitting a %s child: two math atoms that were adjacent in the source would be separated' % (last(g.fn), sorted(extra), g.kind))
            else:
                r.ok(cons, 'no whitespace created')
    # peeled edge spaces of MathDelimited
    bs = [b for b in w.core.find('::convert_math_delimited') if b.def_kind != 'Closure']
    if len(bs) != 1:
        raise AnchorMissing('convert_math_delimited')
    b = bs[0]
    cands = [Node('peel', 'Space', True), Node('peel', 'Space', False), Node('peel', 'Math', None), None]

    def peel(interp, m, f, t, which):
        return cands
    ip_res = _run_with_peel(w, b, peel)
    if ip_res is None:
        r.bad({'converter': 'convert_math_delimited'}, 'convert_math_delimited|peel|not-evaluated', 'edge-space handling of convert_math_delimited could not be evaluated', b.loc())
        return r
    # per complete path: the peeled first / last child, and the whitespace documents of the RETURNED document in order (an edge Space handed to a
    # helper that satisfies the Space-leaf contract counts as the whitespace that helper yields)
    def want_of(item):
        if isinstance(item, Node) and item.kind == 'Space':
            return 'hardline' if item.linebreak else 'space'
        return None
    seen = {}
    for events, result in ip_res:
        peels = [(e[1], e[2]) for e in events if e[0] == 'peel']
        if not isinstance(result, Doc):
            continue
        got = []
        for a in result.flat():
            if a[0] in WS:
                got.append(a[0])
            elif a[0] == 'conv' and isinstance(a[2], Node) and a[2].tag == 'peel' and a[2].kind == 'Space':
                got.append(want_of(a[2]) if space_leaf_ok(w, a[1]) else 'conv:%s' % last(a[1]))
        want = [x for x in (want_of(it) for _w, it in peels) if x]
        for (which, it) in peels:
            seen.setdefault((which, repr(it)), []).append((tuple(want), tuple(got), tuple((w_, repr(i_)) for w_, i_ in peels)))
    if len(seen) < 6:
        r.bad({'converter': 'convert_math_delimited', 'peels': len(seen)}, 'convert_math_delimited|peel|anchor', 'split_first/split_last handling not found (%d cases)' % len(seen), b.loc())
    for (which, item), cases in sorted(seen.items()):
        bad = [(wnt, got, pl) for (wnt, got, pl) in cases if wnt != got]
        cons = {'converter': 'convert_math_delimited', 'edge': which, 'item': item, 'paths': len(cases)}
        if not bad:
            r.ok(cons, 'edge whitespace copied from the token\'s own text (returned document has exactly the whitespace of the peeled edge children, in order)')
        else:
            wnt, got, pl = bad[0]
            r.bad(cons, 'convert_math_delimited|peel|%s|%s' % (which, item),
                  'convert_math_delimited with edge children %s returns a document whose whitespace is %s, expected %s: the space / line break at the inner edge of the delimiters '
                  'would be created, removed or converted' % ([x[1] for x in pl], list(got), list(wnt)), b.loc())
    # children may be removed only where the per-kind rules can see it: no element-dropping adaptor in front of a loop over syntax nodes
    for ok, cons, key, why, loc in e2.filter_obligations(w):
        (r.ok(cons, why) if ok else r.bad(cons, key, why, loc))
    return r


def _run_with_peel(w, b, peel):
    ip = kf.Interp(w, max_depth=12, max_paths=4000, max_steps=200000)
    ip.no_inline = lambda tb: 'context::{impl#' in tb.short or tb.short.startswith('attr::') or 'get_fold_style' in tb.short
    ip.peel_cb = peel
    ip.dedupe_loops = False
    ip.loop_items_cb = lambda i_, m, f, t: []
    m = kf.Machine()
    cells = {i: kf.Cell('p%d' % i) for i in range(1, b.arg_count + 1)}
    for i in range(1, b.arg_count + 1):
        if grammar.ast_type_name(b.locals[i]['ty']):
            cells[i].val = Node('parent', 'MathDelimited')
    m.frames.append(kf.Frame(b, cells))
    try:
        res = ip.run(m)
    except kf.PathLimit:
        return None
    return [(r_.events, r_.result) for r_ in res if hasattr(r_, 'result')]


def r2_breaks_suppressed_below_math(w):
    r = RuleResult('C09.R2', 'every converter call made from the Math converter receives a break-suppressed context', floor=3)
    bs = [b for b in w.core.find('::convert_math') if b.def_kind != 'Closure']
    if len(bs) != 1:
        raise AnchorMissing('convert_math')
    b = bs[0]
    items = [Node('child', k) for k in ('MathText', 'FuncCall', 'MathDelimited', 'Ident', 'Equation')]
    ip = kf.Interp(w, max_depth=12, max_paths=2000, max_steps=100000)
    ip.loop_items_cb = lambda i_, m, f, t: items
    m = kf.Machine()
    cells = {i: kf.Cell('p%d' % i) for i in range(1, b.arg_count + 1)}
    for i in range(1, b.arg_count + 1):
        if grammar.ast_type_name(b.locals[i]['ty']):
            cells[i].val = Node('parent', 'Math')
        if b.locals[i]['ty']['s'].endswith('context::Context'):
            cells[i].val = context(None, False)
    m.frames.append(kf.Frame(b, cells))
    res = ip.run(m)
    n = 0
    for r_ in res:
        if not r_.iter:
            continue
        for e in r_.events[r_.iter[-1]['ev_start']:]:
            if e[0] == 'convert' and isinstance(e[2], Node) and e[2].tag == 'child':
                n += 1
                cons = {'converter': 'convert_math', 'calls': last(e[1]), 'child': e[2].kind, 'break_suppressed': e[4]}
                if e[4] is True:
                    r.ok(cons, 'suppressed')
                else:
                    r.bad(cons, 'convert_math|ctx|%s' % last(e[1]),
                          'convert_math passes a context with break_suppressed=%s to %s: optional line breaks could be inserted inside an equation' % (e[4], last(e[1])), b.loc())
    if n < 3:
        raise AnchorMissing('converter calls from convert_math (found %d)' % n)
    return r


def r3_space_leaf(w):
    r = RuleResult('C09.R3', 'the Space leaf converter yields exactly hardline (text has a line break) or space (it has none)', floor=2)
    bs = [b for b in w.core.find('::convert_space') if b.def_kind != 'Closure']
    if len(bs) != 1:
        raise AnchorMissing('convert_space')
    b = bs[0]
    for nl, want in ((True, 'hardline'), (False, 'space')):
        i = [j for j in range(1, b.arg_count + 1) if grammar.ast_type_name(b.locals[j]['ty'])][0]
        res = run_function(w, b, {i: Node('parent', 'Space', nl)}, converter_pred=lambda tb: False)       # helpers it delegates to are evaluated with it
        outs = set()
        for result, events, assumed in res or []:
            outs.add(tuple(a[0] for a in result.flat() if a[0] != 'nil') if isinstance(result, Doc) else ('?',))
        cons = {'converter': 'convert_space', 'linebreak': nl, 'result': sorted(outs)}
        if outs == {(want,)}:
            r.ok(cons, 'exactly %s' % want)
        else:
            r.bad(cons, 'convert_space|%s' % ('nl' if nl else 'no-nl'), 'convert_space maps a Space %s a line break to %s, expected exactly %s' % ('with' if nl else 'without', sorted(outs), want), b.loc())
    for ok, cons, key, why, loc in e2.linebreak_predicate_obligations(w):
        if cons['fn'].endswith('has_linebreak'):
            (r.ok(cons, why) if ok else r.bad(cons, key, why, loc))
    return r


def r4_no_accessor_bypass(w):
    """a complete path through the converter of a Math / MathDelimited node that builds the node's document without walking its children (from the
    typed accessors `open()` / `body()` / `close()`) cannot carry the whitespace tokens between them (seed C09/5B: `( )` answered with open + close).
    Accepted: paths that iterate the children (judged by R1), emit the node's own text, delegate the same node, or emit nothing."""
    from rules import c06
    import sites as sites_mod
    r = RuleResult('C09.R4', 'no complete path through the Math / MathDelimited converters builds the document from typed accessors only', floor=2)
    e2.site_table(w)
    se = sites_mod.SiteEvaluator(w)
    se.evaluate_all()
    emitting = {(loop[0], loop[1]) for (fn_, parent_, loop) in e2.emitting_loops(e2.groups(w))}
    # functions that take the node as a value of an AST enum (`fn convert_frac_operand(ctx, expr: Expr)`) are not sites of the table: evaluated here for
    # the two kinds (the seven dispatchers themselves are judged by C01.R1 and hand the node on)
    import kindflow as kf_
    g_ = grammar.load()
    extra = dict(se.wholes)
    tip = kf_.Interp(w)
    for b in w.fn_bodies(w.core):
        if b.def_kind == 'Closure' or not b.short.startswith('pretty::') or not b.locals[0]['ty']['s'].startswith('pretty::DocBuilder'):
            continue
        for i in range(1, b.arg_count + 1):
            n = grammar.ast_type_name(b.locals[i]['ty'])
            if n and n in g_['variant_of'] and n not in g_['node_types'] and not re.search(r'::(convert_expr|convert_expr_impl|convert_pattern|convert_arg|convert_param|convert_array_item|convert_dict_item|convert_destructuring_item)$', b.short):
                for K in ('Math', 'MathDelimited'):
                    if K in g_['variant_of'][n] and (b.short, K) not in extra:
                        outs, wholes = se.evaluate(b, i, K, max_steps=60000, param_val=tip.typed(n, Node('parent', K)))
                        extra[(b.short, K)] = wholes if outs is not None else None
    # ... and, because a helper may find its way through the children with a *scan* loop and convert a grandchild afterwards (seed C09/5A: the
    # parenthesised operand of a fraction), on complete child sequences from the start: every Space of the sequence is in the returned document
    seq_checked = []
    for (fn, K) in sorted(k_ for k_ in extra if k_ not in se.wholes):
        fb = [b_ for b_ in w.fn_bodies(w.core) if b_.short == fn]
        if not fb:
            continue
        b_ = fb[0]
        pi = [i for i in range(1, b_.arg_count + 1) if grammar.ast_type_name(b_.locals[i]['ty'])][0]
        n_ = grammar.ast_type_name(b_.locals[pi]['ty'])
        for seq in ([Node('child', 'LeftParen'), Node('child', 'Space', False), Node('child', 'Math'), Node('child', 'Space', False), Node('child', 'RightParen'), 'END'],
                    [Node('child', 'Space', False), Node('child', 'Math'), Node('child', 'Space', False), 'END'],      # (the delimiters taken off with next() / next_back())
                    [Node('child', 'MathIdent'), Node('child', 'Space', False), Node('child', 'MathIdent'), 'END']):
            res = sm.evaluate_sequence(w, b_, pi, K, seq, from_start=True, extra={pi: tip.typed(n_, Node('parent', K))})
            want = sum(1 for x in seq if isinstance(x, Node) and x.kind == 'Space')
            cons = {'converter': e2.last(fn), 'parent': K, 'sequence': ' '.join(x.kind if isinstance(x, Node) else x for x in seq)}
            worst = None
            for item in res or []:
                if not (len(item) > 3 and item[3] and item[3][0] == 'ended' and isinstance(item[3][1], Doc)):
                    continue
                flat = item[3][1].flat()
                if any(a[0] == 'conv' and isinstance(a[2], Node) and a[2].tag == 'parent' for a in flat) or \
                        any(a[0] == 'text' and isinstance(a[1], Text) and a[1].node.tag == 'parent' for a in flat):
                    continue          # the node itself is handed on / emitted verbatim
                if not any(a[0] in ('conv', 'text') for a in flat):
                    continue
                got = sum(1 for a in flat if a[0] in ('space', 'hardline') or (a[0] == 'conv' and isinstance(a[2], Node) and a[2].kind == 'Space'))
                if got < want and (worst is None or got < worst):
                    worst = got
            seq_checked.append(cons)
            if worst is not None:
                r.bad(cons, '%s|%s|sequence-space' % (e2.last(fn), K),
                      '%s returns, for the children <%s> of a %s node, a document with %d of their %d whitespace tokens: spaces between math atoms are removed'
                      % (e2.last(fn), cons['sequence'], K, worst, want))
            else:
                r.ok(cons, 'the whitespace tokens of the sequence are in the returned document (or the node is handed on)')
    for (fn, parent), wholes in sorted(extra.items()):
        if parent not in ('Math', 'MathDelimited'):
            continue
        cons = {'converter': e2.last(fn), 'parent': parent}
        if wholes is None:
            r.bad(cons, '%s|%s|not-evaluated' % (e2.last(fn), parent), '%s could not be evaluated within bounds' % fn)
            continue
        bad = None
        for wh in wholes:
            # loops the path went through count only if something is emitted from them (a scan that only inspects the children - seed C09/5A:
            # `grouped_operand_body` - walks nothing into the document)
            walked = [p_ for p_ in (wh.passed or []) if (p_[0], p_[1]) in emitting]
            if walked or not c06._emits_something(wh) or c06._own_text(wh):
                continue
            if any(a[0] == 'conv' and isinstance(a[2], Node) and a[2].tag == 'parent' for a in wh.atoms):
                continue          # hands the same node on
            bad = wh
            break
        if bad is None:
            r.ok(cons, 'every complete path walks the children, delegates the node, emits its own text or nothing')
        else:
            r.bad(cons, '%s|%s|accessor-bypass' % (e2.last(fn), parent),
                  '%s has a path that builds the document of a %s node from typed accessors only (emits %s): whitespace tokens between the accessed children are not '
                  'looked at - `( )` would come out as `()`' % (e2.last(fn), parent, sorted({sites_mod.summarise_atom(a, Node('child', None)) for a in bad.atoms})[:5]))
    return r


RULES = [r1_math_space_mapping, r2_breaks_suppressed_below_math, r3_space_leaf, r4_no_accessor_bypass]
for _f in RULES:
    _f.needs = ('core',)
MATRIX_RULES = [r3_space_leaf]
EXTRA_CONFIGS = ['core-serde']
