"""C14 - check mode is read-only and its exit status is truthful."""
import re
import effects
from prov import strip_casts
from mirfacts import callee_path, resolved_id, resolved_path, callee_str
from framework import RuleResult, AnchorMissing
from rules.cli_common import Cli, CHECK, INPLACE, VIEW
from rules import c15

META = {
    'explanation': 'Finite structural argument over the MIR of crate typstyle: (R1) every call path from main to a file-mutating std API is '
                   'dominated by the check==false edge or by inplace==true, and the clap builder chain of `inplace` carries conflicts_with("check"); '
                   '(R2) every print of formatted or input text is dominated by check==false; (R3) the exit-status algebra is enumerated as truth '
                   'tables by path enumeration over main, Termination::report, BitOrAssign for FormatStatus, the per-input status mapping and the '
                   'construction sites of the Changed variant; (R4) inputs and I/O errors are counted (shared with C15.R3/R4).',
    'decides': 'the read-only guarantee and the status algebra completely (they are finite)',
    'does_not_decide': 'clap\'s own parsing; that "differs from its formatted form" is computed on the right strings beyond provenance (C16); OS-level mtime effects of reads',
    'trusted_base': ['clap derive maps struct fields to argument ids of the same name and enforces conflicts_with', 'std::fs / std::io contracts', 'rustc MIR construction'],
}


# ------------------------------------------------------------------------------------------ R1
def r1_who_may_write(w):
    r = RuleResult('C14.R1', 'every path from main to a file-mutating call is guarded by check==false or inplace==true (clap: inplace conflicts_with check)', floor=4)
    c = Cli(w)
    if not c.writers:
        raise AnchorMissing('no file-mutating call in crate typstyle (write-back helper)')
    unguarded = {}     # body id -> reason chain
    for (b, bi, t, path) in c.writers:
        v = c.view(b)
        cons = {'fn': b.short, 'callee': path}
        if _write_guard(v, bi):
            r.ok(cons, 'guarded in place: %s' % _write_guard(v, bi))
        else:
            unguarded[b.id] = [b.short]
            r.ok(cons, 'unguarded here: guard demanded from every caller')
    work = list(unguarded)
    need_inplace_conflict = False
    while work:
        fid = work.pop()
        callers = c.callers(fid)
        if fid == c.main.id:
            r.bad({'fn': 'main'}, 'main-unguarded', 'a file-mutating call is reachable from main without a check==false / inplace==true guard: ' + ' <- '.join(unguarded[fid]))
            continue
        if not callers:
            # maybe called via closure creation or not at all
            fb = w.bodies[fid]
            if fb.def_kind == 'Closure' and fb.parent:
                par = fb.parent
                if par not in unguarded:
                    unguarded[par] = unguarded[fid] + [w.bodies[par].short]
                    work.append(par)
            continue
        for (cb, bi, t) in callers:
            v = c.view(cb)
            g = _write_guard(v, bi)
            cons = {'fn': cb.short, 'calls': w.bodies[fid].short, 'bb': bi}
            if g:
                if 'inplace' in g:
                    need_inplace_conflict = True
                r.ok(cons, 'guarded by %s' % g)
            else:
                if cb.id not in unguarded:
                    unguarded[cb.id] = unguarded[fid] + [cb.short]
                    work.append(cb.id)
                r.ok(cons, 'not guarded here: guard demanded from every caller of %s' % cb.short)
    # any unguarded function that is main, or a root nobody calls but is reachable from main
    reach = w.reachable([c.main.id])
    for fid, chain in unguarded.items():
        if fid == c.main.id:
            continue
        if fid in reach and not c.callers(fid) and w.bodies[fid].def_kind != 'Closure':
            r.bad({'fn': w.bodies[fid].short}, 'unguarded|%s' % w.bodies[fid].short,
                  'file-mutating path %s is reachable from main but no guarded call site was found' % ' <- '.join(chain))
    if need_inplace_conflict:
        ok, why = _inplace_conflicts_check(w, c)
        cons = {'clap': 'Arg::new("inplace")...conflicts_with("check")'}
        if ok:
            r.ok(cons, why)
        else:
            r.bad(cons, 'clap-conflict', 'a write is guarded only by inplace==true but %s: --check --inplace would write' % why)
    return r


def _write_guard(v, bi):
    for atom, vals, s in v.guards_ext(bi):
        if atom == CHECK and vals == {False}:
            return 'check==false'
    for atom, vals, s in v.guards_ext(bi):
        if atom == INPLACE and vals == {True}:
            return 'inplace==true'
    return None


def _inplace_conflicts_check(w, c):
    chain_re = re.compile(r'^clap_builder::builder::arg::.*|^clap::Arg::|^clap_builder::.*Arg')
    found_any = False
    for b in c.fns():
        for bi, t in b.calls():
            if callee_path(t) != 'clap::Arg::conflicts_with':
                continue
            v = c.view(b)
            arg = v.pv.origins_operand(t['args'][1])
            if arg != {('const', ('str', 'check'), ())}:
                continue
            # receiver chain back to Arg::new(<id>)
            cur = v.pv.origins_operand(t['args'][0])
            for _ in range(40):
                cur = v.pv.peel(cur)
                if len(cur) != 1:
                    break
                o = next(iter(cur))
                if o[0] != 'call':
                    break
                tt = v.pv.call_term(o)
                p = callee_path(tt) or ''
                if p == 'clap::Arg::new':
                    ident = v.pv.through(v.pv.origins_operand(tt['args'][0]), re.compile(r'From<.*>>::from$|::into$|::from$'))
                    if ident == {('const', ('str', 'inplace'), ())}:
                        found_any = True
                    break
                if not p.startswith('clap::Arg::') or not tt['args']:
                    break
                cur = v.pv.origins_operand(tt['args'][0])
    if not found_any:
        return False, 'no clap builder chain Arg::new("inplace") ... conflicts_with("check") exists'
    # `check` must be a declared argument id
    has_check = False
    for b in c.fns():
        for bi, t in b.calls():
            if callee_path(t) == 'clap::Arg::new':
                v = c.view(b)
                ident = v.pv.through(v.pv.origins_operand(t['args'][0]), re.compile(r'From<.*>>::from$|::into$|::from$'))
                if ident == {('const', ('str', 'check'), ())}:
                    has_check = True
    if not has_check:
        return False, 'no clap argument with id "check"'
    return True, 'clap chain found'


# ------------------------------------------------------------------------------------------ R2
def text_prints(c):
    """[(body, bb, term, [(display type, origins of the displayed value)], template bytes)] for std::io::_print/_eprint"""
    out = []
    for b in c.fns():
        for bi, t in b.calls():
            p = callee_path(t) or ''
            if p not in ('std::io::_print', 'std::io::_eprint'):
                continue
            v = c.view(b)
            shown, template = [], None
            for o in v.pv.peel(v.pv.origins_operand(t['args'][0])):
                if o[0] != 'call':
                    continue
                at = v.pv.call_term(o)
                ap = callee_path(at) or ''
                if 'fmt::Arguments' not in ap:
                    continue
                for a in at['args']:
                    for x in v.pv.peel(v.pv.origins_operand(a)):
                        if x[0] == 'agg':
                            rv = v.pv.agg_rvalue(x)
                            for op in rv['ops']:
                                for y in v.pv.peel(v.pv.origins_operand(op)):
                                    if y[0] == 'call':
                                        yt = v.pv.call_term(y)
                                        yp = callee_path(yt) or ''
                                        if 'fmt::rt::Argument' in yp:
                                            shown.append((callee_str(yt), yp.rsplit('::', 1)[-1], v.pv.origins_operand(yt['args'][0])))
                    if a['o'] == 'const' and 'byte_array' in a:
                        template = a['byte_array']
                    else:
                        for x in v.pv.origins_operand(a):
                            pass
                # template may be assigned to a temp first
                if template is None:
                    for a in at['args']:
                        if a['o'] in ('copy', 'move'):
                            l = a['p']['l']
                            for (proj, kind, dbi, dsi, payload) in v.pv.defs.get(l, []):
                                pass
                    template = _find_template(v, at)
            out.append((b, bi, t, shown, template))
    return out


def _find_template(v, at):
    """the &[u8; N] template constant reaching fmt::Arguments::new, through temporaries"""
    b = v.b
    seen = set()
    work = [a for a in at['args']]
    while work:
        a = work.pop()
        if a['o'] == 'const':
            if 'byte_array' in a:
                return a['byte_array']
            if 'str' in a:
                return [ord(ch) for ch in a['str']]   # Arguments::from_str
            continue
        if a['o'] in ('copy', 'move'):
            l = a['p']['l']
            if l in seen:
                continue
            seen.add(l)
            for (proj, kind, dbi, dsi, payload) in v.pv.defs.get(l, []):
                if kind == 'rv':
                    rv = payload
                    if rv['r'] == 'use':
                        work.append(rv['op'])
                    elif rv['r'] == 'ref':
                        work.append({'o': 'copy', 'p': {'l': rv['p']['l'], 'proj': []}})
    return None


TEXT_TYPES = re.compile(r'new_display::<(std::string::String|&std::string::String|&str|str|std::borrow::Cow<.*str>|&&str|ecow::EcoString)>')


def r2_nothing_printed_in_check(w):
    r = RuleResult('C14.R2', 'every print of formatted/input text is dominated by check==false', floor=2)
    c = Cli(w)
    n = 0
    for (b, bi, t, shown, template) in text_prints(c):
        v = c.view(b)
        texty = [(s, how, ors) for (s, how, ors) in shown if TEXT_TYPES.search(s or '')]
        if not texty:
            continue
        tags = set()
        for (s, how, ors) in texty:
            tags |= c.classify_text(b, ors)
        cons = {'fn': b.short, 'bb': bi, 'prints': sorted(tags)}
        if not ({'formatted', 'input'} & tags):
            continue
        n += 1
        if any(atom == CHECK and vals == {False} for atom, vals, _ in v.guards_ext(bi)):
            r.ok(cons, 'guarded by check==false')
        else:
            r.bad(cons, '%s|print-unguarded|%s' % (b.short, '+'.join(sorted(tags))),
                  '%s prints %s text without a check==false guard: --check would print formatted text' % (b.short, '/'.join(sorted(tags))), b.loc(t['span']))
    return r


# ------------------------------------------------------------------------------------------ R3
def _consistent(choices):
    acc = {}
    for atom, vals, _ in choices:
        if atom in acc:
            acc[atom] = acc[atom] & set(vals)
            if not acc[atom]:
                return None
        else:
            acc[atom] = set(vals)
    return acc


def _ret_label(v, blocks, local=0):
    la = v.last_assignment(blocks, local)
    if la is None:
        return None
    bb, si, x = la
    if si is None:
        return 'call:' + (callee_path(x) or '')
    if x['r'] == 'agg' and x['ak'] == 'adt':
        return x['vname']
    if x['r'] == 'use':
        op = x['op']
        if op['o'] == 'const':
            return 'const:' + op['s']
        return 'copy'
    return x['r']


def r3_exit_status_tables(w):
    r = RuleResult('C14.R3', 'exit-status truth tables: main, Termination::report, BitOrAssign, per-input status, construction of Changed', floor=14)
    c = Cli(w)
    # (a) main
    v = c.view(c.main)
    exec_calls = [bi for bi, t in c.main.calls() if resolved_id(t) == 'typstyle::execute']
    if len(exec_calls) != 1:
        raise AnchorMissing('call of execute in main')
    def rel(atom):
        return atom == CHECK or atom.startswith('discr(call:typstyle::execute')
    rows = 0
    for choices, blocks, end, kind in v.enumerate_paths(0, lambda bb: False, relevant=rel,
                                                         mark=lambda bb: bb if _assigns(c.main, bb, 0) else None):
        if kind != 'return':
            continue
        acc = _consistent(choices)
        if acc is None:
            continue
        label = _ret_label(v, blocks)
        res = status = None
        for atom, vals in acc.items():
            if atom.startswith('discr(call:typstyle::execute') and '.v/0.f/0' in atom:
                status = vals
            elif atom.startswith('discr(call:typstyle::execute'):
                res = vals
        chk = acc.get(CHECK, {True, False})
        res = res or {'Ok', 'Err'}
        status = status or {'Changed', 'Unchanged'}
        for rv in sorted(res):
            for st in (sorted(status) if rv == 'Ok' else ['-']):
                for ck in sorted(chk):
                    rows += 1
                    expect = 'Bad' if (rv == 'Err' or (st == 'Changed' and ck)) else 'Good'
                    cons = {'fn': 'main', 'execute': rv, 'status': st, 'check': ck, 'exit': label}
                    if label == expect:
                        r.ok(cons, 'matches {Bad iff Err or (Changed and check)}')
                    else:
                        r.bad(cons, 'main|%s|%s|%s' % (rv, st, ck),
                              'main maps execute=%s status=%s check=%s to %s, expected %s' % (rv, st, ck, label, expect), c.main.loc())
    if rows < 5:
        r.bad({'fn': 'main'}, 'main|table-incomplete', 'could not enumerate the exit-status table of main (%d rows)' % rows, c.main.loc())
    # (b) Termination::report for the type main returns
    ret_ty = c.main.locals[0]['ty']
    rep = [b for b in c.fns() if b.short.endswith('::report') and (b.j.get('impl_trait') or {}).get('path', '').endswith('Termination')
           and (b.j.get('impl_self') or {}).get('s') == ret_ty['s']]
    if ret_ty['s'] in ('()', 'std::process::ExitCode'):
        rep = []
        r.ok({'fn': 'main', 'returns': ret_ty['s']}, 'std Termination')
    elif len(rep) != 1:
        raise AnchorMissing('Termination::report for %s' % ret_ty['s'])
    for b in rep:
        v = c.view(b)
        for choices, blocks, end, kind in v.enumerate_paths(0, lambda bb: False, mark=lambda bb, b=b: bb if _assigns(b, bb, 0) else None):
            if kind != 'return':
                continue
            acc = _consistent(choices)
            if acc is None:
                continue
            label = _ret_label(v, blocks)
            vals = set()
            for atom, vs in acc.items():
                if atom.startswith('discr(param1'):
                    vals = vs
            for val in sorted(vals or {'Good', 'Bad'}):
                expect = 'SUCCESS' if val == 'Good' else 'FAILURE'
                cons = {'fn': b.short, 'self': val, 'exit_code': label}
                if label and label.endswith('ExitCode::' + expect):
                    r.ok(cons, 'Good->SUCCESS, otherwise FAILURE')
                else:
                    r.bad(cons, 'report|%s' % val, 'report() maps %s to %s, expected ExitCode::%s' % (val, label, expect), b.loc())
    # (c) BitOrAssign for FormatStatus is logical OR
    bo = [b for b in c.fns() if (b.j.get('impl_trait') or {}).get('path') == 'std::ops::BitOrAssign' and b.short.endswith('bitor_assign')]
    if len(bo) != 1:
        raise AnchorMissing('BitOrAssign impl for FormatStatus')
    b = bo[0]
    v = c.view(b)
    seen_rows = set()
    for choices, blocks, end, kind in v.enumerate_paths(0, lambda bb: False, mark=lambda bb: bb if _writes_self(b, bb) else None):
        if kind != 'return':
            continue
        acc = _consistent(choices)
        if acc is None:
            continue
        lhs = rhs = None
        for atom, vs in acc.items():
            if 'param1' in atom:
                lhs = vs
            elif 'param2' in atom:
                rhs = vs
        wrote = _self_write_label(v, blocks)
        for a in sorted(lhs or {'Changed', 'Unchanged'}):
            for bb_ in sorted(rhs or {'Changed', 'Unchanged'}):
                expect = 'Changed' if 'Changed' in (a, bb_) else 'Unchanged'
                got = wrote if wrote is not None else a     # no write: self unchanged
                cons = {'fn': b.short, 'self': a, 'rhs': bb_, 'result': got}
                seen_rows.add((a, bb_))
                if got == expect:
                    r.ok(cons, 'logical OR')
                else:
                    r.bad(cons, 'bitor|%s|%s' % (a, bb_), 'FormatStatus |= maps (%s, %s) to %s, expected %s' % (a, bb_, got, expect), b.loc())
    if len(seen_rows) < 4:
        r.bad({'fn': b.short}, 'bitor|incomplete', 'BitOrAssign table incomplete: %s' % sorted(seen_rows), b.loc())
    # (d)+(e): where the Changed status / Changed result are constructed
    for fb in c.fns():
        v = None
        for bi, blk in enumerate(fb.blocks):
            if blk['cleanup']:
                continue
            for si, s in enumerate(blk['stmts']):
                if s['s'] != 'assign' or s['rv']['r'] != 'agg' or s['rv'].get('ak') != 'adt':
                    continue
                rv = s['rv']
                if rv['adt'] == 'typstyle::fmt::FormatStatus' and rv['vname'] == 'Changed':
                    if fb is b:
                        continue   # the OR itself
                    v = v or c.view(fb)
                    ok, why = _changed_guard(c, v, bi)
                    cons = {'fn': fb.short, 'constructs': 'FormatStatus::Changed', 'bb': bi}
                    if ok:
                        r.ok(cons, why)
                    else:
                        r.bad(cons, '%s|status-changed' % fb.short,
                              'FormatStatus::Changed is produced in %s without a dominating "formatted text != content" test (%s): an unchanged or erroneous input would count as changed'
                              % (fb.short, why), fb.loc(s['span']))
                if rv['adt'] == 'typstyle::fmt::FormatResult' and rv['vname'] == 'Changed':
                    v = v or c.view(fb)
                    ok, why = _differs_guard(c, v, bi)
                    cons = {'fn': fb.short, 'constructs': 'FormatResult::Changed', 'bb': bi}
                    if ok:
                        r.ok(cons, why)
                    else:
                        r.bad(cons, '%s|result-changed' % fb.short,
                              'FormatResult::Changed is constructed in %s without a dominating "formatted != content" test (%s)' % (fb.short, why), fb.loc(s['span']))
    # (g) a differing input is always counted: from the `formatted != content` edge every path to the end of the iteration (or to the return)
    #     constructs a Changed value - in check mode as well as when writing
    n_g = 0
    for fb in c.fns():
        v = c.view(fb)
        for (sw, tgt, how) in _differs_switches(c, v):
            n_g += 1
            changed_blocks = set()
            for bi, blk in enumerate(fb.blocks):
                for st in blk['stmts']:
                    if st['s'] == 'assign' and st['rv']['r'] == 'agg' and st['rv'].get('ak') == 'adt' and st['rv'].get('vname') == 'Changed' \
                            and st['rv']['adt'] in ('typstyle::fmt::FormatStatus', 'typstyle::fmt::FormatResult'):
                        changed_blocks.add(bi)
            doms = set(v.dom().get(sw, ())) | {sw}
            import cfg as _cfg
            ends = lambda x: fb.blocks[x]['term']['t'] == 'return' or (x in doms and x != tgt)
            reached = _cfg.walk_known(fb, [tgt], stop=ends, skip_blocks=changed_blocks)
            esc = sorted(x for x in reached if ends(x))
            escaped = esc[0] if esc else None
            cons = {'fn': fb.short, 'differs_test': how, 'bb': sw}
            if escaped is None:
                r.ok(cons, 'every path from the differs edge constructs Changed before the iteration / function ends')
            else:
                r.bad(cons, '%s|differs-not-counted' % fb.short,
                      'in %s an input whose formatted text differs can finish its iteration without a Changed status being recorded (e.g. only the writing branch sets it): '
                      '--check would exit 0 although a file needs formatting' % fb.short, fb.loc(fb.blocks[sw]['term']['span']))
    if n_g < 2:
        r.bad({'differs_tests': n_g}, 'differs|anchor', 'expected the comparison of formatted text and content in format_debug and format_all, found %d' % n_g)
    # (f) batch functions return Ok(status) where status is only ever initialised Unchanged, OR-ed, or set Changed (checked above)
    for fb in c.fns():
        if fb.def_kind == 'Closure':
            continue
        if fb.locals[0]['ty']['s'] != 'std::result::Result<fmt::FormatStatus, anyhow::Error>':
            continue
        v = c.view(fb)
        for bi, blk in enumerate(fb.blocks):
            if blk['cleanup']:
                continue
            for si, s in enumerate(blk['stmts']):
                if s['s'] == 'assign' and s['p']['l'] == 0 and not s['p']['proj'] and s['rv']['r'] == 'agg' and s['rv'].get('vname') == 'Ok':
                    ors = v.pv.peel(v.pv.origins_operand(s['rv']['ops'][0]))
                    descs = sorted({v.describe(o) for o in ors})
                    cons = {'fn': fb.short, 'returns': 'Ok(status)', 'status_from': descs}
                    bad = [d for d in descs if not (d.startswith('agg:typstyle::fmt::FormatStatus::') or d.startswith('call:typstyle::'))]
                    if bad == ['cycle'] and len(descs) > 1:
                        bad = []       # the loop-carried value of an accumulator (a fold state): judged through its other definitions
                    if bad:
                        r.bad(cons, '%s|status-origin' % fb.short, 'status returned by %s has provenance %s' % (fb.short, bad), fb.loc(s['span']))
                    else:
                        r.ok(cons, 'status built from FormatStatus constructors / callee status')
    return r


def _assigns(b, bb, local):
    blk = b.blocks[bb]
    for s in blk['stmts']:
        if s['s'] == 'assign' and s['p']['l'] == local and not s['p']['proj']:
            return True
    t = blk['term']
    return t['t'] == 'call' and t['dest']['l'] == local and not t['dest']['proj']


def _writes_self(b, bb):
    for s in b.blocks[bb]['stmts']:
        if s['s'] == 'assign' and s['p']['l'] == 1 and s['p']['proj'] and s['p']['proj'][0]['p'] == 'deref':
            return True
    return False


def _self_write_label(v, blocks):
    last = None
    for bb in blocks:
        for s in v.b.blocks[bb]['stmts']:
            if s['s'] == 'assign' and s['p']['l'] == 1 and s['p']['proj'] and s['p']['proj'][0]['p'] == 'deref':
                rv = s['rv']
                if rv['r'] == 'agg' and rv.get('ak') == 'adt':
                    last = rv['vname']
                elif rv['r'] == 'use':
                    ors = v.pv.peel(v.pv.origins_operand(rv['op']))
                    ds = {v.describe(o) for o in ors}
                    if len(ds) == 1 and next(iter(ds)).startswith('agg:typstyle::fmt::FormatStatus::'):
                        last = next(iter(ds)).rsplit('::', 1)[-1]
                    else:
                        last = 'copy:' + '|'.join(sorted(ds))
                else:
                    last = rv['r']
    return last


EQ = re.compile(r'PartialEq.*>::eq$|PartialEq::eq$')
NE = re.compile(r'PartialEq.*>::ne$|PartialEq::ne$')


def _differs_switches(c, v):
    """[(switch block, target of the "formatted != content" edge, description)]"""
    b = v.b
    out = []
    for s_, blk in enumerate(b.blocks):
        t = blk['term']
        if t['t'] != 'switch' or blk['cleanup']:
            continue
        for o in v.pv.peel(v.pv.origins_operand(t['discr'])):
            o = strip_casts(o)
            if o[0] != 'call':
                continue
            ct = v.pv.call_term(o)
            p = resolved_path(ct) or callee_path(ct) or ''
            dp = callee_path(ct) or ''
            is_eq = bool(EQ.search(p) or EQ.search(dp))
            is_ne = bool(NE.search(p) or NE.search(dp))
            if not (is_eq or is_ne) or len(ct['args']) != 2:
                continue
            tags = [c.classify_text(b, v.pv.origins_operand(a)) for a in ct['args']]
            if not ((tags[0] == {'formatted'} and tags[1] == {'input'}) or (tags[1] == {'formatted'} and tags[0] == {'input'})):
                continue
            want = True if is_ne else False
            for tgt, label in v.switch_edges(s_):
                if v.label_values(s_, label) == {want}:
                    out.append((s_, tgt, '%s(formatted, content)==%s' % ('ne' if is_ne else 'eq', want)))
    return out


def _differs_guard(c, v, bi):
    """block is dominated by the edge formatted != content (ne true / eq false), operands formatted & input; seen through values built under that
    edge (`FormatResult::Changed(..)` constructed in an expanded helper and matched on later) and through bool locals (guards_ext)"""
    b = v.b
    for g in v.guards_ext(bi):
        atom, vals, sw = g
        if vals not in ({True}, {False}):
            continue
        for o in v.pv.peel(v.pv.origins_operand(v.guard_operand(g))):
            o = strip_casts(o)
            if o[0] != 'call':
                continue
            ct = v.pv.call_term(o)
            p = resolved_path(ct) or callee_path(ct) or ''
            dp = callee_path(ct) or ''
            is_eq = bool(EQ.search(p) or EQ.search(dp))
            is_ne = bool(NE.search(p) or NE.search(dp))
            if not (is_eq or is_ne) or len(ct['args']) != 2:
                continue
            tags = [c.classify_text(b, v.pv.origins_operand(a)) for a in ct['args']]
            if not ((tags[0] == {'formatted'} and tags[1] == {'input'}) or (tags[1] == {'formatted'} and tags[0] == {'input'})):
                continue
            want = True if is_ne else False
            if vals == {want}:
                return True, 'dominated by %s(formatted, content)==%s' % ('ne' if is_ne else 'eq', want)
    return False, 'no dominating comparison of the formatted text with the input content'


def _changed_guard(c, v, bi):
    ok, why = _differs_guard(c, v, bi)
    if ok:
        return ok, why
    # via a FormatResult::Changed discriminant test
    for atom, vals, s in v.guards_ext(bi):
        if vals == {'Changed'} and atom.startswith('discr(call:typstyle::'):
            return True, 'dominated by the Changed variant of a callee result (construction of that variant is checked separately)'
    return False, why


# ------------------------------------------------------------------------------------------ R4
def r4_inputs_and_errors_count(w):
    out = []
    for f in (c15.r3_eligibility, c15.r4_error_isolation):
        rs = f(w)
        rs.rule = rs.rule.replace('C15.R3', 'C14.R4a').replace('C15.R4', 'C14.R4b')
        out.append(rs)
    return out


RULES = [r1_who_may_write, r2_nothing_printed_in_check, r3_exit_status_tables, r4_inputs_and_errors_count]
for _f in RULES:
    _f.needs = ('cli',)
MATRIX_RULES = RULES
EXTRA_CONFIGS = ['cli-minimal']
