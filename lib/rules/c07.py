"""C07 - the '@typstyle off' escape hatch reproduces the next node verbatim (statically decidable clauses)."""
import re
import grammar
import kindflow as kf
import sites as sm
from sites import run_function
from kindflow import Agg, Node, Const, Doc, Text, TOP, Top
from mirfacts import callee_path, resolved_id
from paths import BodyView
from framework import RuleResult, AnchorMissing
from rules.e2 import last
from rules import c10

META = {
    'explanation': 'E2 abstract evaluation of the conversion entries with the attribute query as an unknown: (R1) the expression and pattern entries, the Math '
                   'converter and the code-block converter return the node\'s verbatim text on the edge where is_format_disabled is true and reach a typed '
                   'converter only on the false edge; every other call into a typed converter (a bypass of the checked entries) is in a frozen table with the '
                   'reason why no directive can apply there; (R2) the verbatim emitter produces arena.text(own text of the same node) with no transformer and no '
                   'layout combinator of its own; (R3) the pass that decides which node is marked is evaluated on sequences of children from the start of a node: a comment is '
                   'taken for the directive exactly by `text contains "@typstyle off"`, it marks the next node that is not a Space or `#`, only that one, and a marked node is not '
                   'descended into.',
    'decides': 'every conversion entry that can receive a marked expression, code body or equation body consults the mark and, if set, emits the node\'s own text untouched',
    'does_not_decide': 'the final trailing-blank strip inside the region (exempt by the statement); that the marked node is always one of the kinds whose converter consults the mark '
                       '(e.g. a directive before a named argument marks the Named node, which is converted by convert_named without a check)',
    'trusted_base': ['grammar tables (typst-syntax 0.13.1)', 'bypass table in lib/rules/c07.py (one reason per edge)', 'pretty renders text verbatim', 'rustc MIR construction'],
}

DISABLED = re.compile(r'is_format_disabled$')
BYPASS = {
    # (caller, callee): reason
    ('convert_additional_args', 'convert_content_block'): 'trailing content blocks directly follow `)` / the callee: the grammar admits no comment (hence no directive) before them',
    ('convert_ref', 'convert_content_block'): 'the supplement directly follows the reference marker: no comment can precede it',
    ('convert_closure', 'convert_ident'): 'an identifier is emitted verbatim anyway',
    ('convert_dot_chain', 'convert_ident'): 'an identifier is emitted verbatim anyway',
    ('convert_field_access_plain', 'convert_ident'): 'an identifier is emitted verbatim anyway',
    ('convert_import', 'convert_ident'): 'an identifier is emitted verbatim anyway',
    ('convert_import_item_path', 'convert_ident'): 'an identifier is emitted verbatim anyway',
    ('convert_import_item_renamed', 'convert_ident'): 'an identifier is emitted verbatim anyway',
    ('try_convert_dot_chain_plain', 'convert_ident'): 'an identifier is emitted verbatim anyway (and the plain chain layout is only used without comments)',
    ('convert_markup_impl', 'convert_text'): 'text is emitted verbatim anyway',
    ('convert_raw', 'convert_text'): 'raw text lines are emitted verbatim anyway',
    ('convert_math', 'convert_space'): 'whitespace token',
    ('convert_parenthesized', 'convert_parenthesized'): 'inner parentheses of a comment-free `((x))`: no comment, hence no directive, inside',
    ('convert_table', 'convert_named'): 'the table layout is only used when the argument list contains no comment, hence no directive',
    ('convert_equation', 'convert_math'): 'convert_math performs its own check',
    ('convert_math_delimited', 'convert_math'): 'convert_math performs its own check',
}


def _disabled_edges(assumed):
    return [a[4] for a in assumed if len(a) > 4 and a[3] and DISABLED.search(a[3])]


def r1_entries_consult_the_mark(w):
    r = RuleResult('C07.R1', 'expression / pattern / Math / code-block entries emit verbatim on the disabled edge and convert only on the other; bypasses by table', floor=20)
    core = w.core
    g = grammar.load()
    def one(name):
        bs = [b for b in core.find(name) if b.def_kind != 'Closure']
        if len(bs) != 1:
            raise AnchorMissing(name)
        return bs[0]
    entries = [
        (one('{impl#1}::convert_expr'), 'Expr', 'Binary', 'Binary'),
        (one('{impl#1}::convert_expr'), 'Expr', 'Code', 'CodeBlock'),
        (one('code_misc::{impl#0}::convert_pattern'), 'Pattern', 'Destructuring', 'Destructuring'),
        (one('code_misc::{impl#0}::convert_pattern'), 'Pattern', 'Parenthesized', 'Parenthesized'),
        (one('code_misc::{impl#0}::convert_pattern'), 'Pattern', 'Normal', 'FuncCall'),
        (one('::convert_math'), None, None, 'Math'),
        (one('::convert_code_block'), None, None, 'CodeBlock'),
    ]
    no_inline = lambda tb: tb.short.startswith('attr::') or 'get_fold_style' in tb.short or tb.short.endswith('::print_doc')
    for (b, en, variant, kind) in entries:
        i = [j for j in range(1, b.arg_count + 1) if grammar.ast_type_name(b.locals[j]['ty'])][0]
        if en:
            payload = Node('parent', kind)
            if en == 'Pattern' and variant == 'Normal':
                payload = kf.Interp(w).typed('Expr', payload)
            val = Agg('typst_syntax::ast::' + en, variant, [payload])
        else:
            val = Node('parent', kind)
        res = run_function(w, b, {i: val}, no_inline=no_inline, loop_items=lambda i_, m, f, t: [], max_paths=6000)
        cons = {'entry': last(b.short), 'node': kind} | ({'variant': '%s::%s' % (en, variant)} if en else {})
        if not res:
            r.bad(cons, '%s|%s|not-evaluated' % (last(b.short), kind), 'entry %s could not be evaluated' % b.short, b.loc())
            continue
        seen_true = seen_false = 0
        bad = None
        for result, events, assumed in res:
            edges = _disabled_edges(assumed)
            flat = [a for a in (result.flat() if isinstance(result, Doc) else []) if a[0] != 'nil']
            converts = [e for e in events if e[0] == 'convert']
            if edges and edges[0] is True:
                seen_true += 1
                verb = [a for a in flat if a[0] == 'conv' and 'verbatim' in a[1] and isinstance(a[2], Node) and a[2].tag == 'parent']
                others = [a for a in flat if a not in verb]
                if not verb or others or [e for e in converts if 'verbatim' not in e[1]]:
                    bad = 'on the disabled edge it emits %s instead of only the node\'s verbatim text' % [sm.summarise_atom(a, Node('child', None)) for a in flat]
                    break
            else:
                if not edges:
                    # a path that never consulted the mark must not convert anything
                    # (handing the node on to the checked expression entry is fine: that entry is evaluated above)
                    if [e for e in converts if 'verbatim' not in e[1] and not e[1].endswith(('convert_comment', '{impl#1}::convert_expr'))]:
                        bad = 'a path converts the node (%s) without consulting is_format_disabled' % [last(e[1]) for e in converts][:3]
                        break
                else:
                    seen_false += 1
        handed_on = all([e for e in ev if e[0] == 'convert'] and all(e[1].endswith('{impl#1}::convert_expr') for e in ev if e[0] == 'convert') and not _disabled_edges(asm)
                        for (_r, ev, asm) in res)
        if not bad and handed_on and en == 'Pattern' and variant == 'Normal':
            r.ok(cons, 'handed on to the checked expression entry on every path')
            continue
        if not bad and (seen_true == 0 or seen_false == 0):
            bad = 'the mark is not consulted (disabled edge seen %d times, enabled edge %d times)' % (seen_true, seen_false)
        if bad:
            r.bad(cons, '%s|%s' % (last(b.short), kind),
                  '%s (%s): %s: a node after `// @typstyle off` would be reformatted' % (last(b.short), kind, bad), b.loc())
        else:
            r.ok(cons, 'verbatim on the disabled edge, conversion only on the enabled edge')
    # the code-block check is on the Code body
    cb = one('::convert_code_block')
    v = BodyView(w, cb)
    ok = False
    for bi, t in cb.calls():
        if DISABLED.search(callee_path(t) or '') or DISABLED.search((w.bodies.get(resolved_id(t)).short if resolved_id(t) in w.bodies else '')):
            d = v.describe_operand(t['args'][1]) if len(t['args']) > 1 else ''
            if 'CodeBlock' in d and 'body' in d or re.search(r'ast::\{impl#\d+\}::body', d) or 'body' in d:
                ok = True
    cons = {'entry': 'convert_code_block', 'mark_on': 'CodeBlock::body()'}
    if ok:
        r.ok(cons, 'the directive inside `{` marks the Code body, which is what is tested')
    else:
        r.bad(cons, 'convert_code_block|body', 'convert_code_block does not test the mark of its Code body', cb.loc())
    # bypass edges
    disp = set()
    for n in ('::convert_expr_impl', 'code_misc::{impl#0}::convert_pattern', '::convert_arg', '::convert_param', '::convert_array_item', '::convert_dict_item',
              '::convert_destructuring_item'):
        for b in core.find(n):
            if b.def_kind != 'Closure':
                disp.add(b.id)
    D = set()
    for did in disp:
        for bi, t in w.bodies[did].calls():
            rid = resolved_id(t)
            if rid in w.bodies and w.bodies[rid].crate is core and kf.default_converter_pred(w.bodies[rid]):
                D.add(rid)
    checked = {b.id for b in core.find('{impl#1}::convert_expr') if b.def_kind != 'Closure'} | {b.id for b in core.find('code_misc::{impl#0}::convert_pattern')}
    edges = {}
    for b in w.fn_bodies(core):
        if b.id in disp:
            continue
        for bi, t in b.calls():
            rid = resolved_id(t)
            if rid in D and rid not in checked:
                owner = b
                while owner.def_kind == 'Closure' and owner.parent in w.bodies:
                    owner = w.bodies[owner.parent]
                if owner.short.startswith('partial::'):
                    continue
                edges.setdefault((last(owner.short), last(w.bodies[rid].short)), b.loc(t['span']))
    # the unchecked dispatcher proper (switch over the Expr variants) may only be called by the checked entry
    impl = [b for b in core.find('::convert_expr_impl') if b.def_kind != 'Closure']
    if len(impl) != 1:
        raise AnchorMissing('convert_expr_impl')
    for b in w.fn_bodies(core):
        for bi, t in b.calls():
            if resolved_id(t) == impl[0].id:
                cons = {'caller_of_dispatcher': last(b.short)}
                if b.id in checked:
                    r.ok(cons, 'the checked entry')
                else:
                    r.bad(cons, 'dispatcher-caller|%s' % last(b.short),
                          '%s calls the expression dispatcher directly, skipping the `@typstyle off` check of convert_expr' % b.short, b.loc(t['span']))
    for (caller, callee), loc in sorted(edges.items()):
        cons = {'bypass': '%s -> %s' % (caller, callee)}
        why = BYPASS.get((caller, callee))
        if not why:
            cands = [x for x in w.fn_bodies(core) if last(x.short) == callee and x.def_kind != 'Closure']
            if len(cands) == 1 and c10._leaf_emits_own_text(w, cands[0].short):
                why = 'emits exactly the node\'s own text: verbatim with or without the mark'
        if why:
            r.ok(cons, why)
        else:
            r.bad(cons, 'bypass|%s|%s' % (caller, callee),
                  '%s calls the typed converter %s directly, bypassing the entries that consult the `@typstyle off` mark, and the edge is not in the table of justified bypasses: '
                  'a marked %s node reached this way would be reformatted' % (caller, callee, callee.replace('convert_', '')), loc)
    return r


def r2_verbatim_emission(w):
    r = RuleResult('C07.R2', 'the verbatim emitter yields arena.text(own text of the same node), untransformed and unwrapped', floor=2)
    core = w.core
    for name in ('::convert_verbatim_untyped',):
        bs = [b for b in core.find(name) if b.def_kind != 'Closure']
        if len(bs) != 1:
            raise AnchorMissing(name)
        ok = c10._leaf_emits_own_text(w, bs[0].short)
        cons = {'fn': last(bs[0].short)}
        if ok:
            r.ok(cons, 'text(into_text(clone(node))) only')
        else:
            r.bad(cons, 'verbatim|%s' % last(bs[0].short), '%s does not emit exactly the node\'s own text (a transformer, another node, or extra layout is involved)' % bs[0].short, bs[0].loc())
    # helpers of the form `fn(&self, node) -> Option<Doc>` that test the mark (found by role; when the test is written out in the entries
    # themselves there is none, and R1 evaluates the entries directly)
    cd = [b for b in w.fn_bodies(core) if b.def_kind != 'Closure' and not b.short.startswith('attr::')
          and b.locals[0]['ty']['s'].startswith('std::option::Option<pretty::DocBuilder')
          and any(DISABLED.search(callee_path(t) or '') or (resolved_id(t) in w.bodies and DISABLED.search(w.bodies[resolved_id(t)].short)) for _, t in b.calls())]
    for hb in cd:
        ps = [j for j in range(1, hb.arg_count + 1) if 'SyntaxNode' in hb.locals[j]['ty']['s'] or grammar.ast_type_name(hb.locals[j]['ty'])]
        cons = {'fn': last(hb.short)}
        if len(ps) != 1:
            r.bad(cons, '%s|shape' % last(hb.short), '%s tests the mark but does not take exactly one node' % hb.short, hb.loc())
            continue
        res = run_function(w, hb, {ps[0]: Node('parent', None)}, no_inline=lambda tb: tb.short.startswith('attr::'))
        good = bool(res)
        some = 0
        for result, events, assumed in res or []:
            e = _disabled_edges(assumed)
            if e and e[0] is True:
                some += 1
                if not (isinstance(result, Agg) and result.variant == 'Some' and isinstance(result.fields[0], Doc)
                        and [a[0] for a in result.fields[0].atoms] == ['conv'] and 'verbatim' in result.fields[0].atoms[0][1]):
                    good = False
            elif not (isinstance(result, Agg) and result.variant == 'None'):
                good = False
        if good and some:
            r.ok(cons, 'Some(verbatim(node)) iff disabled, no wrapper around it')
        else:
            r.bad(cons, '%s|shape' % last(hb.short), '%s does not return Some(verbatim text of the same node) exactly on the disabled edge' % last(hb.short), hb.loc())
    if not cd:
        r.note('no Option-returning helper tests the mark: the entries test it themselves (evaluated by R1)')
        r.floor = 1
    return r


RULES = [r1_entries_consult_the_mark, r2_verbatim_emission]
for _f in RULES:
    _f.needs = ('core',)
MATRIX_RULES = RULES
EXTRA_CONFIGS = ['core-serde']


# ---------------------------------------------------------------------------------------------
# R3: the pass that decides WHICH node is marked
# ---------------------------------------------------------------------------------------------
DIRECTIVE = '@typstyle off'


FLAG_FIELD = 'Attributes.is_format_disabled'


def _stores_flag(w, b):
    """the body assigns to the format-disabled flag of an Attributes value"""
    from tyutil import name_projection
    from prov import place_key
    for blk in b.blocks:
        if blk['cleanup']:
            continue
        for st in blk['stmts']:
            if st['s'] == 'assign' and st['p']['proj']:
                l, pr = place_key(st['p'])
                steps, _ = name_projection(w, b.locals[l]['ty'], pr)
                if steps and steps[-1].endswith(FLAG_FIELD):
                    return True
    return False


def _marking_pass(w):
    """(marking pass, setters, accessors), all found by role in the attribute module:
    setter   = fn(&mut self, node) that stores into the format-disabled flag;
    accessor = fn(&mut self, node) -> &mut Attributes (the flag is then stored by the caller);
    marking pass = the function that loops over the children of a node and sets the flag through either."""
    core = w.core
    attr_fns = [b for b in w.fn_bodies(core) if b.def_kind != 'Closure' and b.short.startswith('attr::')]
    has_node = lambda b: any('SyntaxNode' in b.locals[i]['ty']['s'] for i in range(1, b.arg_count + 1))
    loops = lambda b: any((callee_path(t) or '').endswith('Iterator::next') for _, t in b.calls())
    setters = [b for b in attr_fns if has_node(b) and _stores_flag(w, b) and not loops(b)]
    accessors = [b for b in attr_fns if has_node(b) and b.locals[0]['ty']['s'].startswith('&mut attr::Attributes')]
    sids, aids = {b.id for b in setters}, {b.id for b in accessors}
    cands = []
    for b in attr_fns:
        if not loops(b):
            continue
        calls = {resolved_id(t) for _, t in b.calls()}
        if calls & sids or (calls & aids and _stores_flag(w, b)):
            cands.append(b)
    if len(cands) != 1:
        raise AnchorMissing('marking pass (the loop over children in the attribute module that sets the format-disabled flag): %s' % [c.short for c in cands])
    return cands[0], setters, accessors


def r3_marking_pass(w):
    r = RuleResult('C07.R3', 'the marking pass: a comment containing the directive marks itself and the next node that is not a Space or `#`, once; nothing else is marked', floor=7)
    from sites import evaluate_sequence
    b, setters, accessors = _marking_pass(w)
    setter_ids = {x.id for x in setters if x.id != b.id}
    accessor_ids = {x.id for x in accessors}
    v = BodyView(w, b)
    # (a) the directive test is `text(comment).contains("@typstyle off")`
    tests = []
    # the marking pass with its boolean helpers expanded (`fn is_off_directive(text: &str) -> bool { text.contains(..) }`)
    import inline
    from rules import c05
    b_t = inline.inline_body(w, b, lambda cb, t_, d: cb.crate is w.core and cb.locals[0]['ty']['s'] == 'bool' and not c05.is_recursive(w, cb) and cb.id not in setter_ids,
                             desugar=False)
    v_t = BodyView(w, b_t)
    for bi, t in b_t.calls():
        p = callee_path(t) or ''
        if p.endswith('<impl str>::contains') and len(t['args']) == 2 and t['args'][1].get('o') == 'const':
            tests.append((bi, t))
    cons = {'fn': b.short, 'directive_tests': len(tests)}
    lit_ok = [x for x in tests if x[1]['args'][1].get('str') == DIRECTIVE or (x[1]['args'][1].get('s') or '').strip('"\'') == DIRECTIVE]
    if len(tests) == 1 and lit_ok:
        bi, t = tests[0]
        subj = v_t.describe_operand(t['args'][0])
        r.ok(dict(cons, subject=subj), 'one test: str::contains(comment text, "%s")' % DIRECTIVE)
    else:
        what = [((callee_path(t) or '').rsplit('::', 1)[-1], t['args'][1].get('s')) for _, t in tests] or \
               sorted({last(w.bodies[resolved_id(t)].short) for _, t in b.calls() if resolved_id(t) in w.bodies and w.bodies[resolved_id(t)].locals[0]['ty']['s'] == 'bool'})
        r.bad(cons, 'marking|directive-test',
              'the directive is not recognised by `comment text contains "%s"` (found %s): a comment that contains the directive anywhere in its text must switch formatting off for the next node'
              % (DIRECTIVE, what), b.loc())
    # (b) the state machine, evaluated on sequences of children
    node_p = [i for i in range(1, b.arg_count + 1) if b.locals[i]['ty']['s'].startswith('&typst_syntax::SyntaxNode')]
    if not node_p:
        raise AnchorMissing('node parameter of the marking pass')
    node_p = node_p[0]

    def hook(ip, m, f, t, args):
        rid = resolved_id(t)
        if rid in setter_ids:
            n = None
            for a in args:
                a = ip.load(a) if isinstance(a, kf.Ref) else a
                if isinstance(a, Node):
                    n = a
            m.events.append(('mark', n))
            return kf.NOTHING_VAL
        if rid in accessor_ids:
            # `self.attrs_mut(node).flag = true`: the store that follows is recorded by the evaluator by field name
            n = None
            for a in args:
                a = ip.load(a) if isinstance(a, kf.Ref) else a
                if isinstance(a, Node):
                    n = a
            m.events.append(('attr-of', n))
            return kf.TOP
        if rid == b.id and len(m.frames) >= 1:
            n = None
            for a in args:
                a = ip.load(a) if isinstance(a, kf.Ref) else a
                if isinstance(a, Node):
                    n = a
            m.events.append(('descend', n))
            return kf.NOTHING_VAL
        return None
    C = Node('child', 'BlockComment')
    X, Y = Node('child', 'FuncCall'), Node('child', 'Binary')
    SP, HS = Node('child', 'Space', False), Node('child', 'Hash')

    def run(seq):
        res = evaluate_sequence(w, b, node_p, 'Code', seq, hooks={'mark': hook}, no_inline=lambda tb: tb.id != b.id, with_wholes=True, from_start=True)
        out = []
        for item in res or []:
            loop, steps, assumed = item[0], item[1], item[2]
            if loop is None or len(steps) < len(seq):
                continue
            # an accessor call followed by a store of `true` into the flag marks the node the accessor was called for
            steps2 = []
            for st in steps:
                cur, out_ = None, []
                for e in st:
                    if e[0] == 'attr-of':
                        cur = e[1]
                    elif e[0] == 'store' and str(e[1]).endswith(FLAG_FIELD) and cur is not None:
                        if isinstance(e[2], Const) and e[2].v is True:
                            out_.append(('mark', cur))
                        cur = None
                    else:
                        out_.append(e)
                steps2.append(out_)
            steps = steps2
            st_ = [[(e[0], e[1].kind if isinstance(e[1], Node) else None) for e in st if e[0] in ('mark', 'descend')] for st in steps]
            # the path on which the comment was taken for a directive is the one that marks the comment itself
            out.append((('mark', seq[0].kind) in st_[0], st_))
        return res is not None, out
    cases = [
        ('directive, node', [C, X], True, lambda st: ('mark', 'FuncCall') in st[1], 'the node after the directive comment is marked (and the comment itself)'),
        ('directive, space, node', [C, SP, X], True, lambda st: ('mark', 'FuncCall') in st[2] and not [e for e in st[1] if e[0] == 'mark'], 'a Space between directive and node is skipped, the node is marked'),
        ('directive, #, node', [C, HS, X], True, lambda st: ('mark', 'FuncCall') in st[2] and not [e for e in st[1] if e[0] == 'mark'], 'a `#` between directive and node is skipped, the node is marked'),
        ('directive, node, node', [C, X, Y], True, lambda st: not [e for e in st[2] if e[0] == 'mark'] and ('descend', 'Binary') in st[2], 'only the first node after the directive is marked'),
        ('plain comment, node', [C, X], False, lambda st: not [e for e in st[1] if e[0] == 'mark'] and not [e for e in st[0] if e[0] == 'mark'] and ('descend', 'FuncCall') in st[1],
         'without the directive nothing is marked and the walk descends'),
        ('marked node is not descended into', [C, X], True, lambda st: ('descend', 'FuncCall') not in st[1], 'inside a marked node nothing else is looked at'),
    ]
    for name, seq, want_label, pred, why in cases:
        ok_eval, outs = run(seq)
        cons = {'sequence': name}
        sel = [st for lab, st in outs if lab is want_label]
        if not ok_eval or not sel:
            r.bad(cons, 'marking|%s|not-evaluated' % name, 'the marking pass could not be evaluated on <%s> (paths with directive=%s: %d)' % (name, want_label, len(sel)), b.loc())
            continue
        bad = [st for st in sel if not pred(st)]
        if bad:
            r.bad(cons, 'marking|%s' % name, 'marking pass on <%s>: expected that %s; observed per step %s' % (name, why, bad[0]), b.loc())
        else:
            r.ok(cons, why)
    return r


RULES = [r1_entries_consult_the_mark, r2_verbatim_emission, r3_marking_pass]
for _f in RULES:
    _f.needs = ('core',)
MATRIX_RULES = RULES
