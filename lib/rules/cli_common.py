"""Anchors and shared predicates for the CLI properties (C14, C15, C16)."""
import re
import effects
from prov import strip_casts
from mirfacts import callee_path, resolved_id, resolved_path
from paths import BodyView
from framework import AnchorMissing

CHECK = 'field:typstyle::cli::CliArguments.check'
INPLACE = 'field:typstyle::cli::CliArguments.inplace'
VIEW = re.compile(r'(Deref>::deref|Deref::deref|::as_str|::as_ref|::borrow|::as_path|AsRef<.*>::as_ref|::as_mut_str|Clone>::clone|Clone::clone|::to_owned|::to_string|::into)$')
CORE_FORMAT = re.compile(r'^typstyle_core::Typstyle::(format_content|format_source|format_source_inspect|format_source_range)$|^typstyle_core::format_with_width$')


# private single-call-site functions that the rules address as units of their own (anchored by role elsewhere)
KEEP_UNITS = ()


def _ops(st):
    if st['s'] != 'assign':
        return []
    rv = st['rv']
    out = [rv[k] for k in ('op', 'a', 'b') if isinstance(rv.get(k), dict)]
    return out + list(rv.get('ops', []))


class Cli:
    def __init__(self, w):
        self.w = w
        if w.cli is None:
            raise AnchorMissing('crate typstyle (CLI) is not part of this build configuration')
        self.views = {}
        self._fns = None
        self.expanded = []
        self.main = self._one('typstyle::main')
        self.writers = self._writers()

    def view(self, b):
        if b.id not in self.views:
            self.views[b.id] = BodyView(self.w, b)
        return self.views[b.id]

    def _one(self, bid):
        b = self.w.bodies.get(bid)
        if b is None:
            raise AnchorMissing(bid)
        return b

    def fns(self):
        """the functions of the CLI crate, *normalised*: a private, non-recursive helper that is called from exactly one place is expanded into its
        caller (inline.py) and not listed on its own - extracting a block of `format_all` into `fn process_entry(..)`, or a predicate into
        `fn is_typ_file(..)`, leaves the analysed program unchanged.  Functions with several call sites, public functions and closures stay units."""
        if self._fns is None:
            import inline
            w = self.w
            orig = list(w.fn_bodies(w.cli))
            sites = {}
            for b in orig:
                for bi, t in b.calls():
                    rid = resolved_id(t)
                    if rid in w.bodies and w.bodies[rid].crate is w.cli:
                        sites.setdefault(rid, []).append(b.id)
                # function values (`.filter_entry(is_hidden)`) count as uses that keep the function a unit
                for blk in b.blocks:
                    for st in blk['stmts']:
                        for o in _ops(st):
                            if o.get('o') == 'const' and 'fn' in o and o['fn']['def']['id'] in w.bodies:
                                sites.setdefault(o['fn']['def']['id'], []).extend(['fnval', 'fnval'])
                    if blk['term']['t'] == 'call':
                        for o in blk['term']['args']:
                            if o.get('o') == 'const' and 'fn' in o and o['fn']['def']['id'] in w.bodies:
                                sites.setdefault(o['fn']['def']['id'], []).extend(['fnval', 'fnval'])
            edges, _ = w.callgraph()

            def effect_free(cb):
                # a small helper without file effects and without library calls (e.g. `fn ensure_no_errors(n) -> Result<()>`): expanded at every call site
                if len(cb.blocks) > 30:
                    return False
                for x in w.reachable([cb.id]):
                    xb = w.bodies.get(x)
                    if xb is None:
                        continue
                    for _, t2 in xb.calls():
                        pth = resolved_path(t2) or callee_path(t2) or ''
                        if effects.FILE_MUTATING.search(pth) or CORE_FORMAT.search(pth) or re.search(r'read_to_string$|std::fs::|std::io::', pth):
                            return False
                return True

            def helper(cb):
                n_sites = len(sites.get(cb.id, []))
                return (cb.crate is w.cli and cb.def_kind == 'Fn' and not cb.j.get('is_pub') and cb.id != 'typstyle::main'
                        and (n_sites == 1 or (n_sites > 1 and 'fnval' not in sites.get(cb.id, []) and effect_free(cb)))
                        and cb.id not in w.reachable(edges.get(cb.id, ())) and not cb.j.get('impl_trait') and cb.short not in KEEP_UNITS)
            gone = {b.id for b in orig if helper(b)}
            self._fns = [inline.inline_body(w, b, lambda cb, t, d: cb.id in gone, desugar=False, adaptors=True) for b in orig if b.id not in gone]
            self.expanded = sorted(gone)
        return self._fns

    def _writers(self):
        """[(body, bb, term, path)] direct file-mutating extern calls in the CLI crate"""
        out = []
        for b in self.fns():
            for bi, t in b.calls():
                rid = resolved_id(t)
                if rid in self.w.bodies or not t.get('callee'):
                    continue
                path = resolved_path(t) or callee_path(t) or ''
                if effects.FILE_MUTATING.search(path):
                    out.append((b, bi, t, path))
        return out

    def callers(self, body_id):
        out = []
        for b in self.fns():
            for bi, t in b.calls():
                if resolved_id(t) == body_id or (t.get('callee') and t['callee']['def']['id'] == body_id):
                    out.append((b, bi, t))
        return out

    def core_format_calls(self):
        out = []
        for b in self.fns():
            for bi, t in b.calls():
                p = resolved_path(t) or ''
                if CORE_FORMAT.search(p):
                    out.append((b, bi, t, p))
        return out

    # ------------------------------------------------------------------ the formatter / its configuration
    CL = re.compile(r'Clone>::clone$|Clone::clone$|Deref>::deref$|Deref::deref$|::borrow$|AsRef<.*>::as_ref$')

    def option_mapping(self):
        """the function that maps the CLI style options to a library Config (found by role: takes &StyleArgs, returns Config)"""
        out = [b for b in self.fns() if b.def_kind != 'Closure' and b.locals[0]['ty'].get('id') == 'typstyle_core::config::Config'
               and b.arg_count == 1 and 'StyleArgs' in b.locals[1]['ty']['s']]
        if len(out) != 1:
            raise AnchorMissing('option mapping (fn(&StyleArgs) -> Config): found %s' % [b.short for b in out])
        return out[0]

    def config_ok(self, b, operand, depth=0):
        """(ok, why): the Config value is the option mapping applied to args.style - directly, kept in a local and cloned, handed in as a parameter by
        callers for which the same holds, or returned by a helper of the CLI for which it holds"""
        v = self.view(b)
        tc = self.option_mapping()
        srcs = v.pv.through(v.pv.origins_operand(operand), self.CL)
        if not srcs or depth > 4:
            return False, 'no provenance'
        for o in srcs:
            o = strip_casts(o)
            if o[0] == 'call' and not o[2]:
                t = v.pv.call_term(o)
                if resolved_id(t) == tc.id:
                    d = v.describe_operand(t['args'][0])
                    if d.endswith('field:typstyle::cli::CliArguments.style') or d.endswith('CliArguments.style') or self._is_style_param(b, v, t['args'][0], depth):
                        continue
                    return False, 'the option mapping is applied to %s' % d
                cb = self.w.bodies.get(resolved_id(t))
                if cb is not None and cb.crate is self.w.cli and cb.locals[0]['ty'].get('id') == 'typstyle_core::config::Config':
                    ok, why = self._returns_ok(cb, self.config_ok, depth)
                    if ok:
                        continue
                    return False, '%s returns %s' % (cb.short, why)
                return False, 'Config comes from %s' % (resolved_path(t) or callee_path(t))
            if o[0] == 'param' and not o[2]:
                ok, why = self._callers_ok(b, o[1], self.config_ok, depth)
                if ok:
                    continue
                return False, why
            return False, 'Config has provenance %s' % v.describe(o)
        return True, 'the option mapping of args.style'

    def _is_style_param(self, b, v, operand, depth):
        """operand is a &StyleArgs parameter that every caller fills with args.style"""
        for o in v.pv.through(v.pv.origins_operand(operand), self.CL):
            o = strip_casts(o)
            if o[0] == 'param':
                steps = v.describe(o)
                if 'CliArguments.style' in steps:
                    continue
                if 'StyleArgs' in b.locals[o[1]]['ty']['s'] and not o[2]:
                    ok = True
                    for (cb, bi, t) in self.callers(b.id):
                        cv = self.view(cb)
                        d = cv.describe_operand(t['args'][o[1] - 1])
                        if 'CliArguments.style' not in d:
                            ok = False
                    if ok and self.callers(b.id):
                        continue
                return False
            return False
        return True

    def formatter_ok(self, b, operand, depth=0):
        """(ok, why): the Typstyle value is Typstyle::new(<config_ok>) - directly, cloned, a parameter, or returned by a CLI helper"""
        v = self.view(b)
        srcs = v.pv.through(v.pv.origins_operand(operand), self.CL)
        if not srcs or depth > 4:
            return False, 'no provenance'
        for o in srcs:
            o = strip_casts(o)
            if o[0] == 'call' and not o[2]:
                t = v.pv.call_term(o)
                if (resolved_path(t) or '').endswith('Typstyle::new'):
                    ok, why = self.config_ok(b, t['args'][0], depth + 1)
                    if ok:
                        continue
                    return False, why
                cb = self.w.bodies.get(resolved_id(t))
                if cb is not None and cb.crate is self.w.cli and 'Typstyle' in cb.locals[0]['ty']['s']:
                    ok, why = self._returns_ok(cb, self.formatter_ok, depth)
                    if ok:
                        continue
                    return False, '%s returns a formatter with %s' % (cb.short, why)
                return False, 'formatter comes from %s' % (resolved_path(t) or callee_path(t))
            if o[0] == 'param' and not o[2]:
                ok, why = self._callers_ok(b, o[1], self.formatter_ok, depth)
                if ok:
                    continue
                return False, why
            return False, 'formatter has provenance %s' % v.describe(o)
        return True, 'Typstyle::new(option mapping of args.style)'

    def _returns_ok(self, cb, judge, depth):
        cv = self.view(cb)
        ok_any = False
        for bi, blk in enumerate(cb.blocks):
            if blk['cleanup']:
                continue
            for st in blk['stmts']:
                if st['s'] == 'assign' and st['p']['l'] == 0 and not st['p']['proj'] and st['rv']['r'] == 'use':
                    ok, why = judge(cb, st['rv']['op'], depth + 1)
                    if not ok:
                        return False, why
                    ok_any = True
            t = blk['term']
            if t['t'] == 'call' and t['dest']['l'] == 0 and not t['dest']['proj']:
                ok, why = judge(cb, {'o': 'copy', 'p': {'l': 0, 'proj': []}}, depth + 1)
                if not ok:
                    return False, why
                ok_any = True
        return (ok_any, 'no return value found' if not ok_any else '')

    def _callers_ok(self, b, pidx, judge, depth):
        callers = self.callers(b.id)
        if not callers or b.def_kind == 'Closure':
            return False, 'parameter of %s without call sites to justify it' % b.short
        for (cb, bi, t) in callers:
            if pidx - 1 >= len(t['args']):
                return False, 'arity mismatch'
            ok, why = judge(cb, t['args'][pidx - 1], depth + 1)
            if not ok:
                return False, 'caller %s: %s' % (cb.short, why)
        return True, ''

    # ------------------------------------------------------------------ formatted-text provenance
    def classify_text(self, b, origins, depth=0):
        """classify the provenance of a text value: set of tags from
        {'formatted', 'input', 'other:<desc>'}; looks through views, enum payloads built in local
        callees and by-value/by-ref parameters (all call sites)"""
        v = self.view(b)
        tags = set()
        for o in v.pv.through(origins, VIEW):
            o = strip_casts(o)
            kind, data, proj = o
            if kind == 'call':
                t = v.pv.call_term(o)
                p = resolved_path(t) or ''
                if CORE_FORMAT.search(p) and proj == (('v', 0), ('f', 0)):
                    tags.add('formatted')
                    continue
                if CORE_FORMAT.search(p) and not proj and p.endswith('format_with_width'):
                    tags.add('formatted')
                    continue
                if re.search(r'std::fs::read_to_string$|Read>::read_to_string$|Read::read_to_string$', p):
                    tags.add('input')
                    continue
                if re.search(r'FromResidual.*::from_residual$', p) and proj[:1] == (('v', 0),):
                    continue       # `?` residual: an Err value, it has no Ok payload
                if re.search(r'String::new$|String::with_capacity$', p) and not proj and self._filled_by_read(v, t['dest']['l']):
                    tags.add('input')
                    continue
                rid = resolved_id(t)
                cb = self.w.bodies.get(rid)
                if cb is not None and depth < 4:
                    # Try::branch(x).Continue.0  ==  x.Ok.0
                    tags |= self._callee_payload(cb, proj, depth)
                    continue
                if p.endswith('Try>::branch') or p.endswith('Try::branch'):
                    inner = v.pv.origins_operand(t['args'][0])
                    if proj[:2] == (('v', 0), ('f', 0)):
                        # Continue payload == Ok payload; applied step by step so that a Result built in an expanded helper (`Ok(content)`) resolves to its operand
                        cur = v.pv.peel(inner)
                        for e in (('v', 0), ('f', 0)) + tuple(proj[2:]):
                            nxt = set()
                            for x in cur:
                                nxt |= v.pv._project(x, e, frozenset())
                            cur = v.pv.peel(nxt)
                        tags |= self.classify_text(b, cur, depth + 1)
                        continue
                if re.search(r'with_context$|::context$|map_err$', p) and t['args']:
                    inner = v.pv.origins_operand(t['args'][0])
                    tags |= self.classify_text(b, {(x[0], x[1], x[2] + proj) for x in v.pv.peel(inner)}, depth + 1)
                    continue
                tags.add('other:' + v.describe(o))
            elif kind == 'param' and depth < 4:
                # all call sites
                callers = self.callers(b.id)
                if not callers:
                    tags.add('other:param-without-callers')
                for (cb, bi, t) in callers:
                    idx = data - 1
                    if b.def_kind == 'Closure':
                        tags.add('other:closure-param')
                        continue
                    cv = self.view(cb)
                    ors = cv.pv.peel(cv.pv.origins_operand(t['args'][idx]))
                    tags |= self.classify_text(cb, {(x[0], x[1], x[2] + proj) for x in ors}, depth + 1)
            elif kind == 'call' or kind == 'const':
                tags.add('other:' + v.describe(o))
            else:
                tags.add('other:' + v.describe(o))
        return tags

    def _filled_by_read(self, v, local):
        """out-parameter idiom: `reader.read_to_string(&mut buf)`"""
        for bi, t in v.b.calls():
            p = resolved_path(t) or ''
            if re.search(r'Read>::read_to_string$|Read::read_to_string$', p) and len(t['args']) == 2:
                if any(o == ('ref', (local, ()), ()) for o in v.pv.origins_operand(t['args'][1])):
                    return True
        return False

    def _callee_payload(self, cb, proj, depth):
        """value = <result of local fn cb> projected by proj: find what cb returns there"""
        v = self.view(cb)
        tags = set()
        found = False
        for bi, blk in enumerate(cb.blocks):
            if blk['cleanup']:
                continue
            for si, s in enumerate(blk['stmts']):
                if s['s'] == 'assign' and s['p']['l'] == 0 and not s['p']['proj']:
                    found = True
                    ors = v.pv._origin_of_def(0, 'rv', bi, si, s['rv'], frozenset())
                    for o in ors:
                        cur = {o}
                        ok = True
                        for e in proj:
                            nxt = set()
                            for x in cur:
                                if x[0] == 'agg' and e[0] == 'v':
                                    rv = v.pv.agg_rvalue(x)
                                    if rv.get('variant') != e[1]:
                                        continue      # a different variant is returned here: not this payload
                                nxt |= v.pv._project(x, e, frozenset())
                            cur = nxt
                        if cur:
                            tags |= self.classify_text(cb, cur, depth + 1)
            t = blk['term']
            if t['t'] == 'call' and t['dest']['l'] == 0 and not t['dest']['proj']:
                found = True
                tags |= self.classify_text(cb, {('call', (bi, callee_path(t) or ''), proj)}, depth + 1)
        if not found:
            tags.add('other:no-return-in-%s' % cb.short)
        return tags
