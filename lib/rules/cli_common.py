"""Anchors and shared predicates for the CLI properties (C14, C15, C16)."""
import re
import effects
from prov import strip_casts
from mirfacts import callee_path, resolved_id, resolved_path
from paths import BodyView
from framework import AnchorMissing

CHECK = 'field:typstyle::cli::CliArguments.check'
INPLACE = 'field:typstyle::cli::CliArguments.inplace'
VIEW = re.compile(r'(Deref>::deref|Deref::deref|::as_str|::as_ref|::borrow|::as_path|AsRef<.*>::as_ref|::as_mut_str|Clone>::clone|Clone::clone|::to_owned|::to_string|::into)$')
CORE_FORMAT = re.compile(r'^typstyle_core::Typstyle::(format_content|format_source|format_source_inspect|format_source_range)$|^typstyle_core::format_with_width$')


class Cli:
    def __init__(self, w):
        self.w = w
        if w.cli is None:
            raise AnchorMissing('crate typstyle (CLI) is not part of this build configuration')
        self.views = {}
        self.main = self._one('typstyle::main')
        self.writers = self._writers()

    def view(self, b):
        if b.id not in self.views:
            self.views[b.id] = BodyView(self.w, b)
        return self.views[b.id]

    def _one(self, bid):
        b = self.w.bodies.get(bid)
        if b is None:
            raise AnchorMissing(bid)
        return b

    def fns(self):
        return list(self.w.fn_bodies(self.w.cli))

    def _writers(self):
        """[(body, bb, term, path)] direct file-mutating extern calls in the CLI crate"""
        out = []
        for b in self.fns():
            for (bi, t, path, c) in self.w.extern_calls(b.id):
                if t is not None and effects.FILE_MUTATING.search(path):
                    out.append((b, bi, t, path))
        return out

    def callers(self, body_id):
        out = []
        for b in self.fns():
            for bi, t in b.calls():
                if resolved_id(t) == body_id or (t.get('callee') and t['callee']['def']['id'] == body_id):
                    out.append((b, bi, t))
        return out

    def core_format_calls(self):
        out = []
        for b in self.fns():
            for bi, t in b.calls():
                p = resolved_path(t) or ''
                if CORE_FORMAT.search(p):
                    out.append((b, bi, t, p))
        return out

    # ------------------------------------------------------------------ formatted-text provenance
    def classify_text(self, b, origins, depth=0):
        """classify the provenance of a text value: set of tags from
        {'formatted', 'input', 'other:<desc>'}; looks through views, enum payloads built in local
        callees and by-value/by-ref parameters (all call sites)"""
        v = self.view(b)
        tags = set()
        for o in v.pv.through(origins, VIEW):
            o = strip_casts(o)
            kind, data, proj = o
            if kind == 'call':
                t = v.pv.call_term(o)
                p = resolved_path(t) or ''
                if CORE_FORMAT.search(p) and proj == (('v', 0), ('f', 0)):
                    tags.add('formatted')
                    continue
                if CORE_FORMAT.search(p) and not proj and p.endswith('format_with_width'):
                    tags.add('formatted')
                    continue
                if re.search(r'std::fs::read_to_string$|Read>::read_to_string$|Read::read_to_string$', p):
                    tags.add('input')
                    continue
                if re.search(r'FromResidual.*::from_residual$', p) and proj[:1] == (('v', 0),):
                    continue       # `?` residual: an Err value, it has no Ok payload
                if re.search(r'String::new$|String::with_capacity$', p) and not proj and self._filled_by_read(v, t['dest']['l']):
                    tags.add('input')
                    continue
                rid = resolved_id(t)
                cb = self.w.bodies.get(rid)
                if cb is not None and depth < 4:
                    # Try::branch(x).Continue.0  ==  x.Ok.0
                    tags |= self._callee_payload(cb, proj, depth)
                    continue
                if p.endswith('Try>::branch') or p.endswith('Try::branch'):
                    inner = v.pv.origins_operand(t['args'][0])
                    if proj[:2] == (('v', 0), ('f', 0)):
                        tags |= self.classify_text(b, {(x[0], x[1], x[2] + (('v', 0), ('f', 0)) + proj[2:]) for x in v.pv.peel(inner)}, depth + 1)
                        continue
                if re.search(r'with_context$|::context$|map_err$', p) and t['args']:
                    inner = v.pv.origins_operand(t['args'][0])
                    tags |= self.classify_text(b, {(x[0], x[1], x[2] + proj) for x in v.pv.peel(inner)}, depth + 1)
                    continue
                tags.add('other:' + v.describe(o))
            elif kind == 'param' and depth < 4:
                # all call sites
                callers = self.callers(b.id)
                if not callers:
                    tags.add('other:param-without-callers')
                for (cb, bi, t) in callers:
                    idx = data - 1
                    if b.def_kind == 'Closure':
                        tags.add('other:closure-param')
                        continue
                    cv = self.view(cb)
                    ors = cv.pv.peel(cv.pv.origins_operand(t['args'][idx]))
                    tags |= self.classify_text(cb, {(x[0], x[1], x[2] + proj) for x in ors}, depth + 1)
            elif kind == 'call' or kind == 'const':
                tags.add('other:' + v.describe(o))
            else:
                tags.add('other:' + v.describe(o))
        return tags

    def _filled_by_read(self, v, local):
        """out-parameter idiom: `reader.read_to_string(&mut buf)`"""
        for bi, t in v.b.calls():
            p = resolved_path(t) or ''
            if re.search(r'Read>::read_to_string$|Read::read_to_string$', p) and len(t['args']) == 2:
                if any(o == ('ref', (local, ()), ()) for o in v.pv.origins_operand(t['args'][1])):
                    return True
        return False

    def _callee_payload(self, cb, proj, depth):
        """value = <result of local fn cb> projected by proj: find what cb returns there"""
        v = self.view(cb)
        tags = set()
        found = False
        for bi, blk in enumerate(cb.blocks):
            if blk['cleanup']:
                continue
            for si, s in enumerate(blk['stmts']):
                if s['s'] == 'assign' and s['p']['l'] == 0 and not s['p']['proj']:
                    found = True
                    ors = v.pv._origin_of_def(0, 'rv', bi, si, s['rv'], frozenset())
                    for o in ors:
                        cur = {o}
                        ok = True
                        for e in proj:
                            nxt = set()
                            for x in cur:
                                if x[0] == 'agg' and e[0] == 'v':
                                    rv = v.pv.agg_rvalue(x)
                                    if rv.get('variant') != e[1]:
                                        continue      # a different variant is returned here: not this payload
                                nxt |= v.pv._project(x, e, frozenset())
                            cur = nxt
                        if cur:
                            tags |= self.classify_text(cb, cur, depth + 1)
            t = blk['term']
            if t['t'] == 'call' and t['dest']['l'] == 0 and not t['dest']['proj']:
                found = True
                tags |= self.classify_text(cb, {('call', (bi, callee_path(t) or ''), proj)}, depth + 1)
        if not found:
            tags.add('other:no-return-in-%s' % cb.short)
        return tags
