"""C18 - work grows linearly with input size (the structural clauses that rule out exponential re-conversion)."""
import re
import grammar
import kindflow as kf
import sites as sm
from sites import run_function
from kindflow import Agg, Node, Const, Doc, Text, TOP, Top
from mirfacts import callee_path, resolved_id
from framework import RuleResult, AnchorMissing
from rules.e2 import last
from rules import e2, c05

META = {
    'explanation': 'E2 abstract evaluation plus the size-change argument of C05: (R1) in every function or closure returning Option<document> no conversion has '
                   'happened on any path that ends in None, so the fall-back conversion in the caller is the first one; (R2) on no evaluated path - complete path '
                   'through a converter or single iteration of a dispatch loop - is the same node converted twice (calls known to convert disjoint parts of one '
                   'node are a table with the reason); (R3) every recursive cycle of the converter call graph strictly descends the syntax tree.  Together: each call '
                   'f(n) issues at most one conversion per child of n, so the number of conversions is bounded by a constant times the number of nodes.',
    'decides': 'the exponential "try a layout, then fall back, converting the children both times" pattern cannot be expressed without tripping R1 or R2',
    'does_not_decide': 'the renderer\'s cost (group fitting is the pretty crate\'s), allocation sizes (C05), constant factors, the quadratic-at-worst re-resolution of a dot chain '
                       'when the chain layout is declined at each level, two separate loops over overlapping slices of the same children',
    'trusted_base': ['grammar tables (typst-syntax 0.13.1)', 'disjointness table in lib/rules/c18.py', 'rustc MIR construction'],
}

# same node handed to two converters that convert disjoint sets of its children
DISJOINT = {
    ('convert_func_call_args', 'Args'): 'parenthesised part (up to `)`) vs trailing content blocks (after `)`)',
    ('convert_args', 'Args'): 'parenthesised part (up to `)`) vs trailing content blocks (after `)`)',
    ('convert_set_rule', 'Args'): 'set rule arguments have no trailing content blocks converted separately',
}
# pairs of converters that one converter may apply to its own node / the parts of it on the same path, because they convert disjoint children
DISJOINT_PAIRS = {
    'convert_func_call_args': {frozenset(('convert_parenthesized_args', 'convert_additional_args')), frozenset(('convert_table', 'convert_additional_args')),
                               frozenset(('convert_parenthesized_args_as_list', 'convert_additional_args'))},      # `( .. )` part vs trailing content blocks
    'convert_args': {frozenset(('convert_parenthesized_args', 'convert_additional_args'))},
}
UNEVALUATED_OK = {
    'convert_table': 'the cell loops are evaluated per iteration in the site table; the header / columns analysis multiplies the complete paths beyond the bound',
}
LEAFY = re.compile(r'convert_(trivia|verbatim|comment|ident|text|space|literal)|::comment$')


def r1_none_before_convert(w):
    r = RuleResult('C18.R1', 'no conversion has happened on any path of an Option<document> function that ends in None', floor=10)
    core = w.core
    n = 0
    for b in w.fn_bodies(core):
        ret = b.locals[0]['ty']['s']
        if not ret.startswith('std::option::Option<pretty::DocBuilder'):
            continue
        if not b.short.startswith('pretty::'):
            continue
        params = {}
        first = 2 if b.def_kind == 'Closure' else 1
        for i in range(first, b.arg_count + 1):
            s = b.locals[i]['ty']['s']
            if s.startswith('&typst_syntax::SyntaxNode') or grammar.ast_type_name(b.locals[i]['ty']):
                params[i] = Node('parent', None)
        res = run_function(w, b, params, no_inline=lambda tb: tb.short.startswith('attr::') or 'get_fold_style' in tb.short or tb.short.endswith('::print_doc'),
                           max_paths=6000, max_steps=200000)
        n += 1
        cons = {'fn': b.short.split('pretty::', 1)[-1]}
        if res is None:
            r.bad(cons, '%s|not-evaluated' % last(b.short), '%s could not be evaluated within bounds' % b.short, b.loc())
            continue
        bad = None
        for result, events, assumed in res:
            # a result that is not definitely Some (None, or an Option the evaluator could not resolve) may be None
            if not (isinstance(result, Agg) and result.adt.endswith('Option') and result.variant == 'Some'):
                convs = [e for e in events if e[0] == 'convert' and not LEAFY.search(e[1])]
                if convs:
                    bad = [last(e[1]) for e in convs][:3]
                    break
        if bad:
            r.bad(cons, '%s|convert-then-none' % b.short.split('pretty::', 1)[-1],
                  '%s converts children (%s) on a path that then returns None: the caller\'s fall-back converts them again, and nested occurrences multiply the work '
                  'exponentially with the nesting depth' % (b.short, bad), b.loc())
        else:
            r.ok(cons, 'every None path is conversion-free (%d paths)' % len(res))
    if n < 10:
        raise AnchorMissing('Option<document> functions (found %d)' % n)
    return r


def _dups(converts):
    seen = {}
    out = []
    for (fn, node, mode, supp) in converts:
        if LEAFY.search(fn):
            continue
        if isinstance(node, Node):
            key = (node.tag, node.kind, node.linebreak)
            if key in seen:
                out.append((seen[key], fn, node))
            else:
                seen[key] = fn
    return out


def r2_no_double_conversion(w):
    r = RuleResult('C18.R2', 'no evaluated path (complete converter path or single loop iteration) converts the same node twice', floor=120)
    tab = e2.site_table(w)
    se = sm.SiteEvaluator(w)
    se.evaluate_all()
    n = 0
    for (fn, parent), outs in sorted(tab.items()):
        bad = None
        for o in outs or []:
            d = _dups(o.converts or [])
            d = [x for x in d if x[2].tag.startswith('child')]
            if d:
                bad = (o, d[0])
                break
        n += 1
        cons = {'converter': last(fn), 'parent': parent, 'iterations_evaluated': len(outs or [])}
        if bad:
            o, (f1, f2, node) = bad
            r.bad(cons, '%s|%s|iteration|%s' % (last(fn), parent, node.kind),
                  'in one iteration of %s (loop %s) the %s child is converted twice (%s and %s): conversion work doubles at every nesting level'
                  % (last(fn), last(o.loop[0]), node.kind, last(f1), last(f2)))
        else:
            r.ok(cons, 'each child converted at most once per iteration')
    import itertools
    for (fn, parent), wholes in sorted(se.wholes.items()):
        if wholes is None:
            # complete paths exceeded the evaluator's bounds: accepted only for the converters listed (their loops are covered per iteration above)
            cons = {'converter': last(fn), 'parent': parent, 'complete_paths': 'not evaluated'}
            why = UNEVALUATED_OK.get(last(fn))
            if why:
                r.ok(cons, 'complete paths not evaluated: ' + why)
            else:
                r.bad(cons, '%s|%s|paths-not-evaluated' % (last(fn), parent),
                      'the complete paths of %s could not be evaluated within bounds, so a second conversion of its node on one path would go unnoticed (fail closed)' % last(fn))
            continue
        bad = None
        bad_pair = None
        for wh in wholes:
            d = [x for x in _dups(wh.converts or []) if x[2].tag == 'parent']
            if d and bad is None:
                bad = d[0]
            # several converters applied to the converter's own node parameters (the node and parts of it handed in separately, e.g. `func_call` and its
            # `args`) on one path: every pair has to be a confirmed pair of disjoint parts
            own = [(c[0], c[1]) for c in (wh.converts or []) if isinstance(c[1], Node) and c[1].tag in ('parent', 'parent2') and not LEAFY.search(c[0])]
            if len({n_.tag for _f, n_ in own}) > 1 or last(fn) in DISJOINT_PAIRS:
                for (f1, n1), (f2, n2) in itertools.combinations(own, 2):
                    if frozenset((last(f1), last(f2))) not in DISJOINT_PAIRS.get(last(fn), ()) and bad_pair is None:
                        bad_pair = (f1, f2)
        n += 1
        cons = {'converter': last(fn), 'parent': parent, 'complete_paths': len(wholes)}
        if bad_pair:
            f1, f2 = bad_pair
            r.bad(cons, '%s|%s|twice' % (last(fn), parent),
                  '%s hands its own node (or a part of it that it was given separately) to two converters on one path (%s and %s) and the pair is not in the table of disjoint parts: '
                  'the subtree is converted twice - one result is thrown away - which multiplies with nesting (`x.unwrap_or(self.convert_b(..))` evaluates the fallback eagerly)'
                  % (last(fn), last(f1), last(f2)))
        elif bad:
            f1, f2, node = bad
            why = DISJOINT.get((last(fn), parent))
            if why:
                r.ok(cons, 'same node, disjoint children: ' + why)
            else:
                r.bad(cons, '%s|%s|twice' % (last(fn), parent),
                      '%s hands its own %s node to two converters on one path (%s and %s) and no table entry says they convert disjoint children: the subtree is converted twice, '
                      'which multiplies with nesting' % (last(fn), parent, last(f1), last(f2)))
        else:
            r.ok(cons, 'own node handed to at most one converter per path')
    if n < 80:
        raise AnchorMissing('converter evaluations (found %d)' % n)
    return r


def r3_recursion_descends(w):
    r = RuleResult('C18.R3', 'every recursive cycle of the converter call graph strictly descends the syntax tree', floor=40)
    for ok, cons, key, why, loc in c05.fn_param_call_obligations(w) + c05.recursion_obligations(w):
        if ok:
            r.ok(cons, why)
        else:
            r.bad(cons, key, why, loc)
    return r


RULES = [r1_none_before_convert, r2_no_double_conversion, r3_recursion_descends]
for _f in RULES:
    _f.needs = ('core',)
MATRIX_RULES = [r3_recursion_descends]
EXTRA_CONFIGS = ['core-serde']
