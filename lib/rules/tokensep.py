"""Token separation at the flow sites (C04.R3, shared as C01.R6): tokens that had whitespace between them in the source and that the
lexer would fuse are still separated in the document the converter returns.  See lib/tokens.py for the method."""
import hashlib, os, pickle
import grammar
import sites as sm
import tokens
from kindflow import Node, Agg, Const
from framework import RuleResult, AnchorMissing

SP = Node('child', 'Space', False)


def _expand(shape):
    """concrete sequences of a shape: every adjacent pair of elements varied jointly over the kinds of its slots, the others at their default"""
    shape = [e.split('@')[0] for e in shape]
    slots = [grammar.SLOTS.get(e) for e in shape]
    dflt = [grammar.SLOT_DEFAULT.get(e, e) for e in shape]
    out = []
    seen = set()

    def add(seq):
        t = tuple(seq)
        if t not in seen:
            seen.add(t)
            out.append(list(seq))
    add(dflt)
    n = len(shape)
    for j in range(n):
        for a in (slots[j] or [shape[j]]):
            s1 = list(dflt)
            s1[j] = a
            if j + 1 < n:
                for b in (slots[j + 1] or [shape[j + 1]]):
                    s2 = list(s1)
                    s2[j + 1] = b
                    add(s2)
            else:
                add(s1)
    return out


def _accessor_model(seq_kinds, g):
    """typed accessors whose answer is a function of the child sequence under evaluation"""
    def am(interp, path, args):
        if path.startswith('typst_syntax::ast::Unary::') and path.endswith('::op'):
            for k in seq_kinds:
                v = g['unop_from_kind'].get(k)
                if v:
                    return Agg('typst_syntax::ast::UnOp', v, [])
            return None
        if path.startswith('typst_syntax::ast::Binary::') and path.endswith('::op'):
            ks = [k for k in seq_kinds]
            for idx, k in enumerate(ks):
                if k == 'Not' and idx + 1 < len(ks) and ks[idx + 1] == 'In':
                    return Agg('typst_syntax::ast::BinOp', 'NotIn', [])
                v = g['binop_from_kind'].get(k)
                if v and idx > 0:
                    return Agg('typst_syntax::ast::BinOp', v, [])
            return None
        if path.startswith('typst_syntax::ast::Closure::') and path.endswith('::name'):
            if seq_kinds and seq_kinds[0] == 'Ident' and len(seq_kinds) > 1 and seq_kinds[1] == 'Params':
                return Agg('core::option::Option', 'Some', [Node('child', 'Ident')])
            return Agg('core::option::Option', 'None', [])
        return None
    return am


def _sequences(K):
    out = []
    for shape in grammar.SHAPES[K]:
        override = {e.split('@')[0]: (frozenset([e.split('@')[1]]), None) for e in shape if '@' in e}
        for kinds in _expand(shape):
            out.append((kinds, override))
    return out


def _work(args):
    w, b, i, K, chunk = args
    g = grammar.load()
    out = []
    for kinds, override in chunk:
            seq = []
            for n, k in enumerate(kinds):
                if n:
                    seq.append(SP)
                seq.append(Node('child', k))
            res = sm.evaluate_sequence(w, b, i, K, seq + ['END'], from_start=True, accessor_model=_accessor_model(kinds, g), later_loops_empty=True)
            if res is None:
                out.append((kinds, None))
                continue
            paths = []
            seen_paths = set()
            for item in res:
                if len(item) < 4 or not item[3] or item[3][0] != 'ended':
                    continue
                doc = item[3][1]
                if not hasattr(doc, 'atoms'):
                    continue
                wk = tokens.Walk(override)
                wk.run(doc)
                emitted = sum(1 for a in doc.flat() if a[0] in ('text', 'conv'))
                rec = {'loop': item[0][0].rsplit('::', 1)[-1], 'touches': wk.touches[:2], 'unknown': wk.unknown, 'pairs': wk.pairs, 'emitted': emitted,
                       'assumed': [('::'.join(a[0].rsplit('::', 2)[-2:]), a[3], a[4]) for a in item[2]][:3]}
                key = repr(rec)
                if key not in seen_paths:
                    seen_paths.add(key)
                    paths.append(rec)
            out.append((kinds, paths))
    return (b.short, K, out)


def table(w):
    """{(converter, parent): [(kinds, paths)]} cached next to the facts"""
    here = os.path.dirname(os.path.dirname(os.path.abspath(__file__)))
    h = hashlib.sha256()
    for fn in ('sites.py', 'kindflow.py', 'grammar.py', 'tokens.py', 'rules/tokensep.py', 'mirfacts.py', 'inline.py', 'world.py', '../tables/typst_syntax_0.13.1.json'):
        h.update(open(os.path.join(here, fn), 'rb').read())
    cache = os.path.join(w.facts_dir, 'tokensep-%s.pickle' % h.hexdigest()[:16])
    if os.path.exists(cache):
        try:
            with open(cache, 'rb') as fh:
                return pickle.load(fh)
        except Exception:
            pass
    se = sm.SiteEvaluator(w)
    jobs = []
    for b, i, kinds in se.converters():
        if not se.has_node_loop(b):
            continue
        for K in kinds:
            if K in grammar.SHAPES:
                seqs = _sequences(K)
                for c in range(0, len(seqs), 40):
                    jobs.append((b.id, i, K, seqs[c:c + 40]))
    from parmap import parmap
    global _W
    _W = w
    res = parmap(_work_idx, jobs)
    tab = {}
    for fn, K, out in res:
        tab.setdefault((fn, K), []).extend(out)
    try:
        with open(cache, 'wb') as fh:
            pickle.dump(tab, fh)
    except Exception:
        pass
    return tab


_W = None


def _work_idx(a):
    bid, i, K, chunk = a
    return _work((_W, _W.bodies[bid], i, K, chunk))


def rule(w, rule_id):
    r = RuleResult(rule_id, 'tokens that the lexer would fuse stay separated (flow sites, every child sequence the grammar allows, Space between all elements)', floor=900)
    tab = table(w)
    if len(tab) < 18:
        raise AnchorMissing('only %d flow converters with a known child grammar found (expected >= 18)' % len(tab))
    undetermined = 0
    unknown_atoms = 0
    for (fn, K), seqs in sorted(tab.items()):
        short = fn.rsplit('::', 1)[-1]
        for kinds, paths in seqs:
            cons = {'converter': short, 'parent': K, 'children': ' '.join(kinds)}
            if paths is None:
                r.bad(cons, '%s|%s|not-evaluated' % (short, K), 'sequence evaluation exceeded its bounds in %s' % fn)
                continue
            flow = [p for p in paths if p['loop'] == 'convert_flow_like_iter' or p['emitted']]
            if not flow:
                r.ok(cons, 'not printed by a child loop on this sequence')
                continue
            unknown_atoms += sum(p['unknown'] for p in flow)
            bad = [p for p in flow if p['touches']]
            if not bad:
                r.ok(cons, '%d path(s): every pair of touching tokens is non-fusing' % len(flow))
                continue
            # a path that depends on an answer the evaluator had to assume counts only if every path fuses (the assumption is then irrelevant)
            firm = [p for p in bad if not p['assumed']]
            if firm or len(bad) == len(flow):
                p = (firm or bad)[0]
                t = p['touches'][0]
                r.bad(cons, '%s|%s|%s|%s' % (short, K, t[0].split('(')[-1].rstrip(')').replace('text of ', '').replace('literal ', ''),
                                            t[2].split('(')[-1].rstrip(')').replace('text of ', '').replace('literal ', '')),
                      'for the children <%s> (a Space between every two) %s emits %s directly followed by %s: written without whitespace the lexer reads %s '
                      'as one token / another token' % (' '.join(kinds), fn, t[0], t[2], ' or '.join('`%s%s`' % x for x in t[4][:3])))
            else:
                undetermined += 1
                r.ok(cons, 'fusing only on paths that depend on an unmodelled answer (%s); other paths separate' % (bad[0]['assumed'][:2],), undetermined=True)
    r.note('%d sequences undetermined (fusion only under an assumption the evaluator could not decide), %d unknown document atoms treated as separators' % (undetermined, unknown_atoms))
    return r
