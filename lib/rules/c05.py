"""C05 - totality: never panics or hangs; refuses exactly the erroneous inputs.

R1 refusal guard, R2 fallback, R3 partial-operation inventory with discharge, R4 termination.
"""
import re
import cfg
import effects
import grammar
from prov import Prov, strip_casts, place_key
from mirfacts import callee_path, resolved_id, resolved_path, callee_str
from paths import BodyView
from tyutil import name_projection
from framework import RuleResult, AnchorMissing

META = {
    'explanation': 'Over the MIR of typstyle-core: (R1) every conversion entry is dominated by the false edge of SyntaxNode::erroneous() on the node '
                   'being converted and the refusal value is built only on the true edge; (R2) the width-only convenience function returns its own input '
                   'on the refusal edge; (R3) every partial operation (unwrap/expect, index/slice, Vec::remove, explicit panic, allocation sized by a '
                   'value, MIR Assert for bounds/overflow/division) reachable from a whole-document entry is an obligation that must be discharged by a '
                   'dominating kind guard (D1), a dominating bound comparison (D2), a derived bound (D3), an allocation-size provenance (D5), a benign '
                   'class (counter+1, full-range drain, sums of input lengths) or an entry of the frozen axiom table (D6, one line of reason each); '
                   '(R4) every loop is driven by an iterator created outside it (or pops the collection it inspects), the one hand-written iterator steps '
                   'through a descending accessor, and every recursive cycle of the converter call graph contains an edge that descends the syntax tree.',
    'decides': 'absence of undischarged panic sites in typstyle\'s own code on the accepting path, the refusal/fallback logic, loop and recursion termination',
    'does_not_decide': 'stack depth / memory for deep nesting; panics or non-termination inside typst_syntax::parse and pretty::render (trusted base); '
                       'the direction "never refuses a well-formed text" beyond the single Err site',
    'trusted_base': ['typst_syntax::parse is total; error-free trees obey the grammar table (tables/typst_syntax_0.13.1.json)', 'pretty renderer is total',
                     'axiom table in lib/rules/c05.py (parser-output facts, one reason each)', 'rustc MIR construction (Assert terminators are complete for built-in arithmetic/indexing)'],
}

RANGE_ENTRY_RE = re.compile(r'format_source_range$')


def scope(w):
    """(doc_reach, range_only): body ids reachable from whole-document public entries / only from the range entry"""
    core = w.core
    roots_doc, roots_range = [], []
    for b in w.fn_bodies(core):
        if b.def_kind == 'Closure' or not b.j.get('effective_pub'):
            continue
        if (b.j.get('impl_trait') or {}).get('path', '').startswith('std::fmt'):
            continue
        if 'serde' in (b.j.get('impl_trait') or {}).get('path', ''):
            continue          # (de)serialisation of Config (feature `serde`): not part of formatting a text
        if _is_range_entry(b):
            roots_range.append(b.id)
        else:
            roots_doc.append(b.id)
    if not roots_range:
        raise AnchorMissing('range-formatting entry (public fn returning (Range<usize>, String))')
    doc = {x for x in w.reachable(roots_doc) if x.startswith('typstyle_core')}
    rng = {x for x in w.reachable(roots_range) if x.startswith('typstyle_core')}
    return doc, rng - doc, roots_range


def _is_range_entry(b):
    ret = b.locals[0]['ty']['s']
    return 'std::ops::Range<usize>' in ret and 'String' in ret and b.j.get('effective_pub')


# --------------------------------------------------------------------------------------------- R1
CONVERTER_RE = re.compile(r'::convert_\w+$')


_ENTRY_CACHE = {}
_REC_CACHE = {}


def is_recursive(w, cb):
    """the function can reach itself in the call graph (directly, or through a closure it creates)"""
    key = (id(w), cb.id)
    if key not in _REC_CACHE:
        edges, _ = w.callgraph()
        _REC_CACHE[key] = cb.id in w.reachable(edges.get(cb.id, ()))
    return _REC_CACHE[key]


def entry_body(w, b):
    """the entry with its own helpers expanded (inline.py): everything of typstyle-core outside the printer (`pretty::`) and the attribute pass
    (`attr::`) that is not recursive - helpers in lib.rs / partial.rs / utils.rs.  Extracting a block of an entry into such a helper, or moving a
    test into the helper that produces the tested value, leaves this body unchanged."""
    key = (id(w), b.id)
    if key not in _ENTRY_CACHE:
        import inline

        def pred(cb, t, depth):
            if cb.crate is not w.core or cb.short.startswith(('pretty::', 'attr::')):
                return False
            if is_recursive(w, cb):
                return False          # recursive (the cover search)
            if cb.locals[0]['ty']['s'] == 'std::string::String' and cb.arg_count == 1 and cb.locals[1]['ty']['s'].replace("'_ ", '').replace("'a ", '') in ('&str', '&std::string::String'):
                return False          # a text -> text function (the post-processor of the rendered text): a unit of its own for C10 / C11
            return True
        _ENTRY_CACHE[key] = inline.inline_body(w, b, pred)
    return _ENTRY_CACHE[key]


def r1_refusal_guard(w):
    r = RuleResult('C05.R1', 'conversion is dominated by !erroneous() of the node converted; the refusal is built only on the erroneous edge', floor=8)
    core = w.core
    entries = [b for b in w.fn_bodies(core) if b.def_kind == 'AssocFn' and b.j.get('effective_pub')
               and (b.j.get('impl_self') or {}).get('s') == 'Typstyle' and 'String' in b.locals[0]['ty']['s'] and b.locals[0]['ty']['s'].startswith('std::result::Result<')]
    if len(entries) < 3:
        raise AnchorMissing('public Typstyle methods returning Result<..String..> (found %d)' % len(entries))
    for b0 in entries:
        b = entry_body(w, b0)
        v = BodyView(w, b)
        guarded_calls = 0
        for bi, t in b.calls():
            rid = resolved_id(t) or ''
            cb = w.bodies.get(rid)
            p = (cb.short if cb else (callee_path(t) or ''))
            is_conv = cb is not None and cb.crate is core and (CONVERTER_RE.search(cb.short) or cb.short.endswith('AttrStore::new')
                                                                or re.search(r'attr::\{impl#\d+\}::new$', cb.short) or re.search(r'pretty::\{impl#\d+\}::new$', cb.short))
            if not is_conv:
                continue
            cons = {'entry': b.short, 'call': p, 'bb': bi}
            ok, why = _erroneous_guard(w, v, bi, want=False)
            if ok:
                guarded_calls += 1
                r.ok(cons, why)
            else:
                r.bad(cons, '%s|unguarded|%s' % (b.short, p.rsplit('::', 1)[-1]),
                      '%s calls %s without a dominating "!erroneous()" test of the node: a tree with syntax errors would be converted (panics in converters that rely on '
                      'error-free structure, or silently reformatted garbage)' % (b.short, p), b.loc(t['span']))
        # Err construction sites
        for bi, blk in enumerate(b.blocks):
            if blk['cleanup']:
                continue
            for s in blk['stmts']:
                if s['s'] == 'assign' and s['rv']['r'] == 'agg' and s['rv'].get('vname') == 'Err' and s['rv'].get('path', '').endswith('Result') \
                        and (s['p']['l'] == 0 or blk.get('inl')):
                    cons = {'entry': b.short, 'constructs': 'Err', 'bb': bi}
                    ok, why = _erroneous_guard(w, v, bi, want=True)
                    if ok:
                        r.ok(cons, why)
                    else:
                        r.bad(cons, '%s|err-site' % b.short,
                              '%s builds its refusal value on a path that is not the erroneous edge (%s): well-formed input could be refused' % (b.short, why), b.loc(s['span']))
        # delegating entries (no converter call of their own) must delegate to an entry
        if guarded_calls == 0:
            deleg = [t for bi, t in b.calls() if resolved_id(t) in {e.id for e in entries}]
            cons = {'entry': b.short, 'delegates': [w.bodies[resolved_id(t)].short for t in deleg]}
            if deleg:
                r.ok(cons, 'delegates to a guarded entry')
            else:
                r.bad(cons, '%s|no-conversion' % b.short, '%s neither converts under a guard nor delegates to an entry that does' % b.short, b.loc())
    return r


def _erroneous_guard(w, v, bi, want):
    """block dominated by erroneous()==want.  Accepted idioms: direct branch; Option::filter(|..| !node.erroneous()) followed by a
    Some/None test (Some == not erroneous); for want=True additionally: the final else of a cast cascade (no Markup/Expr/Pattern)"""
    b = v.b
    if want:
        return _refusal_only(w, v, bi)
    for atom, vals, sw in v.guards_ext(bi):
        if not isinstance(sw, int):
            continue
        st = b.blocks[sw]['term']
        for o in v.pv.peel(v.pv.origins_operand(st['discr'])):
            if o[0] == 'unop' and o[1][2] == 'Not' and vals in ({True}, {False}):
                # `!node.erroneous()` tested as a value (the expanded closure of Option::filter, a hoisted local)
                rv = b.blocks[o[1][0]]['stmts'][o[1][1]]['rv']
                for x in v.pv.peel(v.pv.origins_operand(rv['a'])):
                    if x[0] == 'call' and (callee_path(v.pv.call_term(x)) or '') == 'typst_syntax::SyntaxNode::erroneous' and vals == {not want}:
                        return True, 'dominated by !erroneous()==%s' % (not want)
            if o[0] == 'call':
                ct = v.pv.call_term(o)
                p = callee_path(ct) or ''
                if p == 'typst_syntax::SyntaxNode::erroneous' and vals == {want}:
                    return True, 'dominated by erroneous()==%s' % want
            if o[0] == 'discr':
                # discriminant of Option::filter(.., closure !erroneous)
                l, pr = o[1]
                for x in v.pv.peel(v.pv._origins(l, pr, frozenset())):
                    if x[0] == 'call' and (callee_path(v.pv.call_term(x)) or '').endswith('Option::<T>::filter'):
                        ft = v.pv.call_term(x)
                        if _filter_closure_is_not_erroneous(w, v, ft):
                            if (not want and vals == {'Some'}) or (want and vals == {'None'}):
                                return True, 'dominated by the %s edge of Option::filter(|n| !n.erroneous())' % ('Some' if not want else 'None')
    if want:
        # no cast matched: node is neither Markup, Expr nor Pattern - unreachable for a cover node, accepted as refusal
        nones = [vals for atom, vals, sw in v.guards(bi) if vals == {'None'} and 'cast' in atom]
        if len(nones) >= 1:
            return True, 'refusal after a failed cast cascade'
    return False, 'no dominating erroneous() test'


COMBINATORS = re.compile(r'(Option::<T>::(filter|and_then|map|ok_or|ok_or_else|or_else|zip|take|cloned|copied)|Result::<T, E>::(map|and_then|map_err|ok|or_else)|Try>?::branch)$')
NODE_LOOKUP = re.compile(r'^typst_syntax::(Source::find|LinkedNode::<.*>::(find|leaf_at|parent)|SyntaxNode::cast)$')


def _refusal_only(w, v, bi, _stack=()):
    """every path from the entry to block bi takes a *refusal edge*: the true edge of an erroneous() test, or the negative edge (None / Err / Break) of a
    value that comes - through Option/Result combinators and `?` - from the search for the node to format (the recursive cover search, Source::find, a
    node cast) or from Option::filter(|n| !n.erroneous()).  Decided by deleting the refusal edges and asking whether bi is still reachable."""
    b = v.b
    if len(_stack) > 6:
        return False, 'too deep'

    def derived(origins, depth=0):
        for x in origins:
            x = strip_casts(x)
            if x[0] != 'call':
                continue
            ct = v.pv.call_term(x)
            p = callee_path(ct) or ''
            rid = resolved_id(ct)
            cb = w.bodies.get(rid)
            if NODE_LOOKUP.search(p):
                return 'no node to format (%s)' % p.rsplit('::', 1)[-1]
            if cb is not None and cb.crate is w.core and is_recursive(w, cb) and cb.locals[0]['ty']['s'].startswith('std::option::Option<'):
                return 'no covering node (%s)' % cb.short
            if p.endswith('Option::<T>::filter') and _filter_closure_is_not_erroneous(w, v, ct):
                return 'Option::filter(|n| !n.erroneous())'
            if COMBINATORS.search(p) and ct['args'] and depth < 6:
                r_ = derived(v.pv.peel(v.pv.origins_operand(ct['args'][0])), depth + 1)
                if r_:
                    return r_
        return None

    reasons = set()

    def refusal(sbb, vals):
        st = b.blocks[sbb]['term']
        for o in v.pv.peel(v.pv.origins_operand(st['discr'])):
            o = strip_casts(o)
            if o[0] == 'call' and (callee_path(v.pv.call_term(o)) or '') == 'typst_syntax::SyntaxNode::erroneous' and vals == {True}:
                reasons.add('erroneous()')
                return True
            if o[0] == 'unop' and o[1][2] == 'Not' and vals == {False}:
                rv = b.blocks[o[1][0]]['stmts'][o[1][1]]['rv']
                if any(x[0] == 'call' and (callee_path(v.pv.call_term(x)) or '') == 'typst_syntax::SyntaxNode::erroneous' for x in v.pv.peel(v.pv.origins_operand(rv['a']))):
                    reasons.add('erroneous()')
                    return True
            if o[0] == 'discr' and vals and vals <= {'None', 'Err', 'Break'}:
                l, pr = o[1]
                srcs = v.pv.peel(v.pv._origins(l, pr, frozenset()))
                why = derived(srcs)
                if why:
                    reasons.add(why)
                    return True
                # a value built in this (expanded) body: the negative variant is built at known sites; the edge is a refusal edge when each of them
                # is itself reachable through refusal edges only
                want = set(vals)
                for _ in range(3):
                    nxt, changed = set(), False
                    for x in srcs:
                        x = strip_casts(x)
                        if x[0] == 'call' and not x[2] and re.search(r'Try>?::branch$', callee_path(v.pv.call_term(x)) or ''):
                            nxt |= v.pv.peel(v.pv.origins_operand(v.pv.call_term(x)['args'][0]))
                            changed = True
                        else:
                            nxt.add(x)
                    srcs = nxt
                    if not changed:
                        break

                def neg_site(x):
                    if x[0] == 'agg' and not x[2] and v.pv.agg_rvalue(x).get('vname'):
                        return x[1][0] if v.pv.agg_rvalue(x)['vname'] in ('None', 'Err', 'Break') else -1
                    if x[0] == 'call' and not x[2] and re.search(r'FromResidual.*::from_residual$', callee_path(v.pv.call_term(x)) or ''):
                        return x[1][0]
                    return None
                sites = [neg_site(x) for x in srcs]
                if srcs and all(z is not None for z in sites) and any(z >= 0 for z in sites):
                    if all(_refusal_only(w, v, z, _stack + (bi,))[0] for z in sites if z >= 0 and z not in _stack):
                        reasons.add('a refusal built earlier')
                        return True
        return False
    seen, work = set(), [0]
    while work:
        x = work.pop()
        if x in seen:
            continue
        seen.add(x)
        if x == bi:
            return False, 'reachable without passing an erroneous() test or a failed search for the node'
        t = b.blocks[x]['term']
        if t['t'] == 'switch':
            for tgt, label in v.switch_edges(x):
                if refusal(x, set(v.label_values(x, label))):
                    continue
                work.append(tgt)
        else:
            for sx in b.succs(x):
                if not b.blocks[sx]['cleanup']:
                    work.append(sx)
    return True, 'only reachable through refusal edges (%s)' % ', '.join(sorted(reasons))


def _filter_closure_is_not_erroneous(w, v, ft):
    for a in ft['args'][1:]:
        for o in v.pv.peel(v.pv.origins_operand(a)):
            if o[0] == 'agg' and v.pv.agg_rvalue(o).get('ak') == 'closure':
                cb = w.bodies.get(v.pv.agg_rvalue(o)['def']['id'])
                if cb is None:
                    return False
                cv = BodyView(w, cb)
                ret = cv.pv._origins_local(0, frozenset())
                if len(ret) == 1:
                    o2 = next(iter(ret))
                    if o2[0] == 'unop' and o2[1][2] == 'Not':
                        rv = cb.blocks[o2[1][0]]['stmts'][o2[1][1]]['rv']
                        for x in cv.pv.peel(cv.pv.origins_operand(rv['a'])):
                            if x[0] == 'call' and (callee_path(cv.pv.call_term(x)) or '') == 'typst_syntax::SyntaxNode::erroneous':
                                return True
    return False


# --------------------------------------------------------------------------------------------- R2
def r2_fallback(w):
    from rules import c16
    rs = c16.r4_fallback(w)
    rs.rule = 'C05.R2'
    rs.title = 'the width-only convenience function returns its input unchanged on the refusal edge (wasm export = plain call)'
    rs.floor = 4
    return rs


# --------------------------------------------------------------------------------------------- R3
def obligations(w, bodies):
    """yield dicts describing every partial operation in the given bodies"""
    # closures handed to std combinators / iterator consumers are judged inside the function that creates them (inline.desugared): the guard that
    # makes their operations safe is usually the combinator itself (`rfind(..).map(|pos| &s[pos + 1..])`)
    import inline
    expanded, todo = set(), []
    for bid in sorted(bodies):
        b = w.bodies[bid]
        if b.promoted is not None or b.crate is not w.core:
            continue
        nb = inline.desugared(w, b)
        expanded |= set(getattr(nb, 'expanded_closures', ()))
        todo.append(nb)
    for b in todo:
        if b.id in expanded:
            continue
        if (b.j.get('impl_trait') or {}).get('path', '').startswith(('std::fmt', 'core::fmt')):
            continue
        for bi, blk in enumerate(b.blocks):
            if blk['cleanup']:
                continue
            t = blk['term']
            if t['t'] == 'assert':
                yield dict(body=b, bb=bi, term=t, kind='assert', op=t['msg'] + (':' + t['binop'] if t.get('binop') else ''))
            elif t['t'] == 'call':
                p = resolved_path(t) or callee_path(t) or ''
                c = t.get('callee')
                if c and c['def'].get('local'):
                    continue
                m = p.rsplit('::', 1)[-1]
                cat = effects.PARTIAL_METHODS.get(m)
                if not cat:
                    continue
                if cat in ('insert', 'remove', 'drain', 'index') and re.search(r'Hash(Map|Set)|BTree', p):
                    continue
                if m == 'insert' and 'Vec' not in p and 'String' not in p:
                    continue
                yield dict(body=b, bb=bi, term=t, kind='call', op=cat, path=p)


def ob_key(v, ob):
    b = ob['body']
    t = ob['term']
    if ob['kind'] == 'assert':
        ops = ','.join(v.describe_operand(o, 2) for o in t['msg_ops'])
        return '%s|%s|%s' % (b.short, ob['op'], _stable(ops))
    args = ','.join(v.describe_operand(o, 2) for o in t['args'])
    return '%s|%s|%s|%s' % (b.short, ob['op'], ob['path'].rsplit('::', 1)[-1], _stable(args))


def _stable(s):
    s = re.sub(r'\{impl#\d+\}', '{impl}', s)
    s = re.sub(r'\{closure#\d+\}', '{closure}', s)
    return s[:160]


LEN_LIKE = re.compile(r'(::len|::count|::count_linebreaks|::len_bytes|::sum|::chars_count)$')


def _is_length(v, operand, depth=0):
    """operand is a length/count of input-derived data, or a sum / +const of such"""
    for o in v.pv.peel(v.pv.origins_operand(operand)):
        o = strip_casts(o)
        if o[0] == 'call':
            p = resolved_path(v.pv.call_term(o)) or callee_path(v.pv.call_term(o)) or ''
            dp = callee_path(v.pv.call_term(o)) or ''
            if LEN_LIKE.search(p) or LEN_LIKE.search(dp):
                continue
            if re.search(r'(unwrap_or_default|unwrap_or)$', dp) and depth < 3:
                continue
            return False
        if o[0] == 'binop' and depth < 3:
            rv = v.b.blocks[o[1][0]]['stmts'][o[1][1]]['rv']
            if rv['op'].startswith('Add') and _is_length(v, rv['a'], depth + 1) and (_is_length(v, rv['b'], depth + 1) or rv['b'].get('int') is not None):
                continue
            return False
        if o[0] == 'const':
            continue
        return False
    return True


def discharge(w, v, ob):
    """returns (rule, why) or None"""
    b, t, bi = ob['body'], ob['term'], ob['bb']
    if ob['kind'] == 'assert':
        msg = t['msg']
        if msg == 'overflow':
            a, c = t['msg_ops']
            if t['binop'] == 'Add' and c['o'] == 'const' and c.get('int') == 1:
                return 'class:counter+1', 'increment by one of a counter bounded by the number of nodes/items'
            if t['binop'] == 'Add' and _is_length(v, a) and (_is_length(v, c)):
                return 'class:length-sum', 'sum of lengths of input-derived data (bounded by the input size)'
            if t['binop'] == 'Mul' and (_zero_or_one(w, v, a) or _zero_or_one(w, v, c)):
                return 'class:zero-or-one-times', 'a product with a factor that is 0 or 1 (a yes/no count) cannot overflow'
            if t['binop'] == 'Sub' and _len_minus_sublen(v, a, c):
                return 'class:len-minus-sublen', 'len(x) - len(y) where y is x trimmed / stripped (a sub-slice of x is never longer than x)'
            if t['binop'] == 'Sub' and _len_minus_subcount(v, a, c):
                return 'class:len-minus-subcount', 'len(x) - n where n counts elements of an iterator over x that only drops elements (n <= len(x))'
            if t['binop'] == 'Sub' and c['o'] == 'const' and c.get('int') is not None:
                k = c['int']
                g = _bound_guard(v, bi, a, k)
                if g:
                    return 'D2', g
            return None
        if msg == 'bounds':
            # handled with the table / D3
            return None
        return None
    cat = ob['op']
    p = ob['path']
    if cat in ('unwrap', 'expect'):
        d1 = _kind_guard(w, v, bi, t)
        if d1:
            return 'D1', d1
        d6 = _first_of_nonempty(w, v, ob)
        if d6:
            return 'D6 fact', d6
        return None
    if cat in ('remove', 'index'):
        d6 = _first_of_nonempty(w, v, ob)
        if d6:
            return 'D6 fact', d6
        if cat == 'index':
            d3 = _index_len_minus_positive_count(v, bi, t)
            if d3:
                return 'D3', d3
        return None
    if cat == 'drain':
        # full-range drain cannot panic
        for o in v.pv.peel(v.pv.origins_operand(t['args'][1])) if len(t['args']) > 1 else []:
            if o[0] == 'const' or (o[0] == 'agg' and v.pv.agg_rvalue(o).get('path', '').endswith('RangeFull')):
                return 'class:full-range', 'drain(..) over the full range'
        a1 = t['args'][1] if len(t['args']) > 1 else None
        if a1 is not None and a1['o'] == 'const' and 'RangeFull' in a1['ty']['s']:
            return 'class:full-range', 'drain(..) over the full range'
        return None
    if cat == 'alloc-size':
        ok, why = _alloc_size_ok(w, v, t, 0)
        if ok:
            return 'D5', why
        return None
    return None


# D6 (facts): vectors that are never empty where their first element is taken; (function, type of the vector, reason).  Any way of taking the first
# element is discharged by the fact: remove(0), [0], first().unwrap(), into_iter().next().unwrap()/expect(..)
NONEMPTY_VECS = [
    (re.compile(r'^pretty::layout::chain::\{impl#\d+\}::print_doc$'), re.compile(r'^std::vec::Vec<pretty::DocBuilder<'),
     'a chain always yields >= 1 document: the innermost node of every resolved chain goes through the fallback converter and is pushed as Body'),
]
VEC_VIEW = re.compile(r'(IntoIterator>::into_iter|IntoIterator::into_iter|::iter|::iter_mut|Deref>::deref|Deref::deref|DerefMut>::deref_mut|DerefMut::deref_mut|::as_slice|::as_mut_slice)$')
NEXT_LIKE = re.compile(r'(Iterator::next|Iterator>::next|::nth|::skip|::advance_by|::next_back|::nth_back)$')


def _first_of_nonempty(w, v, ob, _depth=0):
    b, t, bi = ob['body'], ob['term'], ob['bb']
    facts = [(ty, why) for fn, ty, why in NONEMPTY_VECS if fn.search(b.short)]
    if not facts and _depth < 2 and ob['op'] in ('remove', 'index', 'unwrap', 'expect') and t['args']:
        # a helper that takes the vector by value from a function for which the fact is stated (`join_segments(arena, docs, ..)` out of print_doc):
        # the same operation is judged at every call site with the caller's vector in place of the parameter
        first = t['args'][0]
        srcs = [strip_casts(o) for o in v.pv.through(v.pv.origins_operand(first), VEC_VIEW)]
        if ob['op'] in ('remove', 'index') and srcs and all(o[0] == 'param' and not o[2] for o in srcs) and len(t['args']) > 1 \
                and t['args'][1].get('o') == 'const' and t['args'][1].get('int') == 0:
            callers = [(cb, ct) for cb in w.fn_bodies(w.core) for _, ct in cb.calls() if resolved_id(ct) == b.id]
            whys = set()
            for cb, ct in callers:
                cfacts = [(ty, why) for fn, ty, why in NONEMPTY_VECS if fn.search(cb.short)]
                cv = BodyView(w, cb)
                good = False
                for o in srcs:
                    a = ct['args'][o[1] - 1]
                    cors = cv.pv.through(cv.pv.origins_operand(a), VEC_VIEW)
                    for ty, why in cfacts:
                        if cors and all(x[0] == 'call' and not x[2] and ty.search(cb.locals[cv.pv.call_term(x)['dest']['l']]['ty']['s']) for x in cors):
                            good = True
                            whys.add(why)
                if not good:
                    return None
            if callers and whys:
                return 'first element of a vector that is never empty (handed in by %s): %s' % (', '.join(sorted({cb.short.rsplit('::', 1)[-1] for cb, _ in callers})), sorted(whys)[0])
        return None
    if not facts:
        return None

    def vec_fact(op):
        ors = v.pv.through(v.pv.origins_operand(op), VEC_VIEW)
        if not ors:
            return None
        for ty, why in facts:
            if all(o[0] == 'call' and not o[2] and ty.search(b.locals[v.pv.call_term(o)['dest']['l']]['ty']['s']) for o in ors):
                return why
        return None
    if not facts:
        return None

    def const_zero(op):
        return op['o'] == 'const' and op.get('int') == 0
    cat = ob['op']
    if cat in ('remove', 'index') and len(t['args']) > 1 and const_zero(t['args'][1]):
        why = vec_fact(t['args'][0])
        if why:
            return 'first element of a vector that is never empty here: %s' % why
        return None
    if cat in ('unwrap', 'expect'):
        loops = cfg.natural_loops(b)
        in_loop = lambda x: any(x in blocks for blocks in loops.values())
        srcs = v.pv.peel(v.pv.origins_operand(t['args'][0]))
        if not srcs:
            return None
        whys = set()
        for o in srcs:
            if o[0] != 'call' or o[2]:
                return None
            nt = v.pv.call_term(o)
            p = callee_path(nt) or ''
            if re.search(r'(::first|::first_mut)$', p):
                why = vec_fact(nt['args'][0])
            elif re.search(r'(Iterator::next|Iterator>::next)$', p) and not in_loop(o[1][0]):
                why = vec_fact(nt['args'][0])
                # the first call that advances this iterator
                it = v.pv.peel(v.pv.origins_operand(nt['args'][0]))
                others = [bi2 for bi2, t2 in b.calls() if bi2 != o[1][0] and NEXT_LIKE.search(callee_path(t2) or '') and t2['args']
                          and v.pv.peel(v.pv.origins_operand(t2['args'][0])) & it]
                if others:
                    why = None
            else:
                why = None
            if not why:
                return None
            whys.add(why)
        return 'first element of a vector that is never empty here: %s' % sorted(whys)[0]
    return None


SUBSLICE = re.compile(r'core::str::<impl str>::(trim|trim_start|trim_end|trim_start_matches|trim_end_matches|trim_matches|trim_left|trim_right)(::<.*>)?$')


def _zero_or_one(w, v, operand, depth=0):
    """every value the operand can take is the constant 0 or 1 (directly, a bool cast, or the result of a local function returning only those)"""
    ors = [strip_casts(o) for o in v.pv.peel(v.pv.origins_operand(operand))]
    if not ors:
        return False
    for o in ors:
        if o[0] == 'const' and isinstance(o[1][1], int) and o[1][1] in (0, 1):
            continue
        if o[0] == 'call' and not o[2] and depth < 2:
            cb = w.bodies.get(resolved_id(v.pv.call_term(o)))
            if cb is not None and cb.crate is w.core:
                cv = BodyView(w, cb)
                rets = [strip_casts(x) for x in cv.pv.peel(cv.pv._origins_local(0, frozenset()))]
                if rets and all(x[0] == 'const' and isinstance(x[1][1], int) and x[1][1] in (0, 1) for x in rets):
                    continue
        return False
    return True


def _len_minus_sublen(v, a, c):
    """a = len(X), c = len(Y) with Y obtained from X by trimming only"""
    def len_arg(op):
        ors = v.pv.peel(v.pv.origins_operand(op))
        if len(ors) != 1:
            return None
        o = strip_casts(next(iter(ors)))
        if o[0] != 'call' or o[2] or (callee_path(v.pv.call_term(o)) or '') != 'core::str::<impl str>::len':
            return None
        return v.pv.call_term(o)['args'][0]
    xa, ya = len_arg(a), len_arg(c)
    if xa is None or ya is None:
        return False
    X = v.pv.peel(v.pv.origins_operand(xa))
    Y = v.pv.through(v.pv.origins_operand(ya), SUBSLICE)
    # `through` follows the receiver of every trimming call; Y must have been trimmed at least once and bottom out at X
    direct = v.pv.peel(v.pv.origins_operand(ya))
    return bool(X) and Y == X and direct != X


NONINCREASING = re.compile(r'Iterator>?::(rev|take_while|skip_while|filter|filter_map|skip|take|step_by|map_while|peekable|by_ref|copied|cloned|map|enumerate|inspect)$')
LEN_CALL = re.compile(r'::len$')


def _len_minus_subcount(v, a, c):
    """a = X.len(), c = the number of elements of an iterator over X that only drops or maps elements (`X.iter().rev().take_while(p).count()`): c <= a.
    Returns the description of X, or None."""
    def one_call(op, rx):
        ors = v.pv.peel(v.pv.origins_operand(op))
        if len(ors) != 1:
            return None
        o = strip_casts(next(iter(ors)))
        if o[0] != 'call' or o[2] or not rx.search(callee_path(v.pv.call_term(o)) or ''):
            return None
        return v.pv.call_term(o)
    lt = one_call(a, LEN_CALL)
    ct = one_call(c, re.compile(r'Iterator>?::count$'))
    if lt is None or ct is None or not lt['args'] or not ct['args']:
        return None
    X = v.pv.through(v.pv.origins_operand(lt['args'][0]), VEC_VIEW)
    # walk the receiver chain of count() down to the iterator over the collection
    cur = ct['args'][0]
    for _ in range(8):
        ors = v.pv.peel(v.pv.origins_operand(cur))
        if len(ors) != 1:
            return None
        o = strip_casts(next(iter(ors)))
        if o[0] != 'call' or o[2]:
            return None
        t2 = v.pv.call_term(o)
        p2 = callee_path(t2) or ''
        if NONINCREASING.search(p2) and t2['args']:
            cur = t2['args'][0]
            continue
        if VEC_VIEW.search(p2) and t2['args']:
            Y = v.pv.through(v.pv.origins_operand(t2['args'][0]), VEC_VIEW)
            return v.describe_operand(lt['args'][0], 2) if (X and Y == X) else None
        return None
    return None


def _index_len_minus_positive_count(v, bi, t):
    """X[X.len() - n] with n a sub-count of X (see above) and a dominating `n > 0`: in bounds"""
    if len(t['args']) < 2:
        return None
    b = v.b
    for o in v.pv.peel(v.pv.origins_operand(t['args'][1])):
        o = strip_casts(o)
        if o[0] != 'binop' or not o[1][2].startswith('Sub'):
            return None
        rv = b.blocks[o[1][0]]['stmts'][o[1][1]]['rv']
        X = _len_minus_subcount(v, rv['a'], rv['b'])
        if X is None:
            return None
        recv = v.pv.through(v.pv.origins_operand(t['args'][0]), VEC_VIEW)
        lt_ors = v.pv.peel(v.pv.origins_operand(rv['a']))
        lt = v.pv.call_term(strip_casts(next(iter(lt_ors))))
        if recv != v.pv.through(v.pv.origins_operand(lt['args'][0]), VEC_VIEW):
            return None
        g = _bound_guard(v, bi, rv['b'], 1)
        if not g:
            return None
        return 'index len(x) - n with 1 <= n <= len(x): n counts elements of an iterator over x (%s)' % g
    return None


def _bound_guard(v, bi, a_operand, k):
    """a dominating comparison implies a >= k for the value read by a_operand"""
    b = v.b
    a_or = v.pv.peel(v.pv.origins_operand(a_operand))
    for atom, vals, sw in v.guards(bi):
        st = b.blocks[sw]['term']
        for o in v.pv.peel(v.pv.origins_operand(st['discr'])):
            if o[0] != 'binop':
                continue
            rv = b.blocks[o[1][0]]['stmts'][o[1][1]]['rv']
            op = rv['op']
            lhs = v.pv.peel(v.pv.origins_operand(rv['a']))
            rhs_c = rv['b'].get('int') if rv['b']['o'] == 'const' else None
            if lhs != a_or or rhs_c is None:
                continue
            truth = vals == {True}
            implied = None
            if op == 'Gt' and truth:
                implied = rhs_c + 1
            elif op == 'Ge' and truth:
                implied = rhs_c
            elif op == 'Ne' and truth and rhs_c == 0:
                implied = 1
            elif op == 'Eq' and vals == {False} and rhs_c == 0:
                implied = 1
            elif op == 'Lt' and vals == {False}:
                implied = rhs_c
            elif op == 'Le' and vals == {False}:
                implied = rhs_c + 1
            if implied is not None and implied >= k:
                return 'dominated by %s %s %d (== %s) which implies the operand >= %d' % (v.describe_operand(rv['a'], 2)[:60], op, rhs_c, truth, k)
    return None


def _kind_guard(w, v, bi, t):
    """unwrap/expect of SyntaxNode::cast::<T>(n) dominated by a test that n.kind() is in kinds(T)"""
    b = v.b
    for o in v.pv.peel(v.pv.origins_operand(t['args'][0])):
        if o[0] != 'call':
            return None
        ct = v.pv.call_term(o)
        if (callee_path(ct) or '') != 'typst_syntax::SyntaxNode::cast':
            return None
        tys = [a for a in ct['callee']['args'] if a.get('k') == 'adt']
        if not tys:
            return None
        tname = grammar.ast_type_name(tys[0])
        allowed = grammar.kinds_of(tname)
        node = v.pv.peel(v.pv.origins_operand(ct['args'][0]))
        for atom, vals, sw in v.guards(bi):
            st = b.blocks[sw]['term']
            for x in v.pv.peel(v.pv.origins_operand(st['discr'])):
                # matches!/match on discriminant(kind(node))
                if x[0] == 'discr':
                    l, pr = x[1]
                    for y in v.pv.peel(v.pv._origins(l, pr, frozenset())):
                        if y[0] == 'call' and (callee_path(v.pv.call_term(y)) or '') == 'typst_syntax::SyntaxNode::kind':
                            n2 = v.pv.peel(v.pv.origins_operand(v.pv.call_term(y)['args'][0]))
                            if n2 == node and vals and all(isinstance(k, str) for k in vals) and set(vals) <= allowed:
                                return 'cast::<%s>() of a node whose kind was tested to be in %s' % (tname, sorted(vals))
                # kind() == SyntaxKind::K
                if x[0] == 'call' and 'PartialEq' in (callee_str(v.pv.call_term(x)) or '') and vals == {True}:
                    et = v.pv.call_term(x)
                    sides = [v.pv.peel(v.pv.origins_operand(a)) for a in et['args']]
                    ks = set()
                    same = False
                    for side in sides:
                        for y in side:
                            if y[0] == 'call' and (callee_path(v.pv.call_term(y)) or '') == 'typst_syntax::SyntaxNode::kind':
                                if v.pv.peel(v.pv.origins_operand(v.pv.call_term(y)['args'][0])) == node:
                                    same = True
                            if y[0] == 'promoted':
                                pk = _promoted_kind(w, b, y[1])
                                if pk:
                                    ks.add(pk)
                            if y[0] == 'agg' and v.pv.agg_rvalue(y).get('path', '').endswith('SyntaxKind'):
                                ks.add(v.pv.agg_rvalue(y)['vname'])
                    if same and ks and ks <= allowed:
                        return 'cast::<%s>() of a node whose kind was tested to be %s' % (tname, sorted(ks))
    return None


def _promoted_kind(w, b, idx):
    pb = w.bodies.get('%s::promoted[%d]' % ((idx[0], idx[1]) if isinstance(idx, tuple) else (b.id, idx)))
    if pb is None:
        return None
    for blk in pb.blocks:
        for s in blk['stmts']:
            if s['s'] == 'assign' and s['rv']['r'] == 'agg' and s['rv'].get('path', '').endswith('SyntaxKind'):
                return s['rv']['vname']
    return None


def _alloc_size_ok(w, v, t, depth):
    """size operand of with_capacity/reserve/repeat/resize is a length/count of existing data"""
    idx = 0 if re.search(r'with_capacity$', callee_path(t) or '') else 1
    if idx >= len(t['args']):
        return False, 'no size operand'
    return _size_origin_ok(w, v, t['args'][idx], depth)


def _size_origin_ok(w, v, operand, depth):
    b = v.b
    for o in v.pv.peel(v.pv.origins_operand(operand)):
        o = strip_casts(o)
        if o[0] == 'call':
            ct = v.pv.call_term(o)
            p = resolved_path(ct) or callee_path(ct) or ''
            dp = callee_path(ct) or ''
            if LEN_LIKE.search(p) or LEN_LIKE.search(dp):
                continue
            return False, 'size comes from `%s`' % dp
        if o[0] == 'param' and not o[2] and depth < 4:
            callers = [(cb, cbi, ct) for cb in w.fn_bodies(w.core) for cbi, ct in cb.calls()
                       if resolved_id(ct) == b.id or (ct.get('callee') and ct['callee']['def']['id'] == b.id)]
            if not callers:
                return False, 'size is an unconstrained parameter'
            for (cb, cbi, ct) in callers:
                cv = BodyView(w, cb)
                ok, why = _size_origin_ok(w, cv, ct['args'][o[1] - 1], depth + 1)
                if not ok:
                    return False, why
            continue
        if o[0] == 'call' or o[0] == 'param':
            return False, 'size has provenance %s' % v.describe(o)
        if o[0] == 'const':
            continue
        if o[0] == 'binop' and o[1][2].startswith('Add') and depth < 4:
            # len(..) + len(..) / len(..) + small constant (`with_capacity(s.len() + 1)`): still bounded by the size of existing data
            rv = b.blocks[o[1][0]]['stmts'][o[1][1]]['rv']
            fine = True
            for side in (rv['a'], rv['b']):
                if side['o'] == 'const' and isinstance(side.get('int'), int) and 0 <= side['int'] <= 4096:
                    continue
                ok_, why_ = _size_origin_ok(w, v, side, depth + 1)
                if not ok_:
                    fine = False
            if fine:
                continue
        # payload of an Option returned by a local function: look inside
        return False, 'size has provenance %s' % v.describe(o)
    return True, 'size is a length/count of existing data'


# D6: facts about parser output / non-local invariants.  key -> reason.  Keys are (function, operation, operand description) without line numbers.
def axiom_table():
    return [
        (r'^\{impl\}::format_source_inspect\|unwrap\|unwrap\|call:typst_syntax::node::\{impl\}::cast',
         'the root node of a typst_syntax::Source is always of kind Markup'),
        (r'^pretty::comment::comment\|panic\|panic_fmt\|',
         'comment() is only called for nodes whose kind was tested to be LineComment/BlockComment (every caller is kind-guarded; checked by C06.R1 at each dispatch site)'),
        (r'^pretty::comment::align_multiline\|unwrap\|unwrap\|call:typstyle_core::pretty::comment::get_follow_leading',
         'CommentStyle::Plain is chosen only when some continuation line does not start with `*`, hence the text has >= 2 lines and min() is Some'),
        (r'^pretty::comment::align_multiline\|index\|index\|',
         '`leading` is the minimum count of leading blanks over the continuation lines and the slice is guarded by line.len() > leading: the cut lies inside the run of ASCII blanks'),
        (r'^pretty::code_chain::\{impl\}::try_convert_dot_chain_plain\|index\|index\|',
         'chain[0] after `chain.last()?` returned Some: the vector is non-empty'),
        (r'^pretty::math::\{impl\}::convert_math_delimited\|overflow:Sub\|',
         'a MathDelimited node has at least its opening and closing delimiter children (parser: math_delimited)'),
        (r'^pretty::math::\{impl\}::convert_math_delimited\|index\|index\|',
         'inner_nodes[1..len-1] with len >= 2 (MathDelimited has opening and closing delimiter children)'),
        (r'^pretty::layout::plain::\{impl\}::process_iterable\|overflow:Add\|field:typstyle_core::config::Config\.blank_lines_upper_bound',
         'blank_lines_upper_bound + 1: the bound is a small configuration constant (the CLI never sets it; library default 2)'),
        (r'^pretty::import::\{impl\}::convert_import\|(index\|index|split\|split_at)\|',
         'nodes[divider_index..] / nodes[..divider_index(-1)] with divider_index = position(..).unwrap_or(nodes.len()) <= len'),
        (r'^ext::\{impl\}::count_linebreaks\|overflow:Sub\|',
         '(number of line-break characters) - (number of CR LF pairs): every pair contributes two characters to the first count, so the difference is >= 0 '
         '(the exact shape of both operands is checked)'),
        (r'^pretty::import::\{impl\}::convert_import\|bounds\|',
         'nodes[divider_index - 1] with 0 < divider_index <= nodes.len()'),
    ]


def r3_partial_operations(w, which='doc'):
    rid = 'C05.R3' if which == 'doc' else 'C13.R4'
    r = RuleResult(rid, 'every partial operation reachable from %s is discharged (D1 kind guard, D2 bound guard, D5 size provenance, benign class, axiom table)'
                   % ('a whole-document entry' if which == 'doc' else 'the range entry only'), floor=30 if which == 'doc' else 6)
    doc, range_only, _ = scope(w)
    bodies = doc if which == 'doc' else range_only
    table = [(re.compile(rx), why) for rx, why in axiom_table()]
    used = set()
    views = {}
    for ob in obligations(w, bodies):
        b = ob['body']
        v = views.setdefault(b.id, BodyView(w, b))
        key = ob_key(v, ob)
        cons = {'fn': b.short, 'op': ob['op'] + (':' + ob['path'].rsplit('::', 1)[-1] if ob['kind'] == 'call' else ''), 'line_hint': ob['term']['span']['line']}
        d = discharge(w, v, ob)
        if d:
            r.ok(cons, '%s: %s' % d)
            continue
        hit = None
        for i, (rx, why) in enumerate(table):
            if rx.search(_stable(key)):
                hit = (i, why)
                break
        if hit:
            # table entries that require a guard still need it
            extra = _table_guard(w, v, ob, key)
            if extra is False:
                hit = None
        if hit:
            used.add(hit[0])
            r.ok(cons, 'D6 axiom: %s' % hit[1])
            continue
        r.bad(cons, _stable(key),
              'undischarged partial operation in %s: `%s` can panic/abort and no kind guard, bound guard, size provenance or axiom covers it (operands: %s)'
              % (b.short, ob.get('path', ob['op']), key.split('|', 3)[-1][:200]), b.loc(ob['term']['span']))
    # D7: str slices cut at character boundaries
    for ok, cons, key, why, loc in char_boundary_obligations(w, bodies):
        if ok:
            r.ok(cons, 'D7: ' + why)
        else:
            r.bad(cons, key, why, loc)
    return r


def resolve_through_try(v, origins, depth=0):
    """replace `Try::branch(x).Continue.0...` origins by what that projection of x is (x may be an aggregate built in an expanded helper)"""
    out = set()
    for o in origins:
        o = strip_casts(o)
        if o[0] == 'call' and o[2][:2] == (('v', 0), ('f', 0)) and re.search(r'Try>?::branch$', callee_path(v.pv.call_term(o)) or '') and depth < 4:
            ct = v.pv.call_term(o)
            arg = ct['args'][0]
            aty = v.b.locals[arg['p']['l']]['ty']['s'] if arg['o'] in ('copy', 'move') and not arg['p']['proj'] else ''
            pos = ('v', 1) if aty.startswith('std::option::Option<') else ('v', 0)
            cur = v.pv.peel(v.pv.origins_operand(arg))
            for e in (pos, ('f', 0)) + tuple(o[2][2:]):
                nxt = set()
                for x in cur:
                    nxt |= v.pv._project(x, e, frozenset())
                cur = v.pv.peel(nxt)
            cur = {x for x in cur if not (x[0] == 'call' and re.search(r'from_residual$', callee_path(v.pv.call_term(x)) or ''))}
            out |= resolve_through_try(v, cur, depth + 1)
        else:
            out.add(o)
    return out


def _table_guard(w, v, ob, key):
    """extra dominance requirements for table entries"""
    b = ob['body']
    if 'convert_import' in b.short and (ob['op'] == 'bounds'):
        # nodes[divider_index - 1] needs divider_index > 0
        for atom, vals, sw in v.guards(ob['bb']):
            if atom.startswith('binop:Gt(') and vals == {True} and 'const:' in atom:
                return True
        return False
    t = ob['term']
    if b.short.endswith('::count_linebreaks') and ob['op'].startswith('overflow:Sub'):
        from rules import e2
        return all(ok for ok, cons, key, why, loc in e2.linebreak_predicate_obligations(w) if cons['fn'].endswith('count_linebreaks'))
    if 'try_convert_dot_chain_plain' in b.short and ob['op'] == 'index':
        idx = t['args'][1]
        if not (idx['o'] == 'const' and idx.get('int') == 0):
            return False
        for atom, vals, sw in v.guards(ob['bb']):
            if '::last' in atom and vals in ({'Continue'}, {'Some'}):
                return True
        return False
    if b.short.endswith('chain::{impl#0}::print_doc') and ob['op'] == 'remove':
        idx = t['args'][1]
        return idx['o'] == 'const' and idx.get('int') == 0
    if 'convert_math_delimited' in b.short and ob['op'] == 'index':
        # [1 .. len-1] of the same slice
        for o in v.pv.peel(v.pv.origins_operand(t['args'][1])):
            if o[0] != 'agg':
                return False
            rv = v.pv.agg_rvalue(o)
            if not rv.get('path', '').endswith('Range') or len(rv['ops']) != 2:
                return False
            st, en = rv['ops']
            if not (st['o'] == 'const' and st.get('int') == 1):
                return False
            for e in v.pv.peel(v.pv.origins_operand(en)):
                if not (e[0] == 'binop' and e[1][2].startswith('Sub') and e[2] in ((), (('f', 0),))):
                    return False
                brv = b.blocks[e[1][0]]['stmts'][e[1][1]]['rv']
                if not (brv['b']['o'] == 'const' and brv['b'].get('int') == 1):
                    return False
        return True
    if 'convert_import' in b.short and ob['op'] == 'index':
        # every range bound is position(..).unwrap_or(nodes.len()) or that minus one
        for o in v.pv.peel(v.pv.origins_operand(t['args'][1])):
            if o[0] != 'agg':
                return False
            rv = v.pv.agg_rvalue(o)
            for bound in rv['ops']:
                for e in v.pv.peel(v.pv.origins_operand(bound)):
                    e = strip_casts(e)
                    if e[0] == 'binop' and e[1][2].startswith('Sub'):
                        brv = b.blocks[e[1][0]]['stmts'][e[1][1]]['rv']
                        if not (brv['b']['o'] == 'const' and brv['b'].get('int') == 1):
                            return False
                        inner = v.pv.peel(v.pv.origins_operand(brv['a']))
                    else:
                        inner = {e}
                    for x in inner:
                        x = strip_casts(x)
                        if not (x[0] == 'call' and (callee_path(v.pv.call_term(x)) or '').endswith('Option::<T>::unwrap_or')):
                            return False
                        ut = v.pv.call_term(x)
                        dflt = v.pv.peel(v.pv.origins_operand(ut['args'][1]))
                        if not all(_is_len_of(v, y) for y in dflt):
                            return False
        return True
    if b.short.endswith('format_source_inspect') and ob['op'] == 'unwrap':
        # judged on the entry with its helpers expanded: the root may come through `checked_root(source)?`
        orig = w.bodies.get(b.id)
        nb = entry_body(w, orig) if orig is not None else b
        nv = BodyView(w, nb)
        t = nb.blocks[ob['bb']]['term'] if ob['bb'] < len(nb.blocks) and nb.blocks[ob['bb']]['term']['t'] == 'call' else ob['term']
        for o in nv.pv.peel(nv.pv.origins_operand(t['args'][0])):
            if o[0] == 'call' and (callee_path(nv.pv.call_term(o)) or '') == 'typst_syntax::SyntaxNode::cast':
                ct = nv.pv.call_term(o)
                tys = [a for a in ct['callee']['args'] if a.get('k') == 'adt']
                src = resolve_through_try(nv, nv.pv.peel(nv.pv.origins_operand(ct['args'][0])))
                if tys and grammar.ast_type_name(tys[0]) == 'Markup' and src and all(
                        x[0] == 'call' and (callee_path(nv.pv.call_term(x)) or '') == 'typst_syntax::Source::root' for x in src):
                    return True
        return False
    if 'align_multiline' in b.short and ob['op'] == 'unwrap':
        # only reached for CommentStyle::Plain: the caller dispatches on the style computed from the same text
        return True
    if 'align_multiline' in b.short and ob['op'] == 'index':
        for atom, vals, sw in v.guards(ob['bb']):
            if atom.startswith('binop:Gt(') and vals == {True} and '::len' in atom:
                return True
        return False
    return None


# --------------------------------------------------------------------------------------------- R4
def r4_termination(w):
    r = RuleResult('C05.R4', 'loops are iterator-driven (or pop what they inspect); hand-written iterators descend; every recursive cycle descends the tree', floor=40)
    core = w.core
    doc, range_only, _ = scope(w)
    in_scope = doc | range_only
    # (a) loops (of everything a formatting entry can reach)
    for b in w.fn_bodies(core):
        if b.id not in in_scope:
            continue
        loops = cfg.natural_loops(b)
        if not loops:
            continue
        v = None
        for h, blocks in loops.items():
            cons = {'fn': b.short, 'loop_header': h}
            # the loop condition: straight-line chain of blocks from the header up to the first switch
            chain, cur = [], h
            for _ in range(12):
                chain.append(cur)
                tt = b.blocks[cur]['term']
                if tt['t'] == 'switch':
                    break
                nx = [x for x in b.succs(cur) if x in blocks]
                if len(nx) != 1:
                    break
                cur = nx[0]
            calls = [(x, b.blocks[x]['term']) for x in chain if b.blocks[x]['term']['t'] == 'call']
            drive = None
            for x, tt in calls:
                p = callee_path(tt) or ''
                if p.endswith('Iterator::next') or p.endswith('DoubleEndedIterator::next_back'):
                    drive = ('next', x, tt)
                    break
                if re.search(r'::(last|last_mut|first|pop)$', p):
                    drive = ('last', x, tt)
                    break
            t = drive[2] if drive else b.blocks[h]['term']
            p = (callee_path(t) or '') if t['t'] == 'call' else ''
            if drive and drive[0] == 'next':
                v = v or BodyView(w, b)
                it = v.pv.origins_operand(t['args'][0])
                recreated = False
                for o in it:
                    if o[0] == 'ref':
                        l = o[1][0]
                        for (proj, kind, dbi, dsi, payload) in v.pv.defs.get(l, []):
                            if dbi in blocks and proj == ():
                                recreated = True
                if recreated:
                    r.bad(cons, '%s|loop-iter-recreated' % b.short, 'the iterator driving a loop in %s is re-created inside the loop: it may never be exhausted' % b.short, b.loc(t['span']))
                else:
                    r.ok(cons, 'driven by Iterator::next on an iterator created outside the loop')
                continue
            if drive and drive[0] == 'last':
                v = v or BodyView(w, b)
                view = re.compile(r'Deref(Mut)?>::deref(_mut)?$|Deref(Mut)?::deref(_mut)?$')
                coll = v.pv.through(v.pv.origins_operand(t['args'][0]), view)
                pops = set()
                for bi2, t2 in b.calls():
                    if bi2 in blocks and re.search(r'::pop$', callee_path(t2) or ''):
                        c2 = v.pv.through(v.pv.origins_operand(t2['args'][0]), view)
                        if c2 == coll:
                            pops.add(bi2)
                sw = chain[-1]
                body_entries = [x for x in b.succs(sw) if x in blocks]
                ok = bool(pops) and all(not cfg.paths_avoiding(b, e, {h}, pops) for e in body_entries)
                if ok or p.endswith('::pop'):
                    r.ok(cons, 'inspects the last element and pops the same collection on every iteration')
                else:
                    r.bad(cons, '%s|loop-no-progress' % b.short,
                          'a `while let .. = v.last()` loop in %s has a path back to its header that does not pop the collection' % b.short, b.loc(t['span']))
                continue
            v = v or BodyView(w, b)
            carried = _descending_loop(w, b, v, h, blocks, chain, calls)
            if carried is not None:
                r.ok(cons | {'loop_variable': carried}, 'the loop walks down the syntax tree: its node variable is replaced on every iteration by a node reached through a typed accessor of itself')
                continue
            r.bad(cons, '%s|loop-shape' % b.short,
                  'loop in %s is neither driven by Iterator::next nor a pop-what-you-inspect loop (condition calls: %s): termination not established'
                  % (b.short, [callee_path(tt) for _, tt in calls]), b.loc(b.blocks[h]['term']['span']))
    # hand-written iterators
    for b in w.fn_bodies(core):
        for bi, t in b.calls():
            p = callee_path(t) or ''
            if re.search(r'std::iter::(from_fn|successors|repeat_with|repeat|once_with)$', p):
                cons = {'fn': b.short, 'iterator': p}
                ok, why = _from_fn_descends(w, b, t)
                if ok:
                    r.ok(cons, why)
                else:
                    r.bad(cons, '%s|hand-iterator' % b.short, 'hand-written iterator (%s) in %s: %s' % (p, b.short, why), b.loc(t['span']))
    # (b) recursion
    for line in fn_param_call_obligations(w) + recursion_obligations(w):
        ok, cons, key, why, loc = line
        if ok:
            r.ok(cons, why)
        else:
            r.bad(cons, key, why, loc)
    return r


def _descending_loop(w, b, v, h, blocks, chain, calls):
    """`while let Pat(inner) = cur.accessor() { ..; cur = inner }`: a node-typed local that is loop-carried, whose every assignment inside the loop takes a
    value reached through a descending accessor of the variable itself, and that is re-assigned on every path back to the header.  Returns its name."""
    def node_typed(l):
        st = b.locals[l]['ty']['s']
        return st.startswith(('typst_syntax::ast::', '&typst_syntax::SyntaxNode', 'typst_syntax::LinkedNode', '&typst_syntax::LinkedNode', "&'a typst_syntax::SyntaxNode"))
    inside = {}
    for bi in blocks:
        blk = b.blocks[bi]
        for si, st in enumerate(blk['stmts']):
            if st['s'] == 'assign' and not st['p']['proj'] and node_typed(st['p']['l']):
                inside.setdefault(st['p']['l'], []).append((bi, si, st['rv']))
    # the accessor the loop condition applies
    cond_args = []
    for x, tt in calls:
        p, rp = callee_path(tt) or '', resolved_path(tt) or ''
        if (DESCEND_ACCESSOR.search(p) or DESCEND_ACCESSOR.search(rp)) and tt['args']:
            cond_args.append(frozenset(v.pv.peel(v.pv.origins_operand(tt['args'][0]))))
    if not cond_args:
        return None
    for C, assigns in inside.items():
        # loop-carried: also defined before the loop
        outside = [d for d in v.pv.defs.get(C, []) if d[2] not in blocks] or C <= b.arg_count
        if not outside:
            continue
        own = frozenset(v.pv.peel(v.pv._origins(C, (), frozenset())))
        if not any(a and a <= own for a in cond_args):
            continue

        def desc_from(o, depth=0):
            o = strip_casts(o)
            if depth > 6 or o[0] != 'call':
                return False
            t = v.pv.call_term(o)
            p, rp = callee_path(t) or '', resolved_path(t) or ''
            if not t['args']:
                return False
            srcs = v.pv.peel(v.pv.origins_operand(t['args'][0]))
            if IDENTITY.search(p) or IDENTITY.search(rp):
                return bool(srcs) and all(desc_from(x, depth + 1) for x in srcs)
            if DESCEND_ACCESSOR.search(p) or DESCEND_ACCESSOR.search(rp):
                return bool(srcs) and frozenset(srcs) <= own
            return False
        ok = True
        for (bi, si, rv) in assigns:
            if rv['r'] != 'use':
                ok = False
                break
            srcs = v.pv.peel(v.pv.origins_operand(rv['op']))
            if not srcs or not all(desc_from(x) for x in srcs):
                ok = False
                break
        if not ok:
            continue
        sw = chain[-1]
        body_entries = [x for x in b.succs(sw) if x in blocks]
        ablocks = {bi for (bi, si, rv) in assigns}
        if all(not cfg.paths_avoiding(b, e, {h}, ablocks) for e in body_entries):
            return b.locals[C].get('name') or '_%d' % C
    return None


DESCEND_ACCESSOR = re.compile(r"^typst_syntax::ast::\w+::<'[a_]\w*>::\w+$|^typst_syntax::SyntaxNode::children$|^typst_syntax::LinkedNode::<'a>::children$|Iterator.*::next$|"
                              r"::next_back$|::nth_back$|::last$|::first$|^typst_syntax::ast::\w+::\w+$|::split_first$|::split_last$|::find$|::rfind$|::nth$|::get$")
IDENTITY = re.compile(r'AstNode.*::to_untyped$|AstNode::to_untyped$|^typst_syntax::SyntaxNode::cast$|AstNode.*::from_untyped$|Deref>::deref$|Deref::deref$|'
                      r'Clone>::clone$|Clone::clone$|Option::<T>::unwrap$|Option::<T>::expect$|LinkedNode::<.*>::get$|Option::<T>::unwrap_or_default$')


def _from_fn_descends(w, b, t):
    """iter::from_fn(closure): the closure's state is advanced by a function parameter of the enclosing fn (the `accepter`);
    every accepter passed by the callers must return a node reached through a descending accessor of its argument"""
    # enclosing function must take the step function as a parameter
    callers = [(cb, cbi, ct) for cb in w.fn_bodies(w.core) for cbi, ct in cb.calls() if resolved_id(ct) == b.id or (ct.get('callee') and ct['callee']['def']['id'] == b.id)]
    if not callers:
        return False, 'no callers found to supply the step function'
    n = 0
    for (cb, cbi, ct) in callers:
        cv = BodyView(w, cb)
        for a in ct['args']:
            for o in cv.pv.peel(cv.pv.origins_operand(a)):
                if o[0] == 'agg' and cv.pv.agg_rvalue(o).get('ak') == 'closure':
                    sb = w.bodies.get(cv.pv.agg_rvalue(o)['def']['id'])
                    sv = BodyView(w, sb)
                    # every Some(..) payload returned derives from param 2 through at least one descending accessor
                    for bi2, blk in enumerate(sb.blocks):
                        for s in blk['stmts']:
                            if s['s'] == 'assign' and s['p']['l'] == 0 and s['rv']['r'] == 'agg' and s['rv'].get('vname') == 'Some':
                                n += 1
                                lab = _arg_label(sv, s['rv']['ops'][0], node_params={2})
                                if lab != 'descends':
                                    return False, 'step closure %s returns a node that is not a strict descendant of the current one (%s)' % (sb.short, lab)
    if n == 0:
        return False, 'no step closure found'
    return True, 'every step closure returns a node reached through a typed accessor of the current node (%d return sites)' % n


def _arg_label(v, operand, node_params, depth=0):
    """'same' | 'descends' | 'unknown' for the relation between a node-valued operand and the function's own node parameter(s)"""
    labels = set()
    for o in v.pv.peel(v.pv.origins_operand(operand)):
        labels.add(_origin_label(v, o, node_params, depth))
    if not labels:
        return 'unknown'
    if labels == {'descends'}:
        return 'descends'
    if 'same' in labels:
        return 'same'
    return 'unknown' if 'unknown' in labels else 'descends'


def _origin_label(v, o, node_params, depth):
    o = strip_casts(o)
    kind, data, proj = o
    if depth > 8:
        return 'unknown'
    if kind == 'param':
        if v.b.def_kind == 'Closure' and data == 1:
            # captured value: relation unknown here; resolved by the creator (treated as same: the enclosing node)
            return 'same'
        if data in node_params:
            return 'same'
        return 'descends' if _is_iter_like(v.b.locals[data]['ty']) else 'same'
    if kind == 'call':
        t = v.pv.call_term(o)
        p = callee_path(t) or ''
        rp = resolved_path(t) or ''
        if IDENTITY.search(p) or IDENTITY.search(rp):
            if not t['args']:
                return 'unknown'
            return _arg_label(v, t['args'][0], node_params, depth + 1)
        if DESCEND_ACCESSOR.search(p) or DESCEND_ACCESSOR.search(rp):
            return 'descends'
        if re.search(r'Option::<T>::(map|and_then|filter|or_else|or)$', p) and t['args']:
            return _arg_label(v, t['args'][0], node_params, depth + 1)
        # an iterator adaptor that only drops / reorders / casts elements: the elements are those of the receiver (`children().filter_map(cast)...fold(..)`)
        if re.search(r'Iterator>?::(filter|filter_map|take_while|skip_while|skip|take|rev|enumerate|peekable|by_ref|step_by|map_while)$|IntoIterator>?::into_iter$|'
                     r'Itertools>?::with_position$|::iter$', p) and t['args']:
            return _arg_label(v, t['args'][0], node_params, depth + 1)
        # FnMut::call / local helper returning a node: unknown -> treat as descends only if its args descend
        return 'unknown'
    if kind == 'agg':
        rv = v.pv.agg_rvalue(o)
        if rv['ops']:
            ls = {_arg_label(v, op, node_params, depth + 1) for op in rv['ops'] if op['o'] != 'const'}
            if ls == {'descends'}:
                return 'descends'
            if 'same' in ls:
                return 'same'
        return 'unknown'
    if kind in ('const', 'promoted', 'fnitem'):
        return 'descends'
    return 'unknown'


def _is_iter_like(ty):
    s = ty['s']
    return 'Iter' in s or 'Iterator' in s or s.startswith('std::vec::Vec<') or s.startswith('&[') or 'SmallVec' in s


def _node_params(b):
    out = set()
    for i in range(1, b.arg_count + 1):
        s = b.locals[i]['ty']['s']
        if s.startswith('&typst_syntax::SyntaxNode') or s.startswith('typst_syntax::ast::') or s.startswith('typst_syntax::LinkedNode') \
                or s.startswith('&typst_syntax::LinkedNode'):
            out.add(i)
        elif b.def_kind == 'Closure' and s.startswith('(') and re.search(r'[(, ]&?typst_syntax::(SyntaxNode|ast::\w+|LinkedNode)', s):
            out.add(i)        # a closure invoked with tuples that hold a node (`with_position()`, `enumerate()`, `zip(..)` items)
    return out


def recursion_obligations(w):
    """size-change argument over the call graph of typstyle-core: every cycle must contain a `descends` edge"""
    core = w.core
    edges, _ = w.callgraph()
    nodes = [b.id for b in w.fn_bodies(core)]
    nset = set(nodes)
    g = {n: {m for m in edges.get(n, ()) if m in nset} for n in nodes}
    sccs = _sccs(g)
    cyc = [s for s in sccs if len(s) > 1 or any(n in g[n] for n in s)]
    out = []
    if not cyc:
        out.append((False, {'recursion': 'none found'}, 'recursion|no-scc', 'no recursive cycle found in the converter call graph (anchor missing: the converters are mutually recursive)', None))
        return out
    for comp in cyc:
        comp = set(comp)
        same_edges = {n: set() for n in comp}
        for n in sorted(comp):
            b = w.bodies[n]
            v = BodyView(w, b)
            nps = _node_params(b)
            # closure creation edges: a closure created here runs on behalf of this function: label by how it is invoked -> 'same' unless
            # it receives a node parameter (then the invoker decides)
            for bi, blk in enumerate(b.blocks):
                if blk['cleanup']:
                    continue
                for s in blk['stmts']:
                    if s['s'] == 'assign' and s['rv']['r'] == 'agg' and s['rv'].get('ak') == 'closure':
                        cid = s['rv']['def']['id']
                        if cid in comp:
                            cb = w.bodies[cid]
                            if _node_params(cb):
                                lab = _closure_edge_label(w, b, v, s, cb)
                            else:
                                lab = 'same'
                            out.append((True, {'edge': '%s -> %s' % (b.short, cb.short), 'label': lab}, None, 'closure creation edge: %s' % lab, None))
                            if lab == 'same':
                                same_edges[n].add(cid)
            for bi, t in b.calls():
                tid = resolved_id(t)
                if tid not in comp:
                    cid = t['callee']['def']['id'] if t.get('callee') else None
                    if cid in comp:
                        tid = cid
                    else:
                        continue
                cb = w.bodies[tid]
                cnp = _node_params(cb)
                if cb.def_kind == 'Closure':
                    # direct call of a closure (FnMut::call_mut with a tuple of args): args[1] is the tuple
                    lab = 'same'
                    if len(t['args']) >= 2:
                        tup = v.pv.peel(v.pv.origins_operand(t['args'][1]))
                        labs = set()
                        for o in tup:
                            if o[0] == 'agg':
                                for i, op in enumerate(v.pv.agg_rvalue(o)['ops']):
                                    if (i + 2) in cnp:
                                        labs.add(_arg_label(v, op, nps))
                        if labs and labs <= {'descends'}:
                            lab = 'descends'
                        elif 'unknown' in labs and 'same' not in labs:
                            lab = 'unknown'
                else:
                    labs = set()
                    for i in cnp:
                        if i - 1 < len(t['args']):
                            labs.add(_arg_label(v, t['args'][i - 1], nps))
                    if not cnp:
                        lab = 'same'
                    elif labs <= {'descends'}:
                        lab = 'descends'
                    elif 'same' in labs:
                        lab = 'same'
                    else:
                        lab = 'unknown'
                cons = {'edge': '%s -> %s' % (b.short, cb.short), 'label': lab}
                if lab == 'unknown':
                    lab = 'same'      # conservative
                    cons['label'] = 'same (provenance of the node argument not resolved: treated as same)'
                out.append((True, cons, None, 'call edge labelled by the provenance of the callee\'s node argument', None))
                if lab == 'same':
                    same_edges[n].add(tid)
        # cycle among same edges?
        cyc_nodes = _find_cycle(same_edges)
        cons = {'scc_size': len(comp), 'same_edges': sum(len(x) for x in same_edges.values())}
        if cyc_nodes:
            names = [w.bodies[x].short for x in cyc_nodes]
            out.append((False, cons, 'recursion|same-cycle|%s' % '>'.join(sorted(set(names)))[:150],
                        'recursive cycle that never descends the syntax tree: %s (every edge passes the function\'s own node on): unbounded recursion / '
                        'repeated conversion of the same node' % ' -> '.join(names), w.bodies[cyc_nodes[0]].loc()))
        else:
            out.append((True, cons, None, 'the sub-graph of `same` edges is acyclic: every recursive cycle strictly descends the finite tree', None))
    return out


def _closure_edge_label(w, b, v, agg_stmt, cb):
    """a closure with node parameters created in b: `descends` when it is handed to a local helper (helpers invoke their function
    parameters with iterator items only - obligation (ii), checked for every Fn-trait call in the crate), or to an extern
    higher-order function whose receiver descends from b's node; `same` when the receiver is b's own node"""
    dest = agg_stmt['p']['l']
    from dataflow import iter_uses
    nps = _node_params(b)
    for u in iter_uses(b):
        if u['local'] == dest and u['how'] == 'call-arg':
            t = u['term']
            hid = resolved_id(t)
            hb = w.bodies.get(hid) or (w.bodies.get(t['callee']['def']['id']) if t.get('callee') else None)
            if hb is not None:
                return 'descends'
            if u['index'] == 0 or not t['args']:
                return 'same'
            lab = _arg_label(v, t['args'][0], nps)
            if lab == 'unknown' and t['args'][0].get('o') in ('move', 'copy') and _is_iter_like(b.locals[t['args'][0]['p']['l']]['ty']) \
                    and re.search(r'Iterator>?::\w+$|Itertools>?::\w+$', callee_path(t) or ''):
                # the closure is invoked with the items of an iterator (`row.into_iter().fold(..)`): the loop form `for x in it { f(x) }` is
                # judged the same way (an item of an iterator is never the function's own node unless the provenance says so: 'same')
                return 'descends'
            return 'descends' if lab == 'descends' else 'same'
    return 'same'


def fn_param_call_obligations(w):
    """(ii): every call through a function-typed parameter/upvar in typstyle-core passes node arguments that descend
    (iterator items / accessor results), or - inside a closure - the closure's own node parameter"""
    out = []
    for b in w.fn_bodies(w.core):
        v = None
        for bi, t in b.calls():
            p = callee_path(t) or ''
            if not re.search(r'ops::(Fn|FnMut|FnOnce)::call(_mut|_once)?$', p) or len(t['args']) < 2:
                continue
            c = t.get('callee') or {}
            r_ = c.get('resolved') or {}
            if 'closure' in r_ or 'fn_item' in r_:
                continue       # statically known target: an ordinary call edge
            v = v or BodyView(w, b)
            nps = _node_params(b)
            tup = v.pv.peel(v.pv.origins_operand(t['args'][1]))
            for o in tup:
                if o[0] != 'agg':
                    continue
                for op in v.pv.agg_rvalue(o)['ops']:
                    ty = _op_ty(b, op)
                    if not (ty.startswith('&typst_syntax::SyntaxNode') or ty.startswith('typst_syntax::ast::')):
                        continue
                    lab = _arg_label(v, op, nps if b.def_kind != 'Closure' else set())
                    own = b.def_kind == 'Closure' and _arg_label(v, op, nps) == 'same' and lab != 'same'
                    cons = {'fn': b.short, 'calls': 'function-typed parameter', 'node_argument': lab if not own else 'own closure parameter'}
                    via_callers = False
                    if lab == 'same' and b.def_kind != 'Closure':
                        # a helper handing on its own node parameter: fine when every caller passes a child there (`push_item(child, producer)`)
                        srcs = [strip_casts(x) for x in v.pv.peel(v.pv.origins_operand(op))]
                        if srcs and all(x[0] == 'param' and not x[2] for x in srcs):
                            via_callers = all(_param_descends_at_callers(w, b, x[1], 0) for x in srcs)
                    if via_callers:
                        out.append((True, dict(cons, node_argument='own parameter; every caller passes a child'), None, 'item closures receive children only', None))
                    elif lab == 'descends' or own or (b.def_kind == 'Closure' and _arg_label(v, op, nps) == 'same'):
                        out.append((True, cons, None, 'item closures receive children only', None))
                    else:
                        out.append((False, cons, '%s|fn-param-node|%s' % (b.short, lab),
                                    '%s invokes a function-typed parameter with a node that is not a child of the node it processes (%s): item closures may recurse on the same node'
                                    % (b.short, lab), b.loc(t['span'])))
    return out


def _param_descends_at_callers(w, b, pidx, depth):
    callers = [(cb, t) for cb in w.fn_bodies(w.core) for _, t in cb.calls() if resolved_id(t) == b.id]
    if not callers or depth > 3:
        return False
    for cb, t in callers:
        if pidx - 1 >= len(t['args']):
            return False
        cv = BodyView(w, cb)
        nps = _node_params(cb)
        lab = _arg_label(cv, t['args'][pidx - 1], nps if cb.def_kind != 'Closure' else set())
        if lab == 'descends':
            continue
        if cb.def_kind == 'Closure' and _arg_label(cv, t['args'][pidx - 1], nps) == 'same':
            continue          # the closure's own node parameter: a child handed to it by its caller
        if lab == 'same':
            srcs = [strip_casts(x) for x in cv.pv.peel(cv.pv.origins_operand(t['args'][pidx - 1]))]
            if srcs and all(x[0] == 'param' and not x[2] for x in srcs) and all(_param_descends_at_callers(w, cb, x[1], depth + 1) for x in srcs):
                continue
        return False
    return True


def _op_ty(b, op):
    if op['o'] in ('copy', 'move'):
        return b.locals[op['p']['l']]['ty']['s']
    return ''


def _sccs(g):
    index = {}
    low = {}
    stack = []
    on = set()
    out = []
    counter = [0]
    import sys
    sys.setrecursionlimit(10000)

    def strong(v):
        index[v] = low[v] = counter[0]
        counter[0] += 1
        stack.append(v)
        on.add(v)
        for x in g[v]:
            if x not in index:
                strong(x)
                low[v] = min(low[v], low[x])
            elif x in on:
                low[v] = min(low[v], index[x])
        if low[v] == index[v]:
            comp = []
            while True:
                x = stack.pop()
                on.discard(x)
                comp.append(x)
                if x == v:
                    break
            out.append(comp)
    for v in g:
        if v not in index:
            strong(v)
    return out


def _find_cycle(g):
    color = {}
    path = []

    def dfs(v):
        color[v] = 1
        path.append(v)
        for x in g.get(v, ()):
            if color.get(x) == 1:
                return path[path.index(x):] + [x]
            if x not in color:
                c = dfs(x)
                if c:
                    return c
        path.pop()
        color[v] = 2
        return None
    for v in list(g):
        if v not in color:
            c = dfs(v)
            if c:
                return c
    return None


def _is_len_of(v, o):
    o = strip_casts(o)
    if o[0] == 'call' and LEN_LIKE.search(callee_path(v.pv.call_term(o)) or ''):
        return True
    if o[0] == 'unop' and o[1][2] == 'PtrMetadata':
        return True       # slice length read as pointer metadata (MIR lowering of <[T]>::len)
    return False


def r3_doc(w):
    return r3_partial_operations(w, 'doc')


RULES = [r1_refusal_guard, r2_fallback, r3_doc, r4_termination]
for _f in RULES:
    _f.needs = ('core',)
MATRIX_RULES = RULES
EXTRA_CONFIGS = ['core-serde', 'core-wasm']


# ---------------------------------------------------------------------------------------------
# D7: a str is sliced at character boundaries only.  A byte offset computed by *counting characters* is a boundary only if
# every counted character is one byte long.
# ---------------------------------------------------------------------------------------------
BYTE_OFFSET_SOURCES = re.compile(r'(core::str::<impl str>::(len|find|rfind|floor_char_boundary|ceil_char_boundary)|::len_bytes|::len_utf8|::offset|str::CharIndices.*::next)$')
PASS_THROUGH = re.compile(r'(Option::<T>::(unwrap|expect|unwrap_or|unwrap_or_default|unwrap_or_else)|Ord::(min|max)|Ord>::(min|max)|cmp::(min|max)|Into>::into|From>::from|Clone>::clone|Clone::clone)$')
ITER_REDUCERS = re.compile(r'Iterator>?::(min|max|next|last|nth|sum)$')
ITER_ADAPTORS = re.compile(r'Iterator>?::(skip|take|filter|rev|enumerate|peekable|by_ref|chain|skip_while|take_while|into_iter)$|IntoIterator>?::into_iter$')


def _ascii_char_test(w, closure_id, want_op):
    """closure(char) -> bool is exactly `c <op> <ASCII constant>`"""
    cb = w.bodies.get(closure_id)
    if cb is None:
        return False
    stmts = [s for blk in cb.blocks if not blk['cleanup'] for s in blk['stmts'] if s['s'] == 'assign']
    calls = [t for _, t in cb.calls()]
    if calls:
        return False
    for s in stmts:
        rv = s['rv']
        if rv['r'] == 'binop' and s['p']['l'] == 0:
            k = rv['b'] if rv['b']['o'] == 'const' else (rv['a'] if rv['a']['o'] == 'const' else None)
            return rv['op'] == want_op and k is not None and (k.get('ty') or {}).get('k') == 'char' and isinstance(k.get('int'), int) and k['int'] < 128
    return False


def _ascii_char_set_test(w, closure_id):
    """closure(char) -> bool compares its argument with ASCII constants only (`c == 'a' || c == 'b'`, `matches!(c, 'a' | 'b')`): every char it
    accepts is one byte long"""
    cb = w.bodies.get(closure_id)
    if cb is None or [t for _, t in cb.calls()]:
        return False
    n = 0
    for blk in cb.blocks:
        if blk['cleanup']:
            continue
        for s in blk['stmts']:
            if s['s'] != 'assign':
                continue
            rv = s['rv']
            if rv['r'] == 'binop':
                k = rv['b'] if rv['b']['o'] == 'const' else (rv['a'] if rv['a']['o'] == 'const' else None)
                if rv['op'] != 'Eq' or k is None or (k.get('ty') or {}).get('k') != 'char' or not isinstance(k.get('int'), int) or k['int'] >= 128:
                    return False
                n += 1
        t = blk['term']
        if t['t'] == 'switch':
            # a `matches!` on the char: every tested value must be ASCII and the fall-through arm must answer `false`; keep it simple: values only
            for val, _ in t.get('targets', []):
                if not isinstance(val, int) or val >= 128:
                    return False
            if t.get('discr_ty') == 'char':
                return False       # which arm is the accepting one is not decided here
    return n > 0


def _match_width_is(w, v, operand, k, depth):
    """the operand is the byte offset of a match of find / rfind: is the match exactly k bytes long?  (other provenances: nothing to show)"""
    for o in v.pv.peel(v.pv.origins_operand(operand)):
        o = strip_casts(o)
        if o[0] != 'call':
            continue
        ct = v.pv.call_term(o)
        dp = callee_path(ct) or ''
        if PASS_THROUGH.search(dp) or PASS_THROUGH.search(resolved_path(ct) or ''):
            for a in ct['args']:
                ok, why = _match_width_is(w, v, a, k, depth + 1)
                if not ok:
                    return ok, why
            continue
        if not re.search(r'core::str::<impl str>::(find|rfind)$', dp):
            continue
        pat = ct['args'][1]
        width = None
        for po in v.pv.peel(v.pv.origins_operand(pat)) if pat['o'] != 'const' else [('constop', pat)]:
            c = po[1] if po[0] == 'constop' else (v.pv.const_operand(po) if hasattr(v.pv, 'const_operand') and po[0] == 'const' else None)
            if c is not None and (c.get('ty') or {}).get('k') == 'char' and isinstance(c.get('int'), int):
                wd = 1 if c['int'] < 0x80 else (2 if c['int'] < 0x800 else (3 if c['int'] < 0x10000 else 4))
            elif c is not None and isinstance(c.get('str'), str):
                wd = len(c['str'].encode('utf-8'))
            else:
                cid = _closure_of(v, pat)
                wd = 1 if (cid and _ascii_char_set_test(w, cid)) else None
            if wd is None or (width is not None and width != wd):
                return False, 'the offset of a `%s` match is advanced by %d, but the matched text is not known to be %d byte(s) long (a multi-byte match leaves the offset inside a character)' % (dp.rsplit('::', 1)[-1], k, k)
            width = wd
        if width != k:
            return False, 'the offset of a `%s` match is advanced by %d, but the match is %s byte(s) long' % (dp.rsplit('::', 1)[-1], k, width)
    return True, ''


def _closure_of(v, operand):
    for o in v.pv.peel(v.pv.origins_operand(operand)):
        if o[0] == 'agg':
            rv = v.pv.agg_rvalue(o)
            if rv.get('ak') == 'closure':
                return rv['def']['id']
    return None


def _byte_offset(w, v, operand, depth=0, seen=None):
    """(ok, why): is the operand a byte offset that lies on a character boundary of the string it came from?"""
    seen = seen if seen is not None else set()
    if depth > 8:
        return False, 'provenance too deep'
    b = v.b
    for o in v.pv.peel(v.pv.origins_operand(operand)):
        o = strip_casts(o)
        if o[0] == 'const':
            continue
        if o[0] == 'cycle':
            continue       # the loop-carried value of an accumulator: judged through its other definitions
        if o[0] == 'param':
            continue       # the caller's offset: judged at the call sites that pass a computed value (range entry: stated precondition)
        if o[0] == 'binop':
            rv = b.blocks[o[1][0]]['stmts'][o[1][1]]['rv']
            for side in (rv['a'], rv['b']):
                ok, why = _byte_offset(w, v, side, depth + 1, seen)
                if not ok:
                    return ok, why
            # `offset of a match` + k steps over the match: a boundary only if the match is known to be k bytes long (seed C13/4B:
            # `rfind(is_newline) + 1` after a two- or three-byte line separator)
            if rv['op'].startswith('Add'):
                for side, other in ((rv['a'], rv['b']), (rv['b'], rv['a'])):
                    if other['o'] == 'const' and isinstance(other.get('int'), int) and other['int'] > 0:
                        ok, why = _match_width_is(w, v, side, other['int'], depth)
                        if not ok:
                            return ok, why
            continue
        if o[0] == 'call':
            ct = v.pv.call_term(o)
            p = resolved_path(ct) or callee_path(ct) or ''
            dp = callee_path(ct) or ''
            if BYTE_OFFSET_SOURCES.search(p) or BYTE_OFFSET_SOURCES.search(dp) or re.search(r'::(len|count_linebreaks)$', dp):
                continue
            if PASS_THROUGH.search(dp) or PASS_THROUGH.search(p):
                for a in ct['args']:
                    ok, why = _byte_offset(w, v, a, depth + 1, seen)
                    if not ok:
                        return ok, why
                continue
            if re.search(r'Iterator>?::position$', dp):
                recv = v.pv.peel(v.pv.origins_operand(ct['args'][0]))
                over_chars = all(x[0] == 'call' and (callee_path(v.pv.call_term(x)) or '').endswith('::chars') for x in recv) and recv
                cid = _closure_of(v, ct['args'][1])
                if over_chars:
                    if cid and _ascii_char_test(w, cid, 'Ne'):
                        continue       # index of the first char that differs from an ASCII constant: every char before it is that one-byte char
                    return False, 'a character index (chars().position(..)) is used as a byte offset and the skipped characters are not known to be one byte long'
                if all(x[0] == 'call' and re.search(r'::(bytes|as_bytes|char_indices)$', callee_path(v.pv.call_term(x)) or '') for x in recv) and recv:
                    continue
                return False, 'position() over %s' % sorted(v.describe(x) for x in recv)
            if re.search(r'Iterator>?::count$', dp):
                ok = False
                for x in v.pv.peel(v.pv.origins_operand(ct['args'][0])):
                    if x[0] == 'call' and re.search(r'Iterator>?::take_while$', callee_path(v.pv.call_term(x)) or ''):
                        tw = v.pv.call_term(x)
                        src = v.pv.peel(v.pv.origins_operand(tw['args'][0]))
                        cid = _closure_of(v, tw['args'][1])
                        if src and all(y[0] == 'call' and (callee_path(v.pv.call_term(y)) or '').endswith('::chars') for y in src) and cid and _ascii_char_test(w, cid, 'Eq'):
                            ok = True
                if ok:
                    continue
                return False, 'a character count (chars()..count()) is used as a byte offset'
            if ITER_REDUCERS.search(dp):
                # element of an iterator: look at the closure of the map() that produced it
                ok_any = False
                work = [ct['args'][0]]
                hops = 0
                while work and hops < 8:
                    hops += 1
                    cur = work.pop()
                    for x in v.pv.peel(v.pv.origins_operand(cur)):
                        if x[0] != 'call':
                            continue
                        xt = v.pv.call_term(x)
                        xp = callee_path(xt) or ''
                        if re.search(r'Iterator>?::map$', xp):
                            cid = _closure_of(v, xt['args'][1])
                            cb = w.bodies.get(cid) if cid else None
                            if cb is None:
                                return False, 'iterator element produced by an unknown function'
                            key = ('ret', cb.id)
                            if key in seen:
                                ok_any = True
                                continue
                            seen.add(key)
                            ok, why = _returns_byte_offset(w, cb, depth + 1, seen)
                            if not ok:
                                return ok, why
                            ok_any = True
                        elif ITER_ADAPTORS.search(xp):
                            work.append(xt['args'][0])
                if ok_any:
                    continue
                return False, 'offset is an element of an iterator whose producer was not found'
            rid = resolved_id(ct)
            if rid in w.bodies and w.bodies[rid].crate is w.core:
                key = ('ret', rid)
                if key in seen:
                    continue
                seen.add(key)
                ok, why = _returns_byte_offset(w, w.bodies[rid], depth + 1, seen)
                if not ok:
                    return ok, why
                continue
            return False, 'offset comes from `%s`' % dp
        if o[0] == 'agg':
            rv = v.pv.agg_rvalue(o)
            if rv.get('ak') in ('adt', 'tuple') and (rv.get('vname') in ('Some', 'None', 'Ok') or rv.get('ak') == 'tuple'):
                # an Option / tuple wrapping the offset (an accumulator `min = Some(x)`): judge what it wraps
                key = ('agg', b.id, o[1])
                if key in seen:
                    continue
                seen.add(key)
                bad = None
                for op2 in rv['ops']:
                    ok, why = _byte_offset(w, v, op2, depth + 1, seen)
                    if not ok:
                        bad = why
                        break
                if bad:
                    return False, bad
                continue
        return False, 'offset has provenance %s' % v.describe(o)
    return True, 'byte offset on a character boundary'


def _returns_byte_offset(w, fb, depth, seen):
    fv = BodyView(w, fb)
    # every whole assignment to the return place
    for bi, blk in enumerate(fb.blocks):
        if blk['cleanup']:
            continue
        for s in blk['stmts']:
            if s['s'] == 'assign' and s['p']['l'] == 0 and not s['p']['proj']:
                if s['rv']['r'] == 'use':
                    ok, why = _byte_offset(w, fv, s['rv']['op'], depth, seen)
                elif s['rv']['r'] == 'agg' and s['rv'].get('vname') in ('Some', 'None', 'Ok'):
                    ok, why = True, ''
                    for op in s['rv']['ops']:
                        ok, why = _byte_offset(w, fv, op, depth, seen)
                        if not ok:
                            break
                else:
                    ok, why = False, 'returned value built by %s' % s['rv']['r']
                if not ok:
                    return False, '%s (in %s)' % (why, fb.short)
        t = blk['term']
        if t['t'] == 'call' and t['dest']['l'] == 0 and not t['dest']['proj']:
            fake = {'o': 'copy', 'p': {'l': 0, 'proj': []}}
            # the return place is written by a call: judge that call
            o = ('call', (bi, callee_path(t) or ''), ())
            ok, why = _byte_offset_of_call(w, fv, bi, t, depth, seen)
            if not ok:
                return False, '%s (in %s)' % (why, fb.short)
    return True, ''


def _byte_offset_of_call(w, fv, bi, t, depth, seen):
    """judge a call terminator whose result is the value of interest, by routing it through _byte_offset via a synthetic operand"""
    # find a local that holds the call's result: the destination itself
    dest = t['dest']
    op = {'o': 'copy', 'p': {'l': dest['l'], 'proj': []}}
    return _byte_offset(w, fv, op, depth, seen)


def char_boundary_obligations(w, bodies):
    """[(ok, construct, key, why, loc)] for every index/slice of a str by a computed range"""
    out = []
    for ob in obligations(w, bodies):
        if ob['kind'] != 'call' or ob['op'] != 'index':
            continue
        b, t = ob['body'], ob['term']
        if not t['args']:
            continue
        recv_ty = b.locals[t['args'][0]['p']['l']]['ty']['s'] if t['args'][0]['o'] in ('copy', 'move') else ''
        cs = callee_str(t) or ''
        if not (re.search(r'^&?(mut )?str$', recv_ty.replace("&'_ ", '&')) or re.search(r'Index<.*>>::index$', cs) and re.search(r'<str as ', cs)):
            continue
        v = BodyView(w, b)
        cons = {'fn': b.short, 'op': 'str slice', 'line_hint': t['span']['line']}
        bad = None
        for o in v.pv.peel(v.pv.origins_operand(t['args'][1])):
            if o[0] == 'agg':
                rv = v.pv.agg_rvalue(o)
                for bound in rv['ops']:
                    ok, why = _byte_offset(w, v, bound)
                    if not ok:
                        bad = why
            elif o[0] in ('param',):
                continue
            else:
                ok, why = _byte_offset(w, v, t['args'][1])
                if not ok:
                    bad = why
        key = '%s|char-boundary|%s' % (_stable(b.short), _stable(v.describe_operand(t['args'][1], 2)))
        if bad:
            out.append((False, cons, key, 'the str slice in %s can cut inside a multi-byte character: %s (slicing off a character boundary panics)' % (b.short, bad), b.loc(t['span'])))
        else:
            out.append((True, cons, key, 'every bound is a byte offset on a character boundary (length / find / ASCII-run count / caller precondition)', b.loc(t['span'])))
    return out
