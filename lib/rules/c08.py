"""C08 - prose is left untouched (statically decidable clauses)."""
import re
import grammar
import kindflow as kf
import sites as sm
from sites import run_function, atoms_of
from kindflow import Agg, Node, Const, Doc, Text, TOP, Top
from mirfacts import callee_path, resolved_id
from paths import BodyView
from framework import RuleResult, AnchorMissing
from prov import strip_casts as strip_casts_
from rules import e2
from rules.e2 import last, COMMENT

META = {
    'explanation': 'E2 abstract evaluation of the two stages of the markup converter per child kind: (R1) the line collector keeps every non-space child, '
                   'turns a Space with a line break into a line end (breaks = 1) or the start boundary, a Parbreak into a line end with its own line-feed count, '
                   'and the per-line loop emits a plain space for a Space child and never a soft break; (R2) the context handed to the expression converter '
                   'from the per-line loop is break-suppressed exactly on the edge where the line\'s mixed-text flag is true, and the collector sets that flag for '
                   'Text/Strong/Emph/Raw; (R3) the prose leaf kinds are routed to leaf converters that emit the token\'s own text with no transformer in between.',
    'decides': 'the printer has no way to turn a space between prose pieces into a break or remove it, emits prose leaves byte for byte, copies paragraph-break '
               'line-feed counts, and converts code that shares a line with text under break suppression',
    'does_not_decide': 'that blank-line counts at the outer edges and the boundary computation are as intended (the statement exempts the edges); what break-suppressed '
                       'converters do internally',
    'trusted_base': ['grammar tables (typst-syntax 0.13.1)', 'pretty renders text verbatim, space as one blank, hardline as one line break', 'rustc MIR construction'],
}

WS = {'space', 'hardline', 'line', 'line_', 'softline', 'softline_'}
SOFT = {'line', 'line_', 'softline', 'softline_'}
PROSE_LEAVES = ['Text', 'Escape', 'Shorthand', 'SmartQuote', 'Link', 'Label', 'Linebreak', 'Str', 'Int', 'Float', 'Numeric', 'Bool', 'Ident', 'MathIdent', 'MathText',
                'MathShorthand', 'MathAlignPoint']


def _stores(o_events, suffix):
    return [e[2] for e in o_events if e[0] == 'store' and e[1].endswith(suffix)]


def r1_no_soft_breaks_between_prose(w):
    r = RuleResult('C08.R1', 'markup: non-space children kept; Space+nl / Parbreak end the line with their own line-feed count; Space -> space; no soft breaks', floor=100)
    tab = e2.site_table(w)
    gs = e2.groups(w)
    stage1 = [g for g in gs if last(g.fn) == 'collect_markup_repr']
    stage2 = [g for g in gs if last(g.fn) == 'convert_markup_impl' and last(g.loop[0]) == 'convert_markup_impl']
    if len(stage1) < 40 or len(stage2) < 40:
        raise AnchorMissing('markup stages (collector groups %d, per-line groups %d)' % (len(stage1), len(stage2)))
    for g in stage1:
        cons = {'stage': 'line collector', 'child': e2._item(g.item), 'paths': len(g.paths)}
        if g.kind == 'Space' and not g.item.linebreak:
            ok = all(g.emits_child(o) or not o.pushed for o in g.paths)
            # kept as a node in the line, or consumed as start boundary (edge of the markup)
            r.ok(cons, 'kept in the line or taken as the start boundary (edge)')
            continue
        if g.kind in ('Space', 'Parbreak'):
            bad = None
            for o in g.paths:
                pushes = [n for n in o.pushed]
                line_closed = any(isinstance(x, tuple) is False and False for x in pushes)
                stored = [s for s in o.seq]
                # events are summarised; re-read the raw outcome fields
                if g.emits_child(o):
                    bad = 'keeps the line-breaking whitespace inside the line'
                    break
            if bad:
                r.bad(cons, 'collect_markup_repr|%s' % e2._item(g.item), 'collect_markup_repr %s: a line break between prose pieces would be turned into a space' % bad)
            else:
                r.ok(cons, 'ends the line / start boundary')
            continue
        bad = [o for o in g.paths if not g.emits_child(o)]
        if bad:
            r.bad(cons, 'collect_markup_repr|drop|%s' % g.kind, 'the markup line collector drops %s children on %d of %d paths' % (g.kind, len(bad), len(g.paths)))
        else:
            r.ok(cons, 'kept in the current line')
    for g in stage2:
        cons = {'stage': 'per-line loop', 'child': e2._item(g.item), 'paths': len(g.paths)}
        made = set()
        for o in g.paths:
            made |= {m for m in o.made if m in WS}
        if g.kind == 'Space':
            if g.item.linebreak:
                continue         # cannot reach the per-line loop
            if made == {'space'} and all([m for m in o.made if m in WS] == ['space'] for o in g.paths):
                r.ok(cons, 'exactly one space')
            else:
                r.bad(cons, 'convert_markup_impl|Space', 'the per-line markup loop maps a Space between prose pieces to %s instead of exactly one space: prose would be rewrapped or joined' % sorted(made))
            continue
        if made & SOFT:
            r.bad(cons, 'convert_markup_impl|soft|%s' % g.kind, 'the per-line markup loop creates a soft break (%s) while emitting a %s child: prose could be rewrapped' % (sorted(made & SOFT), g.kind))
            continue
        if made - {'hardline'} and g.kind not in COMMENT:
            r.bad(cons, 'convert_markup_impl|space|%s' % g.kind, 'the per-line markup loop creates whitespace (%s) while emitting a %s child' % (sorted(made), g.kind))
            continue
        if not all(g.emits_child(o) for o in g.paths):
            r.bad(cons, 'convert_markup_impl|drop|%s' % g.kind, 'the per-line markup loop drops %s children' % g.kind)
            continue
        r.ok(cons, 'emitted, no whitespace created')
    # line ends: hardline repeated `breaks` times; breaks of a Parbreak line = its own count of line feeds
    bs = [b for b in w.core.find('markup::collect_markup_repr')]
    res = sm.evaluate_sequence(w, bs[0], 1, 'Markup', [Node('child', 'Text'), Node('child', 'Parbreak', True)])
    good = bool(res)
    for loop, steps, assumed in res or []:
        lines = [x for e in steps[1] if e[0] == 'push' for x in e[2:] if isinstance(x, Agg) and x.adt.endswith('MarkupLine')]
        if not lines:
            good = False
        for ln in lines:
            br = ln.fields[1] if len(ln.fields) > 1 else None
            if not isinstance(br, (kf.IntGe, Top)):
                good = False
    cons = {'stage': 'line collector', 'sequence': '<Text, Parbreak>', 'breaks': 'count of line feeds in the Parbreak text'}
    if good:
        r.ok(cons, 'paragraph break keeps its number of line feeds')
    else:
        r.bad(cons, 'collect_markup_repr|parbreak-count', 'a paragraph break is not recorded with the line-feed count of its own text (a constant would normalise blank lines)')
    # a Space *inside* a line is kept whatever stands before it (seed C08/4A: the line was ended after a multi-line raw block without consuming
    # whitespace, so the following Space met the `line is empty` arm that exists for the leading edge and was dropped): <X, Space> for every X
    n_pairs = 0
    for X in grammar.CHILDREN['Markup']:
        if X in ('Space', 'Parbreak'):
            continue
        res = sm.evaluate_sequence(w, bs[0], 1, 'Markup', [Node('child', X), Node('child', 'Space', False)])
        cons = {'stage': 'line collector', 'sequence': '<%s, Space>' % X}
        if res is None:
            r.bad(cons, 'collect_markup_repr|%s|space-after|not-evaluated' % X, 'sequence evaluation exceeded its bounds in collect_markup_repr')
            continue
        lost = 0
        tot = 0
        for loop, steps, assumed in res:
            if len(steps) < 2:
                continue
            tot += 1
            kept = any(isinstance(n, Node) and n.kind == 'Space' for n in sm.pushed_nodes(steps[1]))
            if not kept:
                lost += 1
        n_pairs += 1
        if tot and not lost:
            r.ok(cons, 'the Space after a %s child is kept in the line on all %d paths' % (X, tot))
        elif not tot:
            r.bad(cons, 'collect_markup_repr|%s|space-after|not-evaluated' % X, 'no complete path for <%s, Space> in collect_markup_repr' % X)
        else:
            r.bad(cons, 'collect_markup_repr|%s|space-after' % X, 'in the markup line collector a Space that follows a %s child on the same line is not kept in the line on %d of %d paths '
                  '(it is taken for the leading edge of the markup or dropped): the space between two pieces of prose disappears' % (X, lost, tot), bs[0].loc())
    cm = [b for b in w.core.find('::convert_markup_impl') if b.def_kind != 'Closure']
    v = BodyView(w, cm[0])
    ok = False
    why_not = 'no `hardline().repeat_n(..)` found'
    for bi, t in cm[0].calls():
        if (callee_path(t) or '').endswith('repeat_n'):
            a0 = v.pv.peel(v.pv.origins_operand(t['args'][0]))
            if not all(o[0] == 'call' and (callee_path(v.pv.call_term(o)) or '').endswith('hardline') for o in a0):
                continue
            # the count is a pure copy of MarkupLine.breaks on every path: no min / max / arithmetic / constant in between
            cnt = v.pv.origins_operand(t['args'][1]) if len(t['args']) > 1 else set()
            descs = sorted({v.describe(strip_casts_(o)) for o in cnt})
            if cnt and all(d_.endswith('MarkupLine.breaks') and not d_.startswith(('call:', 'binop:', 'const')) for d_ in descs):
                ok = True
                # ... and on every line with breaks > 0: inside the per-line loop the only condition in front of the emission is `breaks > 0`
                # (seed C08/5A: a look-ahead `pull_label` replaced the line end by a space when the next line starts with a label)
                import cfg as _cfg
                loops = _cfg.natural_loops(cm[0])
                in_loop = set()
                for h_, blocks_ in loops.items():
                    if bi in blocks_:
                        in_loop |= set(blocks_)
                extra = []
                for atom, vals, sw in v.guards(bi):
                    if sw not in in_loop:
                        continue
                    if 'MarkupLine.breaks' in atom and atom.startswith(('binop:Gt(', 'binop:Ne(', 'binop:Ge(')) and vals == {True}:
                        continue
                    if atom.startswith('discr(') and 'next(' in atom:
                        continue          # the loops' own exhaustion tests
                    extra.append((atom[:80], sorted(map(str, vals))))
                if extra:
                    ok = False
                    why_not = 'the line-end break is emitted only under a further condition %s: a line break between prose lines can be replaced or dropped' % extra[:2]
            else:
                why_not = 'the repeat count is %s, not a plain copy of MarkupLine.breaks' % descs
    cons = {'stage': 'per-line loop', 'line_end': 'hardline x MarkupLine.breaks'}
    if ok:
        r.ok(cons, 'mandatory breaks, count copied from the collector')
    else:
        r.bad(cons, 'convert_markup_impl|line-end', 'line ends are not emitted as hardline repeated MarkupLine.breaks times (%s): a paragraph break would not keep its number of line feeds' % why_not, cm[0].loc())
    # "their own line-feed count": the count is taken by the text predicate, which has to count line breaks the way the lexer cut the tokens
    for ok, cons, key, why, loc in e2.linebreak_predicate_obligations(w):
        (r.ok(cons, why) if ok else r.bad(cons, key, why, loc))
    # children may be removed only where the per-kind rules can see it: no element-dropping adaptor in front of a loop over syntax nodes
    for ok, cons, key, why, loc in e2.filter_obligations(w):
        (r.ok(cons, why) if ok else r.bad(cons, key, why, loc))
    return r


def r2_break_suppression(w):
    r = RuleResult('C08.R2', 'code sharing a line with text is converted break-suppressed; the collector sets the flag for Text/Strong/Emph/Raw', floor=5)
    cm = [b for b in w.core.find('::convert_markup_impl') if b.def_kind != 'Closure']
    if len(cm) != 1:
        raise AnchorMissing('convert_markup_impl')
    b = cm[0]
    # a piece of the per-line loop moved into a single-site helper (`convert_markup_child(ctx, node, mixed)`) is read as the loop body it was
    import inline
    nb = inline.inline_body(w, b, lambda cb, t_, d_: kf.extracted_dispatch_helper(w, cb), desugar=False)
    if nb.inlined:
        b = nb
    v = BodyView(w, b)
    n = 0
    for bi, t in b.calls():
        rid = resolved_id(t)
        if rid and w.bodies.get(rid) is not None and w.bodies[rid].short.endswith('::convert_expr'):
            n += 1
            ctx_or = v.pv.origins_operand(t['args'][1])
            descs = sorted(v.describe(o) for o in v.pv.peel(ctx_or))
            # the ctx local has two definitions: suppress_breaks() on the mixed_text edge, plain copy on the other
            l = t['args'][1]['p']['l'] if t['args'][1]['o'] in ('copy', 'move') else None
            defs = []
            src_local = l
            for _ in range(6):
                ds = v.pv.defs.get(src_local, [])
                if len(ds) == 1 and ds[0][1] == 'rv' and ds[0][4]['r'] == 'use' and ds[0][4]['op']['o'] in ('copy', 'move'):
                    src_local = ds[0][4]['op']['p']['l']
                elif len(ds) == 1 and ds[0][1] == 'call' and _preserves_break_suppression(w, ds[0][4]):
                    # a Context method that leaves break_suppressed alone (with_after_hash, with_mode..): the flag is that of its receiver
                    recv = ds[0][4]['args'][0]
                    nxt = None
                    if recv['o'] in ('copy', 'move') and not recv['p']['proj']:
                        nxt = recv['p']['l']
                        rd = v.pv.defs.get(nxt, [])
                        if len(rd) == 1 and rd[0][1] == 'rv' and rd[0][4]['r'] == 'ref' and not rd[0][4]['p']['proj']:
                            nxt = rd[0][4]['p']['l']          # `&ctx`
                    if nxt is None:
                        break
                    src_local = nxt
                else:
                    break
            ok_true = ok_false = False
            for (proj, kind, dbi, dsi, payload) in v.pv.defs.get(src_local, []):
                gs = v.guards(dbi)
                mixed = [vals for atom, vals, _ in gs if atom.endswith('MarkupLine.mixed_text') or 'mixed_text' in atom or _is_mixed_local(v, atom, _)]
                if kind == 'call' and (callee_path(payload) or '').endswith('suppress_breaks'):
                    if any(vals == {True} for vals in _mixed_guards(v, dbi)):
                        ok_true = True
                elif kind == 'rv':
                    if any(vals == {False} for vals in _mixed_guards(v, dbi)):
                        ok_false = True
            cons = {'fn': 'convert_markup_impl', 'call': 'convert_expr', 'ctx': descs}
            if ok_true:
                r.ok(cons, 'suppress_breaks() on the mixed-text edge' + ('; unchanged context otherwise' if ok_false else ''))
            else:
                r.bad(cons, 'convert_markup_impl|ctx', 'the context handed to convert_expr from the per-line markup loop is not break-suppressed on the mixed-text edge (%s): '
                      'embedded code on a prose line could be broken over lines' % descs, b.loc(t['span']))
    if n < 1:
        raise AnchorMissing('convert_expr call in convert_markup_impl')
    gs = [g for g in e2.groups(w) if last(g.fn) == 'collect_markup_repr']
    for k in ('Text', 'Strong', 'Emph', 'Raw'):
        grp = [g for g in gs if g.kind == k]
        cons = {'stage': 'line collector', 'child': k, 'sets': 'MarkupLine.mixed_text'}
        if not grp:
            r.bad(cons, 'mixed_text|%s|missing' % k, 'no evaluation of the collector for %s' % k)
            continue
        ok = all(any(s == ('store-true',) for s in _mixed_marks(o)) for o in grp[0].paths)
        if ok:
            r.ok(cons, 'flag set on every path')
        else:
            r.bad(cons, 'mixed_text|%s' % k, 'the line collector does not mark a line containing a %s child as mixed text: code on that line would not be break-suppressed' % k)
    return r


def _preserves_break_suppression(w, t):
    """the callee is a method of the printing Context that returns its receiver with other fields changed: no write to break_suppressed"""
    from tyutil import name_projection
    from prov import place_key
    cb = w.bodies.get(resolved_id(t))
    if cb is None or cb.crate is not w.core or 'context::' not in cb.short or not cb.locals[0]['ty']['s'].endswith('context::Context') or not t['args']:
        return False
    if not cb.locals[1]['ty']['s'].endswith('context::Context'):
        return False
    for blk in cb.blocks:
        if blk['cleanup']:
            continue
        for st in blk['stmts']:
            if st['s'] != 'assign':
                continue
            l, pr = place_key(st['p'])
            if not pr:
                # whole assignment of a Context value: must be a copy of the receiver (or of a local that is)
                if cb.locals[l]['ty']['s'].endswith('context::Context') and st['rv']['r'] == 'agg':
                    # `Self { x, ..*self }`: the break_suppressed field must be copied from the receiver
                    from tyutil import adt_lookup
                    a = adt_lookup(w, cb.locals[l]['ty'].get('id'))
                    names = [f['name'] for f in a['variants'][0]['fields']] if a else []
                    if 'break_suppressed' not in names:
                        return False
                    op = st['rv']['ops'][names.index('break_suppressed')]
                    if op['o'] not in ('copy', 'move'):
                        return False
                    steps, _ = name_projection(w, cb.locals[op['p']['l']]['ty'], place_key(op['p'])[1])
                    if not (op['p']['l'] == 1 and steps and steps[-1].endswith('Context.break_suppressed')):
                        return False
                continue
            steps, _ = name_projection(w, cb.locals[l]['ty'], pr)
            if steps and steps[-1].endswith('Context.break_suppressed'):
                return False
        tt = blk['term']
        if tt['t'] == 'call' and cb.locals[tt['dest']['l']]['ty']['s'].endswith('context::Context') and not _preserves_break_suppression(w, tt):
            return False
    return True


def _mixed_guards(v, bi):
    out = []
    b = v.b
    for atom, vals, sw in v.guards(bi):
        d = b.blocks[sw]['term']['discr']
        name = ''
        if d['o'] in ('copy', 'move'):
            name = b.names.get(d['p']['l'], '') or ''
            if not name:
                for (proj, kind, dbi, dsi, payload) in v.pv.defs.get(d['p']['l'], []):
                    if kind == 'rv' and payload['r'] == 'use' and payload['op']['o'] in ('copy', 'move'):
                        name = b.names.get(payload['op']['p']['l'], '') or name
        if 'mixed_text' in atom or name == 'mixed_text':
            out.append(vals)
    return out


def _is_mixed_local(v, atom, sw):
    return False


def _mixed_marks(o):
    out = []
    for e in (o.seq or []):
        pass
    # the frozen outcome keeps stores only through `made`/`seq`; use the dedicated list
    for s in getattr(o, 'stores', None) or []:
        if s[0].endswith('MarkupLine.mixed_text') and s[1] == Const(True):
            out.append(('store-true',))
    return out


LEAF_VIA_OK = {'into_text'}


def leaf_converter_obligations(w, kinds):
    """(ok, cons, key, why) per leaf kind: the converter the dispatcher routes it to emits own text untransformed"""
    out = []
    g = grammar.load()
    disp = [b for b in w.core.find('::convert_expr_impl')]
    if len(disp) != 1:
        raise AnchorMissing('convert_expr_impl')
    inv = {}
    for k, path in g['variant_of']['Expr'].items():
        inv[k] = path[0]
    for k in kinds:
        if k not in inv:
            continue
        val = Agg('typst_syntax::ast::Expr', inv[k], [Node('parent', k)])
        res = run_function(w, disp[0], {3: val}, converter_pred=lambda b_: False, no_inline=lambda tb: False)
        cons = {'leaf': k}
        if not res:
            out.append((False, cons, 'leaf|%s|not-evaluated' % k, 'leaf conversion of %s could not be evaluated' % k))
            continue
        bad = None
        for result, events, assumed in res:
            ats = [a for a in (result.flat() if isinstance(result, Doc) else []) if a[0] != 'nil']
            if len(ats) != 1 or ats[0][0] != 'text':
                bad = 'emits %s' % [a[0] for a in ats]
                break
            x = ats[0][1]
            if not (isinstance(x, Text) and x.node.tag == 'parent'):
                bad = 'emits a text that is not the token\'s own text (%r)' % (x,)
                break
            if any(vv not in LEAF_VIA_OK for vv in x.via):
                bad = 'passes the token text through %s' % '>'.join(x.via)
                break
        if bad:
            out.append((False, cons, 'leaf|%s' % k, 'the %s leaf %s: its characters would change' % (k, bad)))
        else:
            out.append((True, cons, None, 'own text, verbatim'))
    return out


def r3_prose_leaves_verbatim(w):
    r = RuleResult('C08.R3', 'prose leaf kinds are emitted from their own token text with no transformer in between', floor=7)
    for ok, cons, key, why in leaf_converter_obligations(w, ['Text', 'Escape', 'Shorthand', 'SmartQuote', 'Link', 'Label', 'Linebreak']):
        if ok:
            r.ok(cons, why)
        else:
            r.bad(cons, key, why)
    # references: "@" + target()  (+ supplement converted as a content block)
    bs = [b for b in w.core.find('::convert_ref') if b.def_kind != 'Closure']
    if len(bs) == 1:
        res = run_function(w, bs[0], {3: Node('parent', 'Ref')})
        good = bool(res)
        for result, events, assumed in res or []:
            flat = [a for a in (result.flat() if isinstance(result, Doc) else []) if a[0] != 'nil']
            texts = [a for a in flat if a[0] == 'text']
            if not (len(texts) == 2 and isinstance(texts[0][1], Const) and texts[0][1].v == '@'
                    and isinstance(texts[1][1], Top) and (texts[1][1].src or '').endswith('::target')):
                good = False
        cons = {'leaf': 'Ref', 'shape': '"@" + Ref::target()'}
        if good:
            r.ok(cons, 'marker re-created from the accessor that strips exactly the "@"')
        else:
            r.bad(cons, 'leaf|Ref', 'a reference is not printed as "@" followed by its own target', bs[0].loc())
    return r


RULES = [r1_no_soft_breaks_between_prose, r2_break_suppression, r3_prose_leaves_verbatim]
for _f in RULES:
    _f.needs = ('core',)
MATRIX_RULES = [r3_prose_leaves_verbatim]
EXTRA_CONFIGS = ['core-serde']
