"""C15 - in-place modes write exactly the formatted text, only where they should."""
import re
import cfg
from prov import strip_casts
from mirfacts import callee_path, resolved_id, resolved_path, callee_str
from framework import RuleResult, AnchorMissing
from rules.cli_common import Cli, CHECK, INPLACE, VIEW, CORE_FORMAT

META = {
    'explanation': 'Structural argument over the MIR of crate typstyle: (R1) the content operand of every write-back has provenance "Ok payload of '
                   'the library format call configured by the option mapping, applied to the content read from the same path"; (R2) every '
                   'write-back is dominated by the formatted!=content edge (directly or through the Changed variant, whose construction sites are '
                   'checked); (R3) in the directory walk the per-file body is dominated by is_file() and extension()=="typ", hidden entries are pruned '
                   'with filter_entry and the predicate exempts the walk root; (R4) batch loops have a single exit (iterator exhaustion) and every '
                   'io/anyhow/walkdir Result produced in them reaches an error counter that guards the function\'s Err return.',
    'decides': 'what is written, when, to which files, and that I/O failures neither stop the batch nor go unreported',
    'does_not_decide': 'modification-time effects of the OS, concurrent writers, clap parsing',
    'trusted_base': ['walkdir: filter_entry prunes directories, depth()==0 is the root entry', 'std::fs contracts', 'rustc MIR construction'],
}

ERR_TYPES = re.compile(r'std::io::Error|anyhow::Error|walkdir::Error')
ITER_ADAPT = re.compile(r'IntoIterator>::into_iter$|IntoIterator::into_iter$')


def _through_call(v, origins, rx):
    return v.pv.through(origins, rx)


# ------------------------------------------------------------------------------------------ R1
def r1_what_is_written(w):
    r = RuleResult('C15.R1', 'written text = Ok payload of the library call (config from the option mapping, source = content read from the written path)', floor=4)
    c = Cli(w)
    if not c.writers:
        raise AnchorMissing('no file-mutating call in crate typstyle')
    # direct writer sites: operands must be parameters of the wrapper (or themselves classified)
    sites = []   # (body, bb, term, path_operand, content_operand)
    for (b, bi, t, path) in c.writers:
        if path.endswith('std::fs::write') and len(t['args']) == 2:
            v = c.view(b)
            po = v.pv.through(v.pv.origins_operand(t['args'][0]), VIEW)
            co = v.pv.through(v.pv.origins_operand(t['args'][1]), VIEW)
            if all(o[0] == 'param' and not o[2] for o in po | co) and b.def_kind != 'Closure':
                pi = {o[1] for o in po}
                ci = {o[1] for o in co}
                for (cb, cbi, ct) in c.callers(b.id):
                    for p_idx in pi:
                        for c_idx in ci:
                            sites.append((cb, cbi, ct, ct['args'][p_idx - 1], ct['args'][c_idx - 1], b.short))
                r.ok({'fn': b.short, 'callee': path}, 'write-back wrapper: path and content are its parameters')
            else:
                sites.append((b, bi, t, t['args'][0], t['args'][1], path))
        else:
            r.bad({'fn': b.short, 'callee': path}, '%s|writer|%s' % (b.short, path),
                  'file-mutating call `%s` in %s is not the write-back of formatted text' % (path, b.short), b.loc(t['span']))
    for (b, bi, t, p_op, c_op, via) in sites:
        v = c.view(b)
        tags = c.classify_text(b, v.pv.origins_operand(c_op))
        cons = {'fn': b.short, 'bb': bi, 'via': via, 'content': sorted(tags)}
        if tags == {'formatted'}:
            r.ok(cons, 'content is the Ok payload of a typstyle_core format call')
        else:
            r.bad(cons, '%s|content|%s' % (b.short, '+'.join(sorted(x.split(':')[0] for x in tags))),
                  'text written back in %s is not exactly the library result: provenance %s' % (b.short, sorted(tags)), b.loc(t['span']))
        # the written path is the path that was read
        wp = {v.describe(o) for o in v.pv.through(v.pv.origins_operand(p_op), VIEW)}
        rp = _read_paths(c, b)
        cons = {'fn': b.short, 'bb': bi, 'write_path': sorted(wp), 'read_path': sorted(rp)}
        wp_n = {_norm_path(x) for x in wp}
        rp_n = {_norm_path(x) for x in rp}
        if wp_n and wp_n <= rp_n:
            r.ok(cons, 'same path expression is read and written')
        else:
            r.bad(cons, '%s|path' % b.short, 'file written in %s (%s) is not the file that was read (%s)' % (b.short, sorted(wp), sorted(rp)), b.loc(t['span']))
    # the library calls themselves: config and source
    for (b, bi, t, p) in c.core_format_calls():
        v = c.view(b)
        recv = v.describe_operand(t['args'][0])
        cons = {'fn': b.short, 'call': p, 'receiver': recv}
        via_mapping, why_m = c.formatter_ok(b, t['args'][0])
        if via_mapping:
            r.ok(cons, 'Typstyle::new(args.style.to_config())')
        else:
            r.bad(cons, '%s|config' % b.short, 'library call in %s is not configured by the option mapping of args.style: %s' % (b.short, recv), b.loc(t['span']))
        src = c.classify_text(b, v.pv.through(v.pv.origins_operand(t['args'][1]), re.compile(r'Source::detached$|source::\{impl#\d+\}::detached$|::new$')))
        src2 = set()
        for o in v.pv.through(v.pv.origins_operand(t['args'][1]), VIEW):
            if o[0] == 'call' and (resolved_path(v.pv.call_term(o)) or '').endswith('::detached'):
                src2 |= c.classify_text(b, v.pv.origins_operand(v.pv.call_term(o)['args'][0]))
            else:
                src2 |= c.classify_text(b, {o})
        cons = {'fn': b.short, 'call': p, 'source': sorted(src2)}
        if src2 == {'input'}:
            r.ok(cons, 'formats the content that was read')
        else:
            r.bad(cons, '%s|source' % b.short, 'library call in %s does not format exactly the content that was read: %s' % (b.short, sorted(src2)), b.loc(t['span']))
    return r


def _norm_path(d):
    d = re.sub(r'call:core::option::\{impl#\d+\}::unwrap\((.*)\)$', r'\1', d)
    d = re.sub(r'\.v/1\.f/0$', '', d)
    return d


def _read_paths(c, b, depth=0):
    """descriptions of the path operands of the reads that feed the content formatted in b"""
    v = c.view(b)
    out = set()
    for bi, t in b.calls():
        p = resolved_path(t) or ''
        if p.endswith('std::fs::read_to_string'):
            out |= {v.describe(o) for o in v.pv.through(v.pv.origins_operand(t['args'][0]), VIEW)}
        rid = resolved_id(t)
        cb = c.w.bodies.get(rid)
        if cb is not None and cb.crate is c.w.cli and depth < 2 and cb.def_kind != 'Closure':
            # a reader helper: (path param) -> content
            cv = c.view(cb)
            for cbi, ct in cb.calls():
                if (resolved_path(ct) or '').endswith('std::fs::read_to_string'):
                    for o in cv.pv.through(cv.pv.origins_operand(ct['args'][0]), VIEW):
                        o = strip_casts(o)
                        if o[0] == 'param':
                            arg = t['args'][o[1] - 1]
                            for x in v.pv.through(v.pv.origins_operand(arg), VIEW):
                                out.add(v.describe((x[0], x[1], x[2] + o[2])))
    return out


# ------------------------------------------------------------------------------------------ R2
def r2_only_if_changed(w):
    from rules.c14 import _changed_guard
    r = RuleResult('C15.R2', 'every write-back is dominated by the formatted != content edge (directly or via the Changed variant)', floor=2)
    c = Cli(w)
    sites = []
    for (b, bi, t, path) in c.writers:
        callers = c.callers(b.id) if b.def_kind != 'Closure' else []
        v = c.view(b)
        ok, why = _changed_guard(c, v, bi)
        if ok:
            r.ok({'fn': b.short, 'bb': bi}, why)
        elif callers:
            for (cb, cbi, ct) in callers:
                sites.append((cb, cbi, ct))
        else:
            r.bad({'fn': b.short, 'bb': bi}, '%s|unconditional-write' % b.short, 'file write in %s is not conditional on the text having changed (%s)' % (b.short, why), b.loc(t['span']))
    for (b, bi, t) in sites:
        v = c.view(b)
        ok, why = _changed_guard(c, v, bi)
        cons = {'fn': b.short, 'bb': bi}
        if ok:
            r.ok(cons, why)
        else:
            r.bad(cons, '%s|unconditional-write' % b.short,
                  'write-back in %s is not conditional on the formatted text differing from the content (%s): already formatted files would be rewritten' % (b.short, why),
                  b.loc(t['span']))
    return r


# ------------------------------------------------------------------------------------------ R3
def _walk_fn(c):
    out = []
    for b in c.fns():
        for bi, t in b.calls():
            if (callee_path(t) or '') == 'walkdir::WalkDir::new':
                out.append((b, bi, t))
    if len(out) != 1:
        raise AnchorMissing('directory walk (call of walkdir::WalkDir::new): found %d' % len(out))
    return out[0]


def _iterator_chain(v, next_term):
    """adaptor calls from the receiver of Iterator::next back to its source: [(path, term)]"""
    chain = []
    cur = v.pv.origins_operand(next_term['args'][0])
    for _ in range(30):
        cur = v.pv.peel(cur)
        if len(cur) != 1:
            break
        o = next(iter(cur))
        if o[0] != 'call' or o[2]:
            break
        t = v.pv.call_term(o)
        chain.append((callee_path(t) or '', t))
        if not t['args']:
            break
        cur = v.pv.origins_operand(t['args'][0])
    return chain


def _loops_with_next(b):
    """{header: (blocks, next_term)} for natural loops whose header (or its predecessor chain) calls Iterator::next"""
    out = {}
    for h, blocks in cfg.natural_loops(b).items():
        t = b.blocks[h]['term']
        if t['t'] == 'call' and (callee_path(t) or '').endswith('Iterator::next'):
            out[h] = (blocks, t)
    return out


def _ext_guard(v, bi):
    """block dominated by the true edge of Option<&OsStr>::eq(path.extension(), Some("typ".as_ref()))"""
    b = v.b
    asref = re.compile(r'AsRef<.*>>::as_ref$|AsRef<.*> for str>::as_ref$|::as_ref$|OsStr::new$')
    for atom, vals, sw in v.guards_ext(bi):
        if vals not in ({True}, {False}):
            continue
        for o in v.pv.peel(v.pv.origins_operand(v.guard_operand((atom, vals, sw)))):
            if o[0] != 'call':
                continue
            t = v.pv.call_term(o)
            p = (resolved_path(t) or '') + ' ' + (callee_path(t) or '')
            # `ext == Some("typ")` on its true edge, or `ext != Some("typ")` on its false edge
            want = '::eq' if vals == {True} else '::ne'
            if 'PartialEq' not in p or not p.rstrip().endswith(want) or len(t['args']) != 2:
                continue
            sides = [v.pv.peel(v.pv.origins_operand(a)) for a in t['args']]
            has_ext = has_typ = False
            for side in sides:
                for x in side:
                    if x[0] == 'call' and (callee_path(v.pv.call_term(x)) or '').endswith('Path::extension'):
                        has_ext = True
                    if x[0] == 'agg':
                        rv = v.pv.agg_rvalue(x)
                        if rv.get('vname') == 'Some':
                            inner = v.pv.through(v.pv.origins_operand(rv['ops'][0]), asref)
                            if inner == {('const', ('str', 'typ'), ())}:
                                has_typ = True
            if has_ext and has_typ:
                return True
    return False


def r3_eligibility(w):
    r = RuleResult('C15.R3', 'walk: per-file body guarded by is_file() and extension()=="typ"; hidden entries pruned by filter_entry; predicate exempts the root', floor=5)
    c = Cli(w)
    b, wbi, wt = _walk_fn(c)
    v = c.view(b)
    loops = _loops_with_next(b)
    walk_loop = None
    for h, (blocks, nt) in loops.items():
        chain = _iterator_chain(v, nt)
        if any(p == 'walkdir::WalkDir::new' for p, _ in chain):
            walk_loop = (h, blocks, nt, chain)
    if walk_loop is None:
        raise AnchorMissing('loop over the WalkDir iterator in %s' % b.short)
    h, blocks, nt, chain = walk_loop
    names = [p for p, _ in chain]
    # (a) per-file body guards
    body_calls = [(bi, t) for bi, t in b.calls() if bi in blocks and
                  (CORE_FORMAT.search(resolved_path(t) or '') or (resolved_path(t) or '').endswith('std::fs::read_to_string')
                   or resolved_id(t) in {x[0].id for x in c.writers})]
    if not body_calls:
        raise AnchorMissing('read/format/write calls inside the walk loop')
    for bi, t in body_calls:
        gs = v.guards_ext(bi)
        is_file = any(a.startswith('call:std::fs::{impl#') and 'is_file' in a and vals == {True} for a, vals, _ in gs) or \
            any('is_file' in a and 'file_type' in a and vals == {True} for a, vals, _ in gs)
        ext = _ext_guard(v, bi)
        cons = {'fn': b.short, 'call': resolved_path(t), 'bb': bi}
        if is_file and ext:
            r.ok(cons, 'dominated by file_type().is_file() and extension()==Some("typ")')
        else:
            r.bad(cons, '%s|eligibility|%s' % (b.short, (resolved_path(t) or '').rsplit('::', 1)[-1]),
                  'call `%s` in the walk loop is not guarded by %s: ineligible entries would be processed'
                  % (resolved_path(t), ' and '.join(x for x, y in (('is_file()', is_file), ('extension()=="typ"', ext)) if not y)), b.loc(t['span']))
    # (b) hidden pruning
    fe = [(p, t) for p, t in chain if p == 'walkdir::IntoIter::filter_entry' or p.endswith('FilterEntry<I, P>::filter_entry')]
    cons = {'fn': b.short, 'iterator_chain': names}
    if not fe:
        r.bad(cons, '%s|no-filter_entry' % b.short,
              'hidden entries are not pruned with walkdir filter_entry (chain: %s): files inside hidden directories would be formatted' % names, b.loc(nt['span']))
        return r
    r.ok(cons, 'filter_entry prunes the walk')
    # predicate closure
    pred_ids = set()
    for p, t in fe:
        for a in t['args'][1:]:
            for o in v.pv.peel(v.pv.origins_operand(a)):
                if o[0] == 'agg':
                    rv = v.pv.agg_rvalue(o)
                    if rv['ak'] == 'closure':
                        pred_ids.add(rv['def']['id'])
                if o[0] == 'fnitem':
                    pred_ids.add(o[1])
    if not pred_ids:
        raise AnchorMissing('filter_entry predicate closure')
    reach = w.reachable(pred_ids)
    ext_paths = set()
    for fid in reach:
        for (_, _, path, _) in w.extern_calls(fid):
            ext_paths.add(path)
    hidden_test = any(p.endswith('DirEntry::file_name') for p in ext_paths) and any(p.endswith('str>::starts_with') or p.endswith('::starts_with') for p in ext_paths)
    cons = {'predicate': sorted(x.split('::', 1)[-1] for x in reach), 'callees': sorted(ext_paths)[:8]}
    if hidden_test:
        r.ok(cons, 'predicate tests the entry\'s file name prefix')
    else:
        r.bad(cons, '%s|hidden-predicate' % b.short, 'filter_entry predicate does not test the entry\'s file name for a leading dot', b.loc(nt['span']))
    # (c) root exemption
    exempt = any(p.endswith('DirEntry::depth') for p in ext_paths) or any(p == 'walkdir::WalkDir::min_depth' for p in names) \
        or any(p.endswith('DirEntry::path') for p in ext_paths) and any('PartialEq' in p and 'Path' in p for p in ext_paths)
    cons = {'predicate': sorted(x.split('::', 1)[-1] for x in reach), 'root_exempt_by': 'depth()/min_depth()/path comparison'}
    if exempt:
        r.ok(cons, 'root entry exempt from the hidden-name predicate')
    else:
        r.bad(cons, 'root-exemption',
              'the hidden-name predicate of the directory walk is applied to the root entry as well (no DirEntry::depth()/min_depth()/root comparison): '
              '`format-all .` or `format-all .config` prunes the whole tree, formats nothing and exits 0', b.loc(nt['span']))
    return r


# ------------------------------------------------------------------------------------------ R4
def _batch_loops(c):
    """[(body, header, blocks, next_term)] loops that process inputs: contain a library format call, a read, or a call to a
    function that (transitively) does"""
    out = []
    fmt_reach = set()
    for (b, bi, t, p) in c.core_format_calls():
        fmt_reach.add(b.id)
    # functions that reach a format call
    edges, _ = c.w.callgraph()
    changed = True
    while changed:
        changed = False
        for fid, es in edges.items():
            if fid not in fmt_reach and es & fmt_reach and fid.startswith('typstyle::'):
                fmt_reach.add(fid)
                changed = True
    for b in c.fns():
        for h, (blocks, nt) in _loops_with_next(b).items():
            hit = False
            for bi, t in b.calls():
                if bi in blocks and (CORE_FORMAT.search(resolved_path(t) or '') or resolved_id(t) in fmt_reach):
                    hit = True
            if hit:
                out.append((b, h, blocks, nt))
    return out


def r4_error_isolation(w):
    r = RuleResult('C15.R4', 'batch loops exit only by iterator exhaustion; every io/anyhow/walkdir Result in them reaches a counter that guards the Err return', floor=6)
    c = Cli(w)
    loops = _batch_loops(c)
    if len(loops) < 2:
        raise AnchorMissing('batch loops (found %d, expected the file-list loop and the directory walk)' % len(loops))
    for (b, h, blocks, nt) in loops:
        v = c.view(b)
        # (a) single exit
        sw = b.succs(h)[0] if b.succs(h) else None
        exits = [(x, s) for x in sorted(blocks) for s in b.succs(x) if s not in blocks and not b.blocks[s]['cleanup']
                 and not (b.blocks[s]['term']['t'] == 'unreachable' and not b.blocks[s]['stmts'])]
        # a header rewritten from `adaptor.next()` to `inner.next()` (inline.py): the loop is also left where the rewritten code answers `None` for the
        # adaptor - the test of the inner result, and the original test of the adaptor's result (which only the None answer leaves)
        ok_src = {sw}
        ht = b.blocks[h]['term']
        if ht.get('orig_dests'):
            ok_src |= set(ht.get('exhaust_blocks', []))
            for x in blocks:
                xt = b.blocks[x]['term']
                if xt['t'] == 'switch' and xt['discr'].get('o') in ('move', 'copy'):
                    dl = xt['discr']['p']['l']
                    defs = [st['rv'] for blk2 in b.blocks for st in blk2['stmts'] if st['s'] == 'assign' and st['p']['l'] == dl and not st['p']['proj']]
                    if defs and all(rv.get('r') == 'discr' and rv['p']['l'] in ht['orig_dests'] and not rv['p']['proj'] for rv in defs):
                        ok_src.add(x)
        bad = [(x, s) for (x, s) in exits if x not in ok_src]
        cons = {'fn': b.short, 'loop_header': h, 'exits': exits}
        if bad:
            r.bad(cons, '%s|early-exit' % b.short,
                  'the batch loop in %s can be left before all inputs are processed (edges %s): a failure on one input stops the others' % (b.short, bad),
                  b.loc(b.blocks[bad[0][0]]['term']['span']))
        else:
            r.ok(cons, 'single exit: iterator exhaustion')
        counters = _error_counters(c, v)
        # (b1) items of the iterator itself
        chain = _iterator_chain(v, nt)
        for p, t in chain:
            s = callee_str(t) or ''
            swallow = None
            for a in t['args'][1:]:
                for o in v.pv.peel(v.pv.origins_operand(a)):
                    if o[0] == 'fnitem' and re.search(r'result::\{impl#\d+\}::ok$|Result::<.*>::ok$|result::Result::ok$', o[1] + ''):
                        swallow = 'Result::ok'
            if a_is_result_ok(t):
                swallow = 'Result::ok'
            if p.endswith('::flatten') and 'Result' in s:
                swallow = 'flatten'
            if swallow and ERR_TYPES.search(s):
                r.bad({'fn': b.short, 'iterator_adaptor': p, 'swallows': swallow}, '%s|iter-swallow|%s' % (b.short, p.rsplit('::', 1)[-1]),
                      'the batch iterator in %s drops Err items with %s(%s): walk errors (unreadable or missing directory) are neither reported nor counted, exit status stays 0'
                      % (b.short, p.rsplit('::', 1)[-1], swallow), b.loc(t['span']))
            elif 'Result' in s and ERR_TYPES.search(s):
                r.ok({'fn': b.short, 'iterator_adaptor': p}, 'does not discard Err items')
        item_ty = b.locals[nt['dest']['l']]['ty']['s']
        if ERR_TYPES.search(item_ty):
            # items are Results: their Err edge must be counted like any other
            pass
        # (b2) Results produced in the loop body
        for bi, t in b.calls():
            if bi not in blocks:
                continue
            dty = b.locals[t['dest']['l']]['ty']['s'] if not t['dest']['proj'] else ''
            if not dty.startswith('std::result::Result<') or not ERR_TYPES.search(dty):
                continue
            p = resolved_path(t) or callee_path(t) or ''
            if re.search(r'Try>::branch$|Try::branch$|FromResidual', p) or re.search(r'(unwrap_or_else|map_err|with_context|context)$', p):
                continue     # adaptors: judged at the producing call
            verdict, why = _err_handled(c, v, b, blocks, h, bi, t, counters)
            cons = {'fn': b.short, 'call': p, 'bb': bi, 'result': dty}
            if verdict:
                r.ok(cons, why)
            else:
                r.bad(cons, '%s|swallowed|%s' % (b.short, p.rsplit('::', 1)[-1]),
                      'an I/O failure of `%s` inside the batch loop of %s is %s: it is not reported by a non-zero exit status' % (p, b.short, why),
                      b.loc(t['span']))
        # the item itself when it is a Result
        if ERR_TYPES.search(item_ty) and item_ty.startswith('std::option::Option<std::result::Result<'):
            verdict, why = _item_err_handled(c, v, b, blocks, h, nt, counters)
            cons = {'fn': b.short, 'item': item_ty}
            if verdict:
                r.ok(cons, why)
            else:
                r.bad(cons, '%s|item-swallowed' % b.short, 'Err items of the batch iterator in %s are %s' % (b.short, why), b.loc(nt['span']))
        # (c) the counter guards the Err return
        cons = {'fn': b.short, 'error_counters': sorted(counters)}
        tests = _counter_guards_err(c, v, counters) if counters else []
        if tests:
            r.ok(cons, 'a non-zero error counter leads to the Err return')
        else:
            r.bad(cons, '%s|counter-unused' % b.short, 'no error counter of %s guards its Err return' % b.short, b.loc())
            continue
        # (d) and the test cannot be skipped: after the loop, every Ok return lies behind the "counter is zero" edge
        zero_edges = set()
        for sw in tests:
            for tgt, label in v.switch_edges(sw):
                if v.label_values(sw, label) == {False}:
                    zero_edges.add((sw, tgt))
        after = [s_ for (x, s_) in exits if x == sw_of(b, h)]
        # path-sensitive for values built as a known variant (`helper()?` expanded: `r = Err(..); match branch(r) {..}`)
        seen = cfg.walk_known(b, after, cut_edges=zero_edges, skip_blocks=blocks)
        skipped = [bi for bi in sorted(seen) for st in b.blocks[bi]['stmts']
                   if st['s'] == 'assign' and st['p']['l'] == 0 and not st['p']['proj'] and st['rv']['r'] == 'agg' and st['rv'].get('vname') == 'Ok']
        cons = {'fn': b.short, 'error_counter_test_at': sorted(tests), 'ok_returns_not_behind_it': skipped}
        if skipped:
            r.bad(cons, '%s|counter-test-skipped' % b.short,
                  '%s can return Ok after its batch loop without passing the "error counter is zero" test (the test is skipped on some path, e.g. an early return in '
                  'one mode): I/O errors are counted but do not reach the exit status' % b.short, b.loc(b.blocks[skipped[0]]['term']['span']))
        else:
            r.ok(cons, 'every Ok return after the loop is reached only through the counter == 0 edge')
    return r


def sw_of(b, h):
    return b.succs(h)[0] if b.succs(h) else None


def a_is_result_ok(t):
    for a in t['args'][1:]:
        if a['o'] == 'const' and 'fn' in a:
            p = a['fn']['def']['path']
            if p.endswith('Result::<T, E>::ok') or p.endswith('::ok'):
                return True
    return False


def _increments(v):
    """{place description: [(bb)]} for `place = place + 1` statements (in this body and, for captured counters, its closures)"""
    out = {}
    b = v.b
    for bi, blk in enumerate(b.blocks):
        if blk['cleanup']:
            continue
        for si, s in enumerate(blk['stmts']):
            if s['s'] == 'assign' and s['rv']['r'] == 'binop' and s['rv']['op'] in ('AddWithOverflow', 'Add', 'AddUnchecked'):
                a, bb_ = s['rv']['a'], s['rv']['b']
                if bb_['o'] == 'const' and bb_.get('int') == 1 and a['o'] in ('copy', 'move'):
                    out.setdefault(_place_name(v, a['p']), []).append(bi)
                    # `count + 1` written functionally (a fold state rebuilt with the incremented field): the operand is a temporary copy of a named value
                    l, hops = a['p']['l'], 0
                    while not a['p']['proj'] and l not in b.names and hops < 5:
                        ds = v.pv.defs.get(l, [])
                        if len(ds) == 1 and ds[0][1] == 'rv' and ds[0][4]['r'] == 'use' and ds[0][4]['op'].get('o') in ('copy', 'move') and not ds[0][4]['op']['p']['proj']:
                            l = ds[0][4]['op']['p']['l']
                            hops += 1
                        else:
                            break
                    if hops and l in b.names:
                        out.setdefault(b.names[l], []).append(bi)
    return out


def _place_name(v, p):
    from prov import place_key
    from tyutil import name_projection
    l, pr = place_key(p)
    if pr == (('*',),) and v.b.def_kind == 'Closure':
        for o in v.pv._origins_local(l, frozenset()):
            if o[0] == 'param' and o[1] == 1 and o[2] and o[2][-1][0] == 'f':
                return 'upvar.%d' % o[2][-1][1]
    steps, _ = name_projection(v.w, v.b.locals[l]['ty'], pr)
    base = v.b.names.get(l, '_%d' % l)
    # through captured references
    if steps and steps[0].startswith('upvar.'):
        return 'upvar' + steps[0][5:]
    return base + ''.join('.' + s.rsplit('.', 1)[-1] for s in steps if '.' in s)


def _error_counters(c, v):
    """names of places incremented in this body (or in closures created here through a captured &mut) that are compared > 0
    to reach a Result::Err return"""
    b = v.b
    cands = set(_increments(v))
    # closures created here that increment an upvar: map upvar index -> captured local
    for bi, blk in enumerate(b.blocks):
        for s in blk['stmts']:
            if s['s'] == 'assign' and s['rv']['r'] == 'agg' and s['rv'].get('ak') == 'closure':
                cid = s['rv']['def']['id']
                cb = c.w.bodies.get(cid)
                if cb is None:
                    continue
                cv = c.view(cb)
                for name in _increments(cv):
                    if name.startswith('upvar.'):
                        idx = int(name.split('.')[1])
                        if idx < len(s['rv']['ops']):
                            for o in v.pv.origins_operand(s['rv']['ops'][idx]):
                                if o[0] == 'ref':
                                    cands.add(v.b.names.get(o[1][0], '_%d' % o[1][0]))
    return cands


def _counter_guards_err(c, v, counters):
    """switch blocks that test `counter > 0` (or != 0, >= 1) and whose true edge dominates an Err return"""
    b = v.b
    found = set()
    for bi, blk in enumerate(b.blocks):
        if blk['cleanup']:
            continue
        for s in blk['stmts']:
            if s['s'] == 'assign' and not s['p']['proj'] and s['rv']['r'] == 'agg' and s['rv'].get('vname') == 'Err' and (s['p']['l'] == 0 or blk.get('inl')):
                # (an Err built in an expanded helper - `ensure_no_errors(count)?` - reaches the return through `?`)
                for atom, vals, sw in v.guards_ext(bi):
                    if atom.startswith(('binop:Gt(', 'binop:Ne(', 'binop:Ge(')) and vals == {True}:
                        # operand of the comparison is one of the counters
                        for o in v.pv.peel(v.pv.origins_operand(v.guard_operand((atom, vals, sw)))):
                            if o[0] == 'binop':
                                rv = b.blocks[o[1][0]]['stmts'][o[1][1]]['rv']
                                a = rv['a']
                                bound = rv['b'].get('int') if rv['b']['o'] == 'const' else None
                                if bound != (1 if rv['op'] == 'Ge' else 0):
                                    continue
                                if a['o'] in ('copy', 'move'):
                                    # follow a copy of the counter
                                    names = {_place_name(v, a['p'])}
                                    for x in v.pv.origins_operand(a):
                                        if x[0] == 'ref':
                                            names.add(v.b.names.get(x[1][0], ''))
                                    l = a['p']['l']
                                    seen_l = set()
                                    for _ in range(5):          # copies through temporaries / the bound parameter of an expanded helper
                                        nxt = None
                                        for (proj, kind, dbi, dsi, payload) in v.pv.defs.get(l, []):
                                            if kind == 'rv' and payload['r'] == 'use' and payload['op']['o'] in ('copy', 'move'):
                                                names.add(_place_name(v, payload['op']['p']))
                                                if len(v.pv.defs.get(l, [])) == 1 and not payload['op']['p']['proj']:
                                                    nxt = payload['op']['p']['l']
                                        if nxt is None or nxt in seen_l:
                                            break
                                        seen_l.add(nxt)
                                        l = nxt
                                    if names & counters:
                                        found.add(sw)
    return sorted(found)


def _err_handled(c, v, b, blocks, h, bi, t, counters):
    """how is the Err case of the Result produced by call (bi, t) handled?"""
    return _result_local_handled(c, v, b, blocks, h, t['dest']['l'], counters, 0)


def _result_local_handled(c, v, b, blocks, h, dest, counters, depth):
    from dataflow import iter_uses
    if depth > 4:
        return False, 'not visibly handled'
    uses = [u for u in iter_uses(b) if u['local'] == dest]
    for u in uses:
        if u['how'] in ('use',) and not u['proj'] and not u['dest'][1]:
            # moved into another local
            ok, why = _result_local_handled(c, v, b, blocks, h, u['dest'][0], counters, depth + 1)
            if ok or why != 'dropped without inspection':
                return ok, why
        if u['how'] == 'call-arg':
            p = resolved_path(u['term']) or callee_path(u['term']) or ''
            if re.search(r'Try>::branch$|Try::branch$', p):
                return False, 'propagated with `?` out of the loop (stops the batch)'
            if re.search(r'unwrap_or_else$', p):
                for a in u['term']['args'][1:]:
                    for o in v.pv.peel(v.pv.origins_operand(a)):
                        if o[0] == 'agg' and v.pv.agg_rvalue(o).get('ak') == 'closure':
                            cb = c.w.bodies.get(v.pv.agg_rvalue(o)['def']['id'])
                            if cb is not None and any(n.startswith('upvar.') for n in _increments(c.view(cb))):
                                return True, 'Err handled by a closure that increments the error counter'
                return False, 'replaced by a default without counting'
            if re.search(r'(::ok|unwrap_or_default|unwrap_or|is_ok|is_err|::err)$', p):
                return False, 'discarded with `%s`' % p.rsplit('::', 1)[-1]
            if re.search(r'(with_context|map_err|context)$', p):
                return _result_local_handled(c, v, b, blocks, h, u['term']['dest']['l'], counters, depth + 1)
        if u['how'] == 'discr' and (not u['proj'] or u['proj'] == (('v', 1), ('f', 0))):
            dl = u['dest'][0]
            for sbi in sorted(blocks):
                st = b.blocks[sbi]['term']
                if st['t'] == 'switch' and st['discr']['o'] in ('copy', 'move') and st['discr']['p']['l'] == dl:
                    for tgt, label in v.switch_edges(sbi):
                        lv = v.label_values(sbi, label)
                        if 'Err' in lv and 'Ok' not in lv:
                            inc_blocks = set()
                            for name, bbs in _increments(v).items():
                                if name in counters:
                                    inc_blocks |= set(bbs)
                            if inc_blocks and (tgt in inc_blocks or h not in cfg.walk_known(b, [tgt], stop=lambda x: x == h, skip_blocks=inc_blocks)):
                                return True, 'Err edge increments the error counter before the next iteration'
                            return False, 'ignored: the Err edge continues with the next input without incrementing an error counter'
    if not uses:
        return False, 'dropped without inspection'
    return False, 'not visibly handled'


def _item_err_handled(c, v, b, blocks, h, nt, counters):
    """the iterator yields Result items: the Err edge of the item must be counted"""
    from dataflow import iter_uses
    dest = nt['dest']['l']
    # the Some payload is moved to a local, or its discriminant is read in place
    for u in iter_uses(b):
        if u['local'] == dest and u['how'] == 'discr' and u['proj'] == (('v', 1), ('f', 0)):
            return _result_local_handled(c, v, b, blocks, h, dest, counters, 0)
        if u['local'] == dest and u['how'] == 'use' and u['proj'] == (('v', 1), ('f', 0)) and not u['dest'][1]:
            return _result_local_handled(c, v, b, blocks, h, u['dest'][0], counters, 0)
    return False, 'not visibly handled'


RULES = [r1_what_is_written, r2_only_if_changed, r3_eligibility, r4_error_isolation]
for _f in RULES:
    _f.needs = ('cli',)
MATRIX_RULES = RULES
EXTRA_CONFIGS = ['cli-minimal']
