"""C06 - no comment is lost, duplicated, reordered or reworded (statically decidable clauses)."""
import re
import cfg
import grammar
from mirfacts import callee_path, resolved_id, resolved_path
from paths import BodyView
from framework import RuleResult, AnchorMissing
from rules import e2
from rules.e2 import COMMENT, last
import sites as sites_mod
import kindflow as kf

META = {
    'explanation': 'Kind-directed abstract evaluation (E2) of every loop in which a converter walks the children of its node: the loop body - the generic '
                   'layout helper instantiated with the converter\'s closure - is evaluated once per child kind the pinned Typst grammar allows, with all '
                   'loop-carried state widened to unknown; for LineComment and BlockComment every path must hand the comment (converted, or as its own text) '
                   'to the document accumulator or a comment queue (R1).  Converters that never walk their children (typed accessors only) must be for a '
                   'parent kind that admits no trivia, or be dominated by a no-comment test (R2).  The comment converter applies only whitespace-prefix '
                   'transformers to the comment text (R3).  A line comment is always followed by a hard line break before the next token (R4 = C04.R1).',
    'decides': 'every comment child reaches an emitting branch, in iteration order, with its text intact up to leading indentation of continuation lines, '
               'and a line comment is always followed by a hard break',
    'does_not_decide': 'that a comment stays between the same neighbouring words (attachment/detachment heuristics move it across punctuation only by design, '
                       'which is not decided here); behaviour of the renderer',
    'trusted_base': ['grammar tables transcribed from typst-syntax 0.13.1 (tables/, lib/grammar.py)', 'rustc MIR construction', 'pretty renders text verbatim'],
}


def r1_comment_coverage(w):
    r = RuleResult('C06.R1', 'every loop over children that emits anything hands LineComment and BlockComment children to an accumulator on every path', floor=60)
    gs = e2.groups(w)
    em = e2.emitting_loops(gs)
    if len(em) < 30:
        raise AnchorMissing('only %d emitting dispatch loops found' % len(em))
    for (fn, parent, loop), lg in sorted(em.items()):
        for g in lg:
            if g.kind not in COMMENT:
                continue
            bad = [o for o in g.paths if not g.emits_child(o)]
            cons = {'converter': last(fn), 'parent': parent, 'loop': '%s:%d' % (last(loop[0]), loop[1]), 'child': g.kind, 'paths': len(g.paths)}
            if not bad:
                how = sorted({a for o in g.paths for a in sites_mod.outcome_summary(o) if 'child' in a} | ({'queued-as-node'} if any(o.pushed for o in g.paths) else set()))
                r.ok(cons, 'emitted on every path: %s' % how)
            else:
                why = e2.droppable(g, w)
                if why:
                    r.ok(cons, 'exempt: ' + why)
                    continue
                r.bad(cons, '%s|%s|%s|%s' % (last(fn), parent, last(loop[0]), g.kind),
                      'a %s child of a %s node is dropped by %s (loop in %s) on %d of %d evaluated paths: the comment is lost (last branch assumptions: %s)'
                      % (g.kind, parent, last(fn), last(loop[0]), len(bad), len(g.paths), [(a[0].rsplit('::', 1)[-1], a[4]) for a in bad[0].assumed[-3:] if len(a) > 4]))
    # children may be removed only where the per-kind rules can see it: no element-dropping adaptor in front of a loop over syntax nodes
    for ok, cons, key, why, loc in e2.filter_obligations(w):
        (r.ok(cons, why) if ok else r.bad(cons, key, why, loc))
    return r


NO_COMMENT_GUARD = re.compile(r'has_comment_children$|AttrStore::has_comment$|attr::\{impl#\d+\}::has_comment$|is_unformattable$|is_formatable(_table)?$')


# guards that read the per-node attribute computed by the attribute pass instead of scanning the node's children (seed C06/4B)
ATTR_GUARD = re.compile(r'AttrStore::has_comment$|attr::\{impl#\d+\}::has_comment$|is_unformattable$')
_ATTR_SOUND = {}


def attr_guard_sound(w):
    """(sound?, why): may `the has-comment attribute of this node is unset` be read as `no child of this node is a comment`?  Only if the pass
    that sets the attribute looks at the children of *every* node a converter can be handed.  The pass is found by role (the function of the
    attribute module that loops over children and stores the has-comment flag, directly or through a setter); it is evaluated on one iteration
    per inner child kind with unknown loop state: a path that neither is a comment nor descends into the child leaves that child's subtree
    without attributes - today the child that follows an `@typstyle off` directive (C07.R3 *requires* that skip), whose descendants are still
    formatted when the marked node's own converter does not consult the mark (named / keyed / spread arguments)."""
    key = w.facts_dir
    if key in _ATTR_SOUND:
        return _ATTR_SOUND[key]
    from sites import evaluate_sequence
    from prov import place_key
    from tyutil import name_projection
    core = w.core

    def stores(b):
        for blk in b.blocks:
            for st in blk['stmts']:
                if st['s'] == 'assign' and st['p']['proj']:
                    l, pr = place_key(st['p'])
                    steps, _ = name_projection(w, b.locals[l]['ty'], pr)
                    if steps and steps[-1].endswith('Attributes.has_comment'):
                        return True
        return False
    attr_fns = [b for b in w.fn_bodies(core) if b.def_kind != 'Closure' and b.short.startswith('attr::')]
    loops = lambda b: any((callee_path(t) or '').endswith('Iterator::next') for _, t in b.calls())
    setters = {b.id for b in attr_fns if stores(b) and not loops(b)}
    passes = [b for b in attr_fns if loops(b) and (stores(b) or {resolved_id(t) for _, t in b.calls()} & setters)]
    if len(passes) != 1:
        res = (False, 'the pass that computes the has-comment attribute was not found (%s)' % [last(p.short) for p in passes])
        _ATTR_SOUND[key] = res
        return res
    b = passes[0]
    node_p = [i for i in range(1, b.arg_count + 1) if b.locals[i]['ty']['s'].startswith('&typst_syntax::SyntaxNode')]
    if not node_p:
        res = (False, 'node parameter of %s not found' % b.short)
        _ATTR_SOUND[key] = res
        return res

    def hook(ip, m, f, t, args):
        if resolved_id(t) == b.id and len(m.frames) >= 1:
            n = None
            for a in args:
                a = ip.load(a) if isinstance(a, kf.Ref) else a
                if isinstance(a, kf.Node):
                    n = a
            m.events.append(('descend', n))
            return kf.NOTHING_VAL
        return None
    skipped = []
    for K in ('FuncCall', 'Named', 'Args', 'Parenthesized'):
        res = evaluate_sequence(w, b, node_p[0], 'Code', [kf.Node('child', K)], hooks={'descend': hook}, no_inline=lambda tb: tb.id != b.id)
        if res is None:
            skipped.append(K + ' (not evaluated)')
            continue
        for item in res:
            steps = item[1]
            if not any(e[0] == 'descend' for st in steps for e in st):
                skipped.append(K)
                break
    if skipped:
        res = (False, '%s does not look at the children of every node: on some path a %s child is passed over without descending (the node after an `@typstyle off` '
                      'directive), so the attribute is unset for every node below it whether or not it holds comments' % (b.short, '/'.join(skipped)))
    else:
        res = (True, '%s descends into every child' % b.short)
    _ATTR_SOUND[key] = res
    return res


_SCAN_CONTRACT = {}


def scan_guard_contract(w):
    """[(ok, construct, key, why, loc)]: the scan guards the bypass rules accept by role (`has_comment_children(node)`: a bool function of a node
    that walks `node.children()`) answer `true` exactly when some child is a LineComment or a BlockComment.  The per-child test (a function item
    or closure handed to `any`, or the body of a loop) is evaluated for every SyntaxKind."""
    key = w.facts_dir
    if key in _SCAN_CONTRACT:
        return _SCAN_CONTRACT[key]
    from sites import run_function, evaluate_sequence
    g = grammar.load()
    out = []
    guards = [b for b in w.fn_bodies(w.core) if b.def_kind == 'Fn' and re.search(r'has_comment_children$', b.short)]
    for b in guards:
        cons = {'fn': b.short}
        test = None
        for bi, t in b.calls():
            if (callee_path(t) or '').endswith('Iterator::any') and len(t['args']) == 2:
                a = t['args'][1]
                if a.get('o') == 'const' and 'fn' in a and a['fn']['def']['id'] in w.bodies:
                    test = w.bodies[a['fn']['def']['id']]
                else:
                    v = BodyView(w, b)
                    for o in v.pv.peel(v.pv.origins_operand(a)):
                        if o[0] == 'agg' and v.pv.agg_rvalue(o).get('ak') == 'closure':
                            test = w.bodies.get(v.pv.agg_rvalue(o)['def']['id'])
        accepted = {}
        if test is not None:
            pidx = test.arg_count            # the node is the last parameter (closures: after the environment)
            for K in g['all_kinds']:
                res = run_function(w, test, {pidx: kf.Node('child', K)})
                vals = {repr(r[0]) for r in res or []}
                accepted[K] = vals
        else:
            node_p = [i for i in range(1, b.arg_count + 1) if b.locals[i]['ty']['s'].startswith('&typst_syntax::SyntaxNode')]
            for K in g['all_kinds']:
                res = evaluate_sequence(w, b, node_p[0], 'Code', [kf.Node('child', K), 'END'], from_start=True) if node_p else None
                vals = set()
                for item in res or []:
                    if len(item) > 3 and item[3] and item[3][0] == 'ended':
                        vals.add(repr(item[3][1]))
                accepted[K] = vals
        wrong = sorted(K for K, vals in accepted.items() if vals != ({'C(True)'} if K in COMMENT else {'C(False)'}))
        if not wrong:
            out.append((True, cons, 'guard-contract|%s' % last(b.short), 'true exactly for a LineComment / BlockComment child (evaluated for %d kinds)' % len(accepted), b.loc()))
        else:
            out.append((False, cons, 'guard-contract|%s|%s' % (last(b.short), wrong[0]),
                        '%s is used as the `no comment inside` guard of the typed-accessor layouts, but its per-child test does not answer `true` exactly for comment children '
                        '(kinds answered otherwise: %s): a comment it overlooks is dropped by every layout it guards' % (b.short, wrong[:4]), b.loc()))
    if not guards:
        out.append((True, {'fn': None}, 'guard-contract|none', 'no scan guard function in this tree (guards are judged where they are used)', None))
    _SCAN_CONTRACT[key] = out
    return out


def _guard_name_ok(w, name):
    """a no-comment guard by name; attribute reads count only if the attribute is complete"""
    if not NO_COMMENT_GUARD.search(name or ''):
        return False
    if ATTR_GUARD.search(name):
        return attr_guard_sound(w)[0]
    return True


def r2_typed_accessor_bypass(w):
    r = RuleResult('C06.R2', 'a complete path through a converter walks the children, delegates the same node, emits it verbatim, declines, or is comment-guarded', floor=40)
    e2.site_table(w)
    se = sites_mod.SiteEvaluator(w)
    se.evaluate_all()
    by_short = {b.short: b for b in w.fn_bodies(w.core)}
    # verdict per (converter, parent): 'ok' | ('delegates', {fns}) | ('bypass', whole)
    state = {}
    for (fn, parent), wholes in se.wholes.items():
        admits = bool(set(grammar.CHILDREN.get(parent, [])) & COMMENT)
        if not admits:
            state[(fn, parent)] = ('ok', 'the grammar admits no trivia inside %s' % parent)
            continue
        if wholes is None:
            state[(fn, parent)] = ('unknown', 'not evaluated within bounds')
            continue
        deleg, bypass = set(), []
        for wh in wholes:
            if wh.passed:
                continue          # iterates the children (or a list derived from them): judged by R1
            if not _emits_something(wh):
                continue          # declines (None / nil)
            if _own_text(wh):
                continue          # emits the node's own text
            if any(len(a) > 4 and a[3] and _guard_name_ok(w, a[3]) and a[4] in (False,) for a in wh.assumed):
                continue          # on the comment-free edge of a has_comment test
            d = {a[1] for a in wh.atoms if a[0] == 'conv' and isinstance(a[2], kf.Node) and a[2].tag == 'parent'}
            if d:
                deleg |= d
                continue
            bypass.append(wh)
        if bypass:
            state[(fn, parent)] = ('bypass', bypass[0])
        elif deleg:
            state[(fn, parent)] = ('delegates', deleg)
        else:
            state[(fn, parent)] = ('ok', 'every complete path walks the children, emits own text, declines or is comment-guarded')
    # resolve delegation
    def verdict(key, seen=()):
        st = state.get(key)
        if st is None:
            return ('ok', 'delegate not a dispatch converter')
        if st[0] != 'delegates' or key in seen:
            return st
        for d in st[1]:
            sub = verdict((d, key[1]), seen + (key,))
            if sub[0] in ('bypass', 'unknown', 'via'):
                return ('via', 'delegates the same node to %s, which is reported' % last(d))
        return ('ok', 'delegates the same node to %s' % sorted(last(x) for x in st[1]))
    n = 0
    for key in sorted(state):
        fn, parent = key
        st = verdict(key)
        cons = {'converter': last(fn), 'parent': parent}
        n += 1
        if st[0] in ('ok', 'via'):
            r.ok(cons, st[1])
            continue
        b = by_short.get(fn)
        ok, why = _guarded(w, b) if b is not None else (False, 'converter body not found')
        if ok:
            r.ok(cons, why)
            continue
        if st[0] == 'unknown':
            r.bad(cons, '%s|%s|not-evaluated' % (last(fn), parent),
                  '%s could not be evaluated within bounds and no dominating no-comment test was found at its call sites (%s)' % (last(fn), why), b.loc() if b else None)
            continue
        wh = st[1]
        r.bad(cons, '%s|%s|bypass' % (last(fn), parent),
              '%s has a path that builds the document of a %s node from typed accessors only (emits %s; branch assumptions %s), the grammar admits comments inside %s, '
              'and no dominating no-comment test was found (%s): comments between the accessed children are dropped'
              % (last(fn), parent, sorted({sites_mod.summarise_atom(a, kf.Node('child', None)) for a in wh.atoms})[:6],
                 [((a[3] or '').rsplit('::', 1)[-1], a[4]) for a in wh.assumed[-4:] if len(a) > 4], parent, why), b.loc() if b else None)
    for ok, cons, key, why, loc in scan_guard_contract(w):
        (r.ok(cons, why) if ok else r.bad(cons, key, why, loc))
    if n < 40:
        raise AnchorMissing('converters evaluated for the bypass rule (found %d)' % n)
    # functions that rebuild the nodes of a collection they receive (the plain dot-chain layout)
    nc = 0
    for ok, cons, key, why, loc in collection_bypass_obligations(w):
        nc += 1
        (r.ok(cons, why) if ok else r.bad(cons, key, why, loc))
    if nc < 1:
        raise AnchorMissing('collection-rebuilding functions (expected the plain dot-chain layout)')
    return r


def _own_text(wh):
    for a in wh.atoms:
        if a[0] == 'text' and isinstance(a[1], kf.Text) and a[1].node.tag == 'parent':
            return True
    return False


def _emits_something(wh):
    v = wh.result
    if isinstance(v, kf.Agg) and v.adt.endswith('Option') and v.variant == 'None':
        return False
    return any(a[0] in ('conv', 'text') for a in wh.atoms)


def _verbatim(wh):
    return any(a[0] == 'conv' and 'verbatim' in a[1] and isinstance(a[2], kf.Node) and a[2].tag == 'parent' for a in wh.atoms)


def _guarded(w, b, depth=0):
    """the converter's emission is dominated by a no-comment test inside it, or every call site is"""
    v = BodyView(w, b)
    # inside: some switch on a NO_COMMENT_GUARD call dominates every converter call / accessor use on its false edge
    inner_calls = [bi for bi, t in b.calls() if (resolved_id(t) in w.bodies and kf.default_converter_pred(w.bodies[resolved_id(t)]))
                   or (callee_path(t) or '').startswith('typst_syntax::ast::')]
    if inner_calls:
        all_ok = True
        for bi in inner_calls:
            if not any(_guard_name_ok(w, atom) and vals in ({False}, {'None'}) for atom, vals, _ in _call_guards(v, bi)):
                all_ok = False
        if all_ok:
            return True, 'guarded inside by a no-comment test'
    callers = [(cb, bi, t) for cb in w.fn_bodies(w.core) for bi, t in cb.calls() if resolved_id(t) == b.id]
    if not callers or depth > 2:
        return False, 'no guard inside%s' % ('' if callers else ' and no direct call sites')
    for (cb, bi, t) in callers:
        cv = BodyView(w, cb)
        gs = _call_guards(cv, bi)
        if any(_guard_name_ok(w, atom) and (vals in ({False}, {'Some'}, {True}) and _polarity_ok(atom, vals)) for atom, vals, _ in gs):
            continue
        # a wrapper that is itself guarded at all its call sites
        ok, why = _guarded(w, cb, depth + 1) if cb.def_kind != 'Closure' and kf.default_converter_pred(cb) is False and cb.id != b.id else (False, '')
        if ok:
            continue
        return False, 'call site in %s is not dominated by a no-comment test' % last(cb.short)
    return True, 'every call site is dominated by a no-comment test'


def _polarity_ok(atom, vals):
    if 'is_formatable' in atom:
        return vals in ({'Some'}, {True})
    return vals == {False}


def _call_guards(v, bi):
    """guards with atoms extended by the local bool they came from (has_comment accumulated in a scan loop)"""
    out = list(v.guards(bi))
    b = v.b
    for atom, vals, sw in list(out):
        # a local flag: find whether it is only ever set true after a NO_COMMENT_GUARD call
        st = b.blocks[sw]['term']
        d = st['discr']
        if d['o'] in ('copy', 'move'):
            name = b.names.get(d['p']['l']) or ''
            if not name:
                # copy of a named local
                for (proj, kind, dbi, dsi, payload) in v.pv.defs.get(d['p']['l'], []):
                    if kind == 'rv' and payload['r'] == 'use' and payload['op']['o'] in ('copy', 'move'):
                        name = b.names.get(payload['op']['p']['l']) or name
            if 'comment' in name:
                # flag set from has_comment_children?
                for bi2, t in b.calls():
                    if _guard_name_ok(v.w, callee_path(t) or '') or _guard_name_ok(v.w, w_short(v, t)):
                        out.append(('flag:%s<-%s' % (name, callee_path(t) or w_short(v, t)), vals, sw))
    return out


def w_short(v, t):
    rid = resolved_id(t)
    b = v.w.bodies.get(rid)
    return b.short if b else ''


WS_PREFIX = re.compile(r'::(lines|trim_start|trim_start_matches|strip_prefix|chars|position|len|starts_with|skip|all|map|min|count|enumerate|unwrap_or|unwrap|'
                       r'as_str|deref|text|kind|next|into_iter|is_empty)$')
STRING_TRANSFORM = re.compile(r'::(trim|trim_end|trim_matches|trim_end_matches|strip_suffix|replace|replacen|to_lowercase|to_uppercase|to_ascii_lowercase|'
                              r'to_ascii_uppercase|split|rsplit|split_whitespace|split_once|splitn|escape_debug|escape_default|truncate|pop|remove|retain|'
                              r'insert|insert_str|drain|replace_range|split_terminator|split_ascii_whitespace|repeat|rev|to_string|format|push_str|push|concat|join)$')


def r3_comment_text(w):
    r = RuleResult('C06.R3', 'between a comment\'s text() and arena.text(..) only whitespace-prefix transformers are applied', floor=8)
    cc = w.core.find('::convert_comment')
    if len(cc) != 1:
        raise AnchorMissing('convert_comment')
    reach = {x for x in w.reachable([cc[0].id]) if x.startswith('typstyle_core')}
    n_text = 0
    for bid in sorted(reach):
        b = w.bodies[bid]
        v = None
        for bi, t in b.calls():
            p = resolved_path(t) or callee_path(t) or ''
            dp = callee_path(t) or ''
            if not (p.startswith(('core::str', 'std::str', 'std::string', 'alloc::str', 'alloc::string')) or 'impl str' in p or 'String' in p):
                if dp.endswith('DocAllocator::text'):
                    n_text += 1
                continue
            cons = {'fn': b.short, 'callee': p}
            m = p.rsplit('::', 1)[-1]
            if STRING_TRANSFORM.search(p) and m not in ('len',):
                r.bad(cons, '%s|%s' % (last(b.short), m),
                      'comment text passes through `%s` in %s: only removal of the leading indentation of continuation lines is allowed, the comment would be reworded'
                      % (p, b.short), b.loc(t['span']))
            else:
                r.ok(cons, 'whitespace-prefix / inspection only')
        # slicing of the comment text: only RangeFrom (drop a prefix)
        for bi, t in b.calls():
            p = resolved_path(t) or ''
            if re.search(r'Index<.*> for str>::index$|str::traits::.*index$', p):
                v = v or BodyView(w, b)
                ok = True
                for o in v.pv.peel(v.pv.origins_operand(t['args'][1])):
                    if not (o[0] == 'agg' and v.pv.agg_rvalue(o).get('path', '').endswith('RangeFrom')):
                        ok = False
                cons = {'fn': b.short, 'slice': 'str[..]'}
                if ok:
                    r.ok(cons, 'RangeFrom slice: drops a prefix only')
                else:
                    r.bad(cons, '%s|slice' % last(b.short), 'comment text is sliced by something other than `[n..]` in %s: text could be cut' % b.short, b.loc(t['span']))
    if n_text < 2:
        raise AnchorMissing('arena.text calls in the comment converter (found %d)' % n_text)
    return r


def r4_line_comment_discipline(w):
    from rules import c04
    rs = c04.r1_line_comment_discipline(w)
    rs.rule = 'C06.R4'
    return rs


RULES = [r1_comment_coverage, r2_typed_accessor_bypass, r3_comment_text, r4_line_comment_discipline]
for _f in RULES:
    _f.needs = ('core',)
MATRIX_RULES = [r1_comment_coverage]
EXTRA_CONFIGS = ['core-serde']


# ---------------------------------------------------------------------------------------------
# R2 (collections): a function that receives a *collection* of nodes and rebuilds some of them from typed accessors
# (instead of converting each node as a whole) is reached only when every node of that collection was tested to be comment-free
# ---------------------------------------------------------------------------------------------
COLL_TY = re.compile(r"^(&(mut )?)?(std::vec::Vec<&+typst_syntax::SyntaxNode>|\[&+typst_syntax::SyntaxNode\])$")
NODE_RETURNING = lambda ty: bool(grammar.ast_type_name(ty)) or bool(re.search(r'typst_syntax::ast::\w+<', ty['s']))
ITEM_PICKERS = re.compile(r'(Iterator>?::next|slice::<impl \[T\]>::(last|first|get)|Index<.*>>::index|Deref>::deref|IntoIterator>?::into_iter|slice::<impl \[T\]>::iter|Option::<T>::(unwrap|expect)|Try>::branch|'
                          r'SyntaxNode::cast|AstNode.*::from_untyped|Iterator>?::(skip|take|rev|by_ref|peekable))$')


def _from_collection(v, operand, coll_locals, depth=0):
    """does the operand (a node) come out of one of the collection locals (iteration item, last(), index, ..), through casts?"""
    if depth > 10:
        return False
    for o in set(v.pv.origins_operand(operand)) | set(v.pv.peel(v.pv.origins_operand(operand))):
        if o[0] == 'param' and o[1] in coll_locals:
            return True
        if o[0] == 'ref' and o[1][0] in coll_locals:
            return True
        if o[0] == 'call':
            ct = v.pv.call_term(o)
            p = callee_path(ct) or ''
            if ITEM_PICKERS.search(p) and ct['args']:
                if _from_collection(v, ct['args'][0], coll_locals, depth + 1):
                    return True
    return False


def _scan_flags(w, b, v):
    """{flag local: collection local} for the idiom
         let mut flag = false; for item in &coll { if <no-comment guard>(item) { flag = true } }
       (the flag is assigned nowhere else)"""
    out = {}
    loops = cfg.natural_loops(b)
    for h, blocks in loops.items():
        t = b.blocks[h]['term']
        if t['t'] != 'call' or not re.search(r'Iterator>?::next$', callee_path(t) or ''):
            continue
        # the iterated collection
        coll = set()
        work = [t['args'][0]]
        hops = 0
        while work and hops < 10:
            hops += 1
            cur = work.pop()
            for o in set(v.pv.origins_operand(cur)) | set(v.pv.peel(v.pv.origins_operand(cur))):
                if o[0] == 'ref':
                    l = o[1][0]
                    if COLL_TY.search(b.locals[l]['ty']['s']):
                        coll.add(l)
                    else:
                        # a local holding the iterator: follow its definition
                        for (proj, kind, dbi, dsi, payload) in v.pv.defs.get(l, []):
                            if kind == 'rv' and payload['r'] == 'use':
                                work.append(payload['op'])
                            elif kind == 'call':
                                ct = b.blocks[dbi]['term']
                                if re.search(r'IntoIterator>?::into_iter$|::iter$|Deref>?::deref$|::as_slice$', callee_path(ct) or '') and ct['args']:
                                    work.append(ct['args'][0])
                elif o[0] == 'param' and COLL_TY.search(b.locals[o[1]]['ty']['s']):
                    coll.add(o[1])
                elif o[0] == 'call':
                    ct = v.pv.call_term(o)
                    if re.search(r'IntoIterator>?::into_iter$|::iter$|Deref>?::deref$|::as_slice$', callee_path(ct) or '') and ct['args']:
                        work.append(ct['args'][0])
        if len(coll) != 1:
            continue
        item_dest = t['dest']['l']
        for bi in blocks:
            gt = b.blocks[bi]['term']
            if gt['t'] != 'call' or not (_guard_name_ok(w, callee_path(gt) or '') or _guard_name_ok(w, w_short(v, gt))):
                continue
            # applied to the loop item
            subj = v.pv.peel(v.pv.origins_operand(gt['args'][-1] if gt['args'] else None)) if gt['args'] else set()
            if not any(o[0] == 'call' and o[1][0] == h for o in subj):
                continue
            nb = gt.get('target')
            for _ in range(4):          # blocks that only hand the result on (an expanded closure returns through a move and a jump)
                if nb is not None and b.blocks[nb]['term']['t'] == 'goto' and all(st['s'] != 'assign' or (st['rv']['r'] == 'use' and st['rv']['op'].get('o') in ('move', 'copy'))
                                                                                   for st in b.blocks[nb]['stmts']):
                    nb = b.blocks[nb]['term']['target']
            if nb is None or b.blocks[nb]['term']['t'] != 'switch':
                continue
            if not any(o[0] == 'call' and o[1][0] == bi for o in v.pv.peel(v.pv.origins_operand(b.blocks[nb]['term']['discr']))):
                continue
            for tgt, label in v.switch_edges(nb):
                if v.label_values(nb, label) != {True}:
                    continue
                for st in b.blocks[tgt]['stmts']:
                    if st['s'] == 'assign' and not st['p']['proj'] and st['rv']['r'] == 'use' and st['rv']['op'].get('int') == 1 and b.locals[st['p']['l']]['ty']['s'] == 'bool':
                        f = st['p']['l']
                        # every other whole assignment to the flag is `= false` outside the loop
                        ok = True
                        for (proj, kind, dbi, dsi, payload) in v.pv.defs.get(f, []):
                            if kind != 'rv' or payload['r'] != 'use' or payload['op'].get('o') != 'const':
                                ok = False
                            elif payload['op'].get('int') == 0 and dbi in blocks:
                                ok = False
                        if ok:
                            out[f] = list(coll)[0]
    return out


def collection_bypass_obligations(w):
    out = []
    core = w.core
    g = grammar.load()
    admits = {k for k in grammar.CHILDREN if set(grammar.CHILDREN[k]) & COMMENT}
    for f in w.fn_bodies(core):
        if f.def_kind == 'Closure' or not f.short.startswith('pretty::'):
            continue
        cparams = [i for i in range(1, f.arg_count + 1) if COLL_TY.search(f.locals[i]['ty']['s'])]
        if not cparams:
            continue
        ret = f.locals[0]['ty']['s']
        if not (ret.startswith('pretty::DocBuilder') or ret.startswith('std::option::Option<pretty::DocBuilder')):
            continue
        fv = BodyView(w, f)
        # locals the collection is moved into (`for child in chain`): treat as the same collection
        coll_locals = set(cparams)
        for l, ds in fv.pv.defs.items():
            for (proj, kind, dbi, dsi, payload) in ds:
                if kind == 'rv' and payload['r'] == 'use' and payload['op'].get('o') in ('move', 'copy') and payload['op']['p']['l'] in coll_locals and not payload['op']['p']['proj']:
                    coll_locals.add(l)
        picks = []
        for bi, t in f.calls():
            p = callee_path(t) or ''
            m = re.match(r"^typst_syntax::ast::(\w+)::<'?\w*>::(\w+)$", p) or re.match(r'^typst_syntax::ast::(\w+)::(\w+)$', p)
            if not m or t['dest']['proj']:
                continue
            T, meth = m.group(1), m.group(2)
            if not NODE_RETURNING(f.locals[t['dest']['l']]['ty']):
                continue
            if not (set(g['kinds_of'].get(T, [])) & admits):
                continue
            if t['args'] and _from_collection(fv, t['args'][0], coll_locals):
                picks.append((T, meth, bi))
        if not picks:
            continue
        cons = {'fn': last(f.short), 'collection_param': [f.names.get(i, '_%d' % i) for i in cparams], 'selective_accessors': sorted({'%s::%s' % (T, m_) for T, m_, _ in picks})}
        # (a) a scan over the parameter inside f that dominates every pick
        inner = _scan_flags(w, f, fv)
        ok_inside = False
        for flag, coll in inner.items():
            if coll in coll_locals and all(any(atom == 'local:%d' % flag or _is_flag_guard(fv, sw, flag) and vals == {False} for atom, vals, sw in fv.guards(bi)) for _, _, bi in picks):
                ok_inside = True
        if ok_inside:
            out.append((True, cons, 'collection|%s' % last(f.short), 'scans its own parameter for comments before using the accessors', f.loc()))
            continue
        # (b) every call site passes a collection that was scanned and is on the comment-free edge
        callers = [(cb, bi, t) for cb in w.fn_bodies(core) for bi, t in cb.calls() if resolved_id(t) == f.id]
        bad = None
        if not callers:
            bad = 'it has no direct call sites'
        for (cb0, bi, t) in callers:
            import inline
            cb = inline.desugared(w, cb0)          # `coll.iter().any(has_comment)` is read as the flag-setting loop it stands for
            cv = BodyView(w, cb)
            flags = _scan_flags(w, cb, cv)
            arg_locals = set()
            for i in cparams:
                for o in set(cv.pv.origins_operand(t['args'][i - 1])) | set(cv.pv.peel(cv.pv.origins_operand(t['args'][i - 1]))):
                    if o[0] in ('param',):
                        arg_locals.add(o[1])
                    elif o[0] == 'ref':
                        arg_locals.add(o[1][0])
                a = t['args'][i - 1]
                if a['o'] in ('move', 'copy') and not a['p']['proj']:
                    arg_locals.add(a['p']['l'])
                    for (proj, kind, dbi, dsi, payload) in cv.pv.defs.get(a['p']['l'], []):
                        if kind == 'rv' and payload['r'] == 'use' and payload['op'].get('o') in ('move', 'copy'):
                            arg_locals.add(payload['op']['p']['l'])
            covered = False
            for flag, coll in flags.items():
                if coll in arg_locals and any(_is_flag_guard(cv, sw, flag) and vals == {False} for atom, vals, sw in cv.guards(bi)):
                    miss = _scan_misses(w, cb, cv, flag, admits)
                    if miss:
                        bad = 'the scan in %s does not test items of kind %s (which can contain comments)' % (last(cb.short), miss)
                    else:
                        covered = True
            if bad and not covered:
                continue
            if not covered:
                bad = 'the call in %s is not on the comment-free edge of a scan of the same collection (scans found: %s)' % (
                    last(cb.short), {cb.names.get(fl, fl): cb.names.get(c_, c_) for fl, c_ in flags.items()} or 'none')
        if bad:
            out.append((False, cons, 'collection|%s' % last(f.short),
                        '%s rebuilds nodes of the collection it receives from typed accessors (%s) - whatever else these nodes contain, comments included, is not emitted - and %s: '
                        'a comment inside any node of the collection that the test does not look at is dropped' % (f.short, ', '.join(cons['selective_accessors']), bad), f.loc()))
        else:
            out.append((True, cons, 'collection|%s' % last(f.short), 'every call site is on the comment-free edge of a scan over the same collection', f.loc()))
    return out


def _scan_misses(w, cb, cv, flag, admits):
    """kinds (among those that can contain comments) for which an iteration of the scan loop can finish without applying the no-comment test
    to the item, other than because the flag is already set"""
    from sites import evaluate_sequence
    node_p = [i for i in range(1, cb.arg_count + 1) if cb.locals[i]['ty']['s'].startswith('&typst_syntax::SyntaxNode') or grammar.ast_type_name(cb.locals[i]['ty'])]
    if not node_p:
        return ['?']

    def hook(ip, m, f, t, args):
        rp = callee_path(t) or ''
        rs = w_short(cv, t)
        if _guard_name_ok(w, rp) or _guard_name_ok(w, rs):
            n = None
            for a in args:
                a = ip.load(a) if isinstance(a, kf.Ref) else a
                a = ip.load(a) if isinstance(a, kf.Ref) else a
                if isinstance(a, kf.Node):
                    n = a
            m.events.append(('guard', n))
        return None
    missing = []
    kinds = sorted(k for k in admits if k in grammar.CODE_EXPR or k in grammar.MATH_EXPR)
    for K in kinds:
        res = evaluate_sequence(w, cb, node_p[0], 'FieldAccess', [kf.Node('child', K)], hooks={'guard': hook}, with_wholes=True)
        if res is None:
            missing.append(K + ' (not evaluated)')
            continue
        for item in res:
            loop, steps, assumed = item[0], item[1], item[2]
            if loop is None or loop[0] != cb.short:
                continue
            if any(e[0] == 'guard' and isinstance(e[1], kf.Node) and e[1].kind == K for e in steps[0]):
                continue
            if any(len(a) > 4 and a[0] == cb.short and a[4] is True and _is_flag_guard(cv, a[1], flag) for a in assumed):
                continue          # the flag was already set: nothing left to find out
            missing.append(K)
            break
    return missing


def _is_flag_guard(v, sw, flag):
    d = v.b.blocks[sw]['term']['discr']
    if d.get('o') not in ('copy', 'move'):
        return False
    l = d['p']['l']
    if l == flag:
        return True
    seen = set()
    for _ in range(4):
        nxt = None
        for (proj, kind, dbi, dsi, payload) in v.pv.defs.get(l, []):
            if kind == 'rv' and payload['r'] == 'use' and payload['op'].get('o') in ('copy', 'move') and not payload['op']['p']['proj']:
                if payload['op']['p']['l'] == flag:
                    return True
                if len(v.pv.defs.get(l, [])) == 1:
                    nxt = payload['op']['p']['l']
        if nxt is None or nxt in seen:
            break
        seen.add(nxt)
        l = nxt
    return False
