"""C13 - range formatting is safe to splice (the statically visible clauses).

R1 clamp before slice   R2 refusal (= C05.R1 on the range entry)   R3 range/text consistency
R4 partial-operation inventory of the functions only the range entry reaches
"""
import re
import cfg
from prov import strip_casts
from mirfacts import callee_path, resolved_id, resolved_path, callee_str
from paths import BodyView
from framework import RuleResult, AnchorMissing
from rules import c05

META = {
    'explanation': 'Over the MIR of typstyle-core\'s range entry: (R1) the caller\'s Range<usize> reaches a str/slice index only after both ends were '
                   'clamped with min(text length) - in the entry and, across the call, in every helper the range is passed to; (R2) conversion is '
                   'dominated by the not-erroneous edge of the covering node, every other path returns Err; (R3) the returned range is range() of the '
                   'very node that is cast and handed to the converter, the converter is selected by that node\'s own cast, the mode comes from the same '
                   'cover search, the text is rendered from that document with the configured width and nested by the source-derived indentation; '
                   '(R4) the partial operations only the range entry reaches are discharged (clamped-range argument, guards, axiom table).',
    'decides': 'no panic for arbitrary (start <= end) ranges on character boundaries, refusal on erroneous covers, range/text consistency',
    'does_not_decide': 'that splicing the returned text re-parses to an equivalent tree (behavioural, C01/C04-like)',
    'trusted_base': ['typst_syntax::LinkedNode::range is the node\'s byte range', 'str::trim_end/trim_start return sub-slices on character boundaries',
                     'axiom table (lib/rules/c13.py)', 'rustc MIR construction'],
}


def _entry(w):
    bs = [b for b in w.fn_bodies(w.core) if b.def_kind != 'Closure' and c05._is_range_entry(b)]
    if len(bs) != 1:
        raise AnchorMissing('range-formatting entry: %s' % [b.short for b in bs])
    return bs[0]


def _range_param(b):
    for i in range(1, b.arg_count + 1):
        if b.locals[i]['ty']['s'] == 'std::ops::Range<usize>':
            return i
    return None


def _clamped_range(v, operand, text_len_ok):
    """operand is Range{start: min(_, len), end: min(_, len)} (len = length of the text being sliced)"""
    ors = v.pv.peel(v.pv.origins_operand(operand))
    if not ors:
        return False, 'no provenance'
    for o in ors:
        if o[0] != 'agg':
            return False, 'range has provenance %s (not a freshly clamped Range literal)' % v.describe(o)
        rv = v.pv.agg_rvalue(o)
        if not rv.get('path', '').endswith('ops::Range') or len(rv['ops']) != 2:
            return False, 'not a Range literal'
        for end in rv['ops']:
            for e in v.pv.peel(v.pv.origins_operand(end)):
                e = strip_casts(e)
                if not (e[0] == 'call' and re.search(r'Ord::min$|Ord>::min$|cmp::min$', callee_path(v.pv.call_term(e)) or '')):
                    return False, 'a bound of the range is %s, not min(.., text length)' % v.describe(e)
                mt = v.pv.call_term(e)
                if not any(text_len_ok(v, a) for a in mt['args']):
                    return False, 'min() is not taken against the length of the text'
    return True, 'Range { start.min(len), end.min(len) }'


def _is_text_len(v, operand):
    for o in v.pv.peel(v.pv.origins_operand(operand)):
        o = strip_casts(o)
        if o[0] == 'call':
            p = callee_path(v.pv.call_term(o)) or ''
            if p in ('typst_syntax::Source::len_bytes', 'core::str::<impl str>::len', 'std::string::String::len', 'typst_syntax::Source::len_utf8'):
                continue
        return False
    return True


STR_INDEX = re.compile(r'impl std::ops::Index<I> for str>::index$|Index<.*> for str|str::traits::.*index$|<impl str>::get_unchecked|::split_at$|::is_char_boundary$')


def r1_clamp_before_slice(w):
    r = RuleResult('C13.R1', 'the caller\'s range is clamped to the text length before any index/slice that uses it (entry and helpers)', floor=1)
    b = _entry(w)
    v = BodyView(w, b)
    rp = _range_param(b)
    if rp is None:
        raise AnchorMissing('Range<usize> parameter of %s' % b.short)
    # every use of the raw parameter: only field reads feeding min(), or being replaced by the clamped literal
    from dataflow import iter_uses
    n = 0
    for bi, t in b.calls():
        # calls that receive a Range<usize> argument
        for ai, a in enumerate(t['args']):
            if a['o'] in ('copy', 'move') and b.locals[a['p']['l']]['ty']['s'] == 'std::ops::Range<usize>' and not a['p']['proj']:
                ors = v.pv.peel(v.pv.origins_operand(a))
                raw = any(o[0] == 'param' and o[1] == rp for o in ors)
                tainted = raw or any(o[0] == 'agg' for o in ors)
                if not tainted:
                    continue
                rid = resolved_id(t)
                cb = w.bodies.get(rid)
                p = cb.short if cb else (callee_path(t) or '')
                if re.search(r'Clone>?::clone$', p):
                    continue
                n += 1
                cons = {'fn': b.short, 'passes_range_to': p}
                ok, why = _clamped_range(v, a, _is_text_len)
                slices = cb is not None and _slices_by_param(w, cb, ai + 1)
                if ok:
                    r.ok(cons, why)
                elif slices:
                    r.bad(cons, '%s|unclamped|%s' % (b.short, p.rsplit('::', 1)[-1]),
                          '%s passes the caller\'s range to %s, which slices the text with it, before clamping it to the text length (%s): a range ending past the end '
                          'of the text panics' % (b.short, p, why), b.loc(t['span']))
                else:
                    r.ok(cons, 'callee does not index with the range')
    # direct slicing in the entry with the raw parameter
    for bi, t in b.calls():
        p = resolved_path(t) or callee_path(t) or ''
        if STR_INDEX.search(p) or re.search(r'slice::index::.*index$', p):
            for a in t['args'][1:]:
                ors = v.pv.peel(v.pv.origins_operand(a))
                if any(o[0] == 'param' and o[1] == rp for o in ors):
                    n += 1
                    r.bad({'fn': b.short, 'index': p}, '%s|raw-index' % b.short, '%s indexes with the caller\'s unclamped range' % b.short, b.loc(t['span']))
    if n == 0:
        raise AnchorMissing('no use of the range parameter found in %s' % b.short)
    return r


def _slices_by_param(w, cb, param):
    """does cb index a str/slice with (a value derived from) its `param`-th parameter?"""
    cv = BodyView(w, cb)
    for bi, t in cb.calls():
        p = resolved_path(t) or callee_path(t) or ''
        if STR_INDEX.search(p) or re.search(r'slice::index::.*index$', p):
            for a in t['args'][1:]:
                for o in cv.pv.peel(cv.pv.origins_operand(a)):
                    if o[0] == 'param' and o[1] == param:
                        return True
                    if o[0] == 'call' and re.search(r'Clone>?::clone$', callee_path(cv.pv.call_term(o)) or ''):
                        inner = cv.pv.peel(cv.pv.origins_operand(cv.pv.call_term(o)['args'][0]))
                        if any(x[0] == 'param' and x[1] == param for x in inner):
                            return True
    return False


def r2_refusal(w):
    rs = c05.r1_refusal_guard(w)
    out = RuleResult('C13.R2', 'range entry: conversion dominated by the not-erroneous edge of the covering node; every other path returns Err', floor=5)
    b = _entry(w)
    for inst in rs.instances:
        if inst['construct'].get('entry') == b.short:
            out.instances.append(inst)
    for f in rs.findings:
        if b.short in f.key:
            f.key = f.key.replace('C05.R1', 'C13.R2')
            f.rule = 'C13.R2'
            out.findings.append(f)
    return out


def r3_consistency(w):
    r = RuleResult('C13.R3', 'returned range = range() of the node that is cast and converted; mode from the same cover search; text rendered from that document', floor=7)
    b = _entry(w)
    v = BodyView(w, b)
    # the covering node: the LinkedNode local whose range() is returned
    ok_sites = []
    for bi, blk in enumerate(b.blocks):
        if blk['cleanup']:
            continue
        for s in blk['stmts']:
            if s['s'] == 'assign' and s['p']['l'] == 0 and s['rv']['r'] == 'agg' and s['rv'].get('vname') == 'Ok':
                ok_sites.append((bi, s))
    if len(ok_sites) != 1:
        r.bad({'fn': b.short}, '%s|ok-sites' % b.short, 'expected exactly one Ok(..) construction in %s, found %d' % (b.short, len(ok_sites)), b.loc())
        return r
    bi, s = ok_sites[0]
    tup = v.pv.peel(v.pv.origins_operand(s['rv']['ops'][0]))
    if len(tup) != 1 or next(iter(tup))[0] != 'agg':
        r.bad({'fn': b.short}, '%s|ok-payload' % b.short, 'Ok payload is not a (range, text) tuple literal', b.loc(s['span']))
        return r
    trv = v.pv.agg_rvalue(next(iter(tup)))
    rng_or = v.pv.peel(v.pv.origins_operand(trv['ops'][0]))
    node_src = None
    good = True
    for o in rng_or:
        if o[0] == 'call' and (callee_path(v.pv.call_term(o)) or '').endswith('LinkedNode::<\'a>::range'):
            ns = v.pv.origins_operand(v.pv.call_term(o)['args'][0])
            node_src = ns if node_src is None else node_src
            if ns != node_src:
                good = False
        else:
            good = False
    cons = {'fn': b.short, 'returned_range': sorted(v.describe(o) for o in rng_or)}
    if good and node_src:
        r.ok(cons, 'range() of the covering node')
    else:
        r.bad(cons, '%s|returned-range' % b.short, 'the returned range is not LinkedNode::range() of the covering node: %s' % cons['returned_range'], b.loc(s['span']))
        return r
    node_locals = {o[1][0] for o in node_src if o[0] == 'ref'}
    view = re.compile(r'Deref>::deref$|Deref::deref$|LinkedNode::<.*>::get$|AstNode.*to_untyped$')

    node_desc = {v.describe(o) for o in v.pv.through(node_src, view)}

    def is_node(operand):
        ors = v.pv.through(v.pv.origins_operand(operand), view)
        return bool(ors) and {v.describe(o) for o in ors} == node_desc
    # converter calls: node argument = cast of that node; guarded by the Some edge of that cast
    conv = [(cbi, t) for cbi, t in b.calls() if (w.bodies.get(resolved_id(t)) is not None and c05.CONVERTER_RE.search(w.bodies[resolved_id(t)].short))]
    if len(conv) < 3:
        r.bad({'fn': b.short}, '%s|converters' % b.short, 'expected converter calls for Markup, Expr and Pattern covers, found %d' % len(conv), b.loc())
    docs = set()
    for cbi, t in conv:
        cb = w.bodies[resolved_id(t)]
        cons = {'fn': b.short, 'converter': cb.short}
        arg = t['args'][2]
        ors = v.pv.peel(v.pv.origins_operand(arg))
        fine = bool(ors)
        for o in ors:
            if not (o[0] == 'call' and (callee_path(v.pv.call_term(o)) or '') == 'typst_syntax::SyntaxNode::cast' and o[2] == (('v', 1), ('f', 0))
                    and is_node(v.pv.call_term(o)['args'][0])):
                fine = False
        # parameter type of the converter agrees with the cast target
        if fine:
            r.ok(cons, 'converts the cast of the covering node')
        else:
            r.bad(cons, '%s|converted-node|%s' % (b.short, cb.short.rsplit('::', 1)[-1]),
                  '%s is not applied to the cast of the covering node (argument provenance %s): returned range and text would describe different nodes'
                  % (cb.short, sorted(v.describe(o) for o in ors)), b.loc(t['span']))
        docs.add(t['dest']['l'])
        # context: with_mode(mode) where mode comes from the same cover tuple
        cx = v.pv.peel(v.pv.origins_operand(t['args'][1]))
        cfine = bool(cx)
        for o in cx:
            if not (o[0] == 'call' and (callee_path(v.pv.call_term(o)) or '').endswith('Context::with_mode')):
                cfine = False
                continue
            mo = v.pv.peel(v.pv.origins_operand(v.pv.call_term(o)['args'][1]))
            if not all(_same_cover(v, m, node_locals) for m in mo):
                cfine = False
        cons = {'fn': b.short, 'converter': cb.short, 'context': sorted(v.describe(o) for o in cx)}
        if cfine:
            r.ok(cons, 'mode computed by the cover search')
        else:
            r.bad(cons, '%s|context|%s' % (b.short, cb.short.rsplit('::', 1)[-1]), 'converter context is not Context::default().with_mode(<mode of the cover search>)', b.loc(t['span']))
    # text: to_string(pretty(nest(doc, indent), max_width))
    txt = v.pv.peel(v.pv.origins_operand(trv['ops'][1]))
    tfine = bool(txt)
    for o in txt:
        if not (o[0] == 'call' and (callee_path(v.pv.call_term(o)) or '').endswith('to_string')):
            tfine = False
            continue
        pr = v.pv.through(v.pv.origins_operand(v.pv.call_term(o)['args'][0]), re.compile(r'Deref>::deref$'))
        for x in pr:
            if not (x[0] == 'call' and (callee_path(v.pv.call_term(x)) or '').endswith('::pretty')):
                tfine = False
                continue
            pt = v.pv.call_term(x)
            width = v.describe_operand(pt['args'][1])
            if width != 'field:typstyle_core::config::Config.max_width':
                tfine = False
            dd = v.pv.through(v.pv.origins_operand(pt['args'][0]), re.compile(r'Deref>::deref$|DocBuilder::<.*>::nest$'))
            if not dd or not all(y[0] == 'call' and y[1][0] in {cbi for cbi, _ in conv} for y in dd):
                tfine = False
    cons = {'fn': b.short, 'returned_text': sorted(v.describe(o) for o in txt)[:2]}
    if tfine:
        r.ok(cons, 'rendered from the converted document at Config.max_width')
    else:
        r.bad(cons, '%s|returned-text' % b.short, 'the returned text is not the rendering of the converted covering node at the configured width', b.loc(s['span']))
    return r


def _same_cover(v, o, node_locals):
    """`mode` and `node` are the two components of the same Some((node, mode)) payload"""
    o = strip_casts(o)
    if o[0] != 'call' or not o[2] or o[2][-1] != ('f', 1):
        return False
    # the node local is defined from the same call with .0
    for l in node_locals:
        for x in v.pv._origins_local(l, frozenset()):
            if x[0] == 'call' and x[1] == o[1] and x[2][:-1] == o[2][:-1] and x[2][-1] == ('f', 0):
                return True
    return False


AXIOMS = [
    (r'^utils::trim_range\|index\|index\|', 'both slices use sub-ranges of a range whose ends were clamped to the text length by every caller (R1) and lie on character boundaries '
                                            '(trim_end/trim_start cut at character boundaries; start <= end by the statement)'),
    (r'^utils::trim_range\|overflow:Add\|', 'start + len(trimmed sub-slice) <= end <= text length'),
    (r'^utils::trim_range\|overflow:Sub\|', 'end - len(trim_start(sub-slice)) >= start >= 0: the sub-slice is text[start..end]'),
    (r'^utils::count_spaces_after_last_newline\|panic\|panic_fmt\|', 'debug assertion that the trimmed start is a character boundary: it is (clamped, trimmed start of a range on character boundaries)'),
    (r'^utils::count_spaces_after_last_newline\|index\|index\|', 's[..i] with i <= len on a character boundary; s[pos+1..i] with pos = rfind in s[..i], hence pos + 1 <= i'),
]


def r4_range_only_partial_ops(w):
    r = RuleResult('C13.R4', 'partial operations only the range entry reaches are discharged (clamped range across the call, guards, axioms)', floor=6)
    doc, range_only, _ = c05.scope(w)
    table = [(re.compile(rx), why) for rx, why in AXIOMS]
    views = {}
    entry = _entry(w)
    for ob in c05.obligations(w, range_only | {entry.id}):
        b = ob['body']
        v = views.setdefault(b.id, BodyView(w, b))
        key = c05._stable(c05.ob_key(v, ob))
        cons = {'fn': b.short, 'op': ob['op'] + (':' + ob['path'].rsplit('::', 1)[-1] if ob['kind'] == 'call' else ''), 'line_hint': ob['term']['span']['line']}
        d = c05.discharge(w, v, ob)
        if d:
            r.ok(cons, '%s: %s' % d)
            continue
        hit = None
        for rx, why in table:
            if rx.search(key):
                hit = why
        if hit and b.short == 'utils::trim_range' and not _all_callers_clamp(w, b):
            hit = None
        if hit and 'count_spaces_after_last_newline' in b.short and ob['op'] == 'index':
            # bounds must be the function's own position parameter, or (rfind result) + 1
            t = ob['term']
            fine = True
            for o in v.pv.peel(v.pv.origins_operand(t['args'][1])):
                if o[0] != 'agg':
                    fine = False
                    continue
                for bound in v.pv.agg_rvalue(o)['ops']:
                    for e in v.pv.peel(v.pv.origins_operand(bound)):
                        e = strip_casts(e)
                        if e[0] == 'param' and not e[2] and b.locals[e[1]]['ty']['s'] == 'usize':
                            continue
                        if e[0] == 'binop' and e[1][2].startswith('Add'):
                            brv = b.blocks[e[1][0]]['stmts'][e[1][1]]['rv']
                            a_or = v.pv.peel(v.pv.origins_operand(brv['a']))
                            if brv['b'].get('int') == 1 and all(x[0] == 'call' and (callee_path(v.pv.call_term(x)) or '').endswith('::rfind') for x in a_or):
                                continue
                        fine = False
            if not fine:
                hit = None
        if hit:
            r.ok(cons, 'axiom: %s' % hit)
        else:
            r.bad(cons, key, 'undischarged partial operation in %s reachable from range formatting: `%s` (operands: %s)'
                  % (b.short, ob.get('path', ob['op']), key.split('|', 3)[-1][:160]), b.loc(ob['term']['span']))
    return r


def _all_callers_clamp(w, b):
    rp = _range_param(b)
    callers = [(cb, bi, t) for cb in w.fn_bodies(w.core) for bi, t in cb.calls() if resolved_id(t) == b.id]
    if not callers or rp is None:
        return False
    for (cb, bi, t) in callers:
        cv = BodyView(w, cb)
        ok, _ = _clamped_range(cv, t['args'][rp - 1], _is_text_len)
        if not ok:
            return False
    return True


RULES = [r1_clamp_before_slice, r2_refusal, r3_consistency, r4_range_only_partial_ops]
for _f in RULES:
    _f.needs = ('core',)
MATRIX_RULES = RULES
EXTRA_CONFIGS = ['core-serde']
